# shared by bin/setup, bin/check, bin/replay
export CARGO_NET_OFFLINE=true
export VERIF_DIR="${VERIF_DIR:-/verif}"
MC="$VERIF_DIR/mc"
TGT="${VERIF_TARGET:-$VERIF_DIR/target}"

# variant -> cargo profile + features
variant_args() {
	case "$1" in
		release)         echo "--release" ;;
		ubcheck)         echo "--profile ubcheck" ;;
		unsafe)          echo "--release --features unsafe_performance" ;;
		unsafe-ubcheck)  echo "--profile ubcheck --features unsafe_performance" ;;
		u16)             echo "--release --features period_type_u16" ;;
		u32)             echo "--release --features period_type_u32" ;;
		u64)             echo "--release --features period_type_u64" ;;
		f32)             echo "--release --features value_type_f32" ;;
		u16-unsafe)      echo "--release --features period_type_u16,unsafe_performance" ;;
		f32-unsafe)      echo "--release --features value_type_f32,unsafe_performance" ;;
		f32-u16)         echo "--release --features value_type_f32,period_type_u16" ;;
		xcheck)          echo "--release --features xcheck" ;;
		*) echo "unknown variant $1" >&2; return 1 ;;
	esac
}
variant_profile_dir() {
	case "$1" in
		ubcheck|unsafe-ubcheck) echo ubcheck ;;
		*) echo release ;;
	esac
}
# build <variant> <bin> ; prints nothing on success; binary at $(bin_path variant bin)
build() {
	local v="$1" b="$2" args
	args=$(variant_args "$v") || return 2
	# the lock file of the repository pins the shared dependencies
	[ -f "$MC/Cargo.lock" ] || cp /repo/Cargo.lock "$MC/Cargo.lock"
	( cd "$MC" && CARGO_TARGET_DIR="$TGT/$v" cargo build --offline -q $args -p checks --bin "$b" ) 2>"$TGT/.build-$v-$b.log"
	local rc=$?
	if [ $rc -ne 0 ]; then
		echo "MACHINERY-ERROR: build of $b ($v) failed:" >&2
		tail -40 "$TGT/.build-$v-$b.log" >&2
		return 2
	fi
	return 0
}
bin_path() { echo "$TGT/$1/$(variant_profile_dir "$1")/$2"; }
