#!/usr/bin/env python3
"""Regenerates /verif/MANIFEST.json from the table below (single source of truth)."""
import json, os, sys

ROOT = os.path.dirname(os.path.dirname(os.path.abspath(__file__)))
props = [json.loads(l) for l in open(os.path.join(ROOT, "properties.jsonl"))]
ids = [p["id"] for p in props]

# id -> (design_ref, technique, level text, level note)
CHECKS = {
    "C01": ("DESIGN.md §6 C01",
            "explicit-state exploration of the real Window<u32> x VecDeque reference: every capacity 0..=254, every constructor, 2N+2 pushes, every observer, every iterator split and every consuming adaptor (fold, sum, collect, nth, position, max, on the concrete iterator types after 0..n calls of next) in every state; total enumeration of adversarial serialized forms; thorough: closure explorations cross-checked against stateright (equal state counts)",
            "Every (capacity, rotation phase / fill level, observer) triple of the default build is visited and compared with a labelled FIFO model, including rebuilds through from_parts and serde; the space is finite and closed, so for the label alphabet the result is exhaustive. Parametricity lifts labels to all element types.",
            "Trusted: the VecDeque reference (a few lines), serde_json for the round trip, rustc's parametricity for Window<T: Clone>. Quick tier checks all iterator splits only for N <= 40 and boundary/phase-relative splits above; thorough checks every split for every N."),
    "C02": ("DESIGN.md §6 C02",
            "exhaustive depth-bounded and deviation-bounded exploration of the real methods x from-scratch window definitions: every input sequence up to depth 8-10 over exact and rounding-active alphabets for lengths 1..6, every length 1..=254 with <=1 (quick) / <=2 (thorough) deviations from a flat stream, every Conv weight vector of length <=4 and unit/ones/ramp vectors of every length; the same methods in tiny units (2^-60) and over both zeros / mixed signs; containment in a fixed rounding radius",
            "Each of the 19 finite-window methods is compared, on every transition and for next and peek, with its documented formula evaluated from scratch on the last n inputs (construction value as prehistory). The comparison is two-sided with the radius of DESIGN §4.2, so any formula, weight, window-offset or initialisation error beyond rounding is seen on every sequence within the bounds.",
            "Trusted: the reference definitions in mc/refmodel (my reading of the docs), the radius rule. Values outside the alphabets and streams with more than 2 deviations beyond the exhaustive depth are not executed."),
    "C03": ("DESIGN.md §6 C03",
            "exhaustive depth-bounded (d<=7 quick / 9 thorough, lengths 1,2,3,4,5,7) and deviation-bounded (every length 1..=254, 1..=127 for WSMA; all 64 516 TSI pairs thorough) exploration of the real recursive methods x their documented recurrences folded over the whole stream; every subject also in tiny units (2^-60), TSI on 320-step flat tails",
            "EMA/DMA/TMA/DEMA/TEMA/RMA/WSMA/TSI/Vidya/TR/HeikinAshi/cumulative Integral and ADI are compared at every step with the recurrence written without mul_add; the radius of a recursive filter does not grow with the stream. An all-zero change window is an exact predicate (decides Vidya's branch exactly).",
            "Trusted: reference recurrences in mc/refmodel; Vidya on a 0/0 momentum follows the implementation's stated branch (returns its input)."),
    "C04": ("DESIGN.md §6 C04",
            "closure BFS (state space closes: every stream length, every weak order pattern incl. both zeros) of the real selection methods x sort/max/min/arg reference for lengths 1..5 (7 thorough); macro-step exploration of <=2/3 constant/ramp segments for every length 1..=254",
            "The algorithms only compare and copy, so a closed exploration over an alphabet of n+1 ordered values plus both zeros covers every behaviour class of a length-n window for streams of any length; outputs are compared exactly (up to the sign of zero), SMM's exported window must hold the last n inputs.",
            "Trusted: the order-pattern lifting argument, the sort-based reference. Lengths above 7 are covered by segment streams only."),
    "C05": ("DESIGN.md §6 C05, Appendix A, §12.5",
            "exhaustive exploration of every indicator x independent reference formula (refmodel/src/ind, written from the doc comments): every candle sequence to depth 5-6 (6-7 thorough) over 6 candles + 2 state-dependent trend symbols for the default and a small-period configuration, to depth 4-5 with every MA kind in every MA slot and every source, small-period variants starting at 2, 3 and 4 (every parity of every length), the same candles in tiny units (x2^-60), 90-step (120) flat streams with <=1-2 deviations and sustained trends, 640-step (900) zigzags on a steady trend, every float parameter at 5 values on 300-step streams, wide-period configurations (300 / 511) on 1300-step streams inside the u16 build (run by C20); containment of every returned value in value +- propagated radius (floor 16 eps at unit scale); reading-consistency oracle for the indicators with a recorded documentation-vs-code discrepancy",
            "There is no test of any indicator in the suite; here every indicator runs in lock-step with a from-scratch reference on every enumerated stream, so a swapped high/low, a wrong source, a wrong period wired to the wrong average or a wrong initialisation shows on the first transition that distinguishes them. Where a recorded documentation-vs-code discrepancy exists, a second implementation-reading reference separates it from any other deviation, so a recorded finding does not hide new defects of the same indicator.",
            "Trusted: the references are a reading of prose documentation (lines following the implementation are marked with a dagger in the files); the radius rules of DESIGN §4.2. Formula-undefined steps are exempt and counted."),
    "C06": ("DESIGN.md §6 C06, Appendix A, §12.5",
            "the same explorations as C05 with the second oracle: the documented signal rule evaluated on the values the indicator itself returned (bit-exact replication of the crate's Cross / CrossAbove / CrossUnder / ReversalSignal / Action::from semantics), per-slot counters of buy / sell / silent verdicts over all systems as vacuity guard (every slot of every indicator is expected to buy, to sell and to be silent somewhere); a path on which an indicator follows the documented rule against its recorded implementation reading AND vice versa is a violation",
            "Signal logic is branchless boolean arithmetic where an inverted comparison compiles and passes everything; evaluating the documented rule on the indicator's own values makes the comparison exact (no rounding exemptions needed) on every explored stream.",
            "Trusted: my reading of each '# N signals' doc section; detector semantics from C14. Slots that never fire in a run are listed in the evidence (signal_slots_not_fully_exercised)."),
    "C07": ("DESIGN.md §6 C07",
            "(1) closure BFS of the counter-carrying methods (reversal detectors, index/extremum/median selections, Past) over a 3-symbol alphabet - the product state contains the u8 counters, so the search runs through PeriodType::MAX and closes; (2) macro-step exploration: every script of <= 2 macro-steps 'feed L values of regime r' (L in 254,255,256,65 536 quick; up to 10^7 thorough; regimes volatile/flat/ramp/scale jump x2^20/negative/exactly summable 0-2^44 swing/calm 0-1) carries the REAL instance into a long history with the from-scratch definition compared at EVERY inner step (radius with the true t), then all micro-sequences of depth 1-2 from every state so reached; indicators: long-past instance vs a fresh instance primed with the recent window, in lock-step",
            "A closed product space is a proof for every stream length over the alphabet; macro-steps make histories of 10^5-10^7 steps states of the explored graph instead of something a unit test would have to sample.",
            "Trusted: the definitional references and the linear allowance of DESIGN §4.2. Indicator-level comparison is deliberately coarse (1e-4, values skipped after a scale jump); 10^7-step histories only in the thorough tier and only along the scripted regimes."),
    "C08": ("DESIGN.md §6 C08",
            "exhaustive exploration over every method (small + boundary parameters, 6 construction values of any magnitude/sign/zero/non-dyadic) and every indicator (default, small-period, every MA kind in every slot): (1) constant feed of the construction value for max(3n+5,40) steps, (2) product exploration of an instance fed k in {1,2,3,n-1,n,n+1} extra leading copies and a fresh one over every continuation of depth 3-6",
            "Constancy is judged bitwise for exact kinds and signals and against a radius WITHOUT a factor t (free of drift) for arithmetic outputs; prefix invariance is a relation between two runs checked on every explored continuation.",
            "Trusted: the no-growth radius 16*eps*(n+8)*M. Cumulative/counting subjects (windowless Integral/ADI, ChaikinOscillator with window 0, CollapseTimeframe, Renko volume) are exempt as the property says; ParabolicSAR from its second step."),
    "C09": ("DESIGN.md §6 C09",
            "total enumeration of every API form (over, call, apply, new_over, new_apply, into_fn, new_fn, with_history, with_last_value, mixed) x every chunking (all cut sets incl. empty chunks) x every input sequence up to length 4 (5 thorough) for every method and small parameter set, against a twin driven by next only; depth-bounded product exploration (the subject that lives on is always the CLONE; a twin rebuilt from the input history at every step, never cloned; a clone driven down a different branch) with peek compared after every step, over an integer and a rounding-active mixed-magnitude alphabet; the same for every indicator incl. config/instance over, init_fn, into_fn and the Dyn over",
            "Every way of cutting every short stream into chunks is enumerated, and BFS/DFS branching itself exercises clone independence at every state; outputs are compared bitwise.",
            "Trusted: element-by-element next as the oracle. Sequences of pairs do not implement Sequence, so VWMA/Cross* only have the functional and wrapper forms; methods taking dyn OHLCV only into_fn/with_history/with_last_value."),
    "C10": ("DESIGN.md §6 C10",
            "total enumeration of constructor parameter grids (all 256 values of every PeriodType parameter, all 65 536 pairs for TSI and the three reversal detectors, Conv weight lengths around the limits, Renko sizes over a float list x all sources, 15 MA kinds x 256 lengths, every indicator field over all 256 values / float list / 15 kinds x boundary lengths, coupled fields pairwise over boundary values), followed by exhaustive short streams, 600-step deviation streams and 1400-candle (70 000 thorough) zigzags on a steady trend on every accepted instance; every text parser on garbage incl. a multi-byte character at every byte offset; run in TWO builds of the same tree (release; ubcheck = overflow-checks + debug-assertions) whose findings are merged",
            "Parameter spaces of 256 or 65 536 points are enumerated, not sampled; the ubcheck build turns an arithmetic overflow or a debug assertion - silent in release - into an observable panic of one enumerated case.",
            "Trusted: rustc's overflow checks / debug assertions as the overflow observer; documented minimal lengths taken from the doc comments (subject registry). Streams of valid finite inputs only."),
    "C11": ("DESIGN.md §6 C11",
            "total enumeration of set(name, text) over every public parameter (= key of the serde-JSON form) x every value text of its type (all 256 integers, float list, source names, 15 kinds x lengths, booleans, garbage) and every foreign name, on static and dynamic configs, which must end in the same observable state (validity, results over a probe stream) after one and after two consecutive calls; depth-bounded exploration of every default indicator comparing result shape and static-vs-dyn results on every stream",
            "Generic, no per-indicator code: the parameter list is derived from the config's own serialized form, so a setter wired to the wrong field, a missing setter, a setter that mutates on error, a wrong size() or a diverging Dyn impl is seen for every indicator and every parameter.",
            "Trusted: serde-JSON key set == public parameters (checked by reading the structs); example::Example (private fields, no serde on its instance) gets the shape check only."),
    "C12": ("DESIGN.md §6 C12",
            "exhaustive exploration of every indicator (default, small-period, period-3/4/5 and every MA kind for the monitored ones) over a rounding-active, a dyadic and an ulp-spread (high-low = 1..3 ulps) candle alphabet plus trend symbols, with the regime volatile -> exactly flat for 2*period+2 steps (macro-step) -> volatile built into the action alphabet; documented ranges/orderings/containments and finiteness monitored on every transition; dispersion methods explored the same way",
            "The range escapes the property worries about need a specific history shape (movement with rounding-active values, then an exactly flat stretch); that shape is part of the enumerated action alphabet, so every short movement prefix is followed by the flat regime and every continuation.",
            "Trusted: the monitors are reference-free statements of the documented ranges with a 1e-9 tolerance (rounding is <= 1e-13 at these magnitudes). Formula-undefined steps (zero total volume, zero variance) are exempt and counted."),
    "C13": ("DESIGN.md §6 C13",
            "exploration of every method (small parameter sets, all rotation phases, warm-up, windowless, even/odd lengths) and every indicator (default, small-period and MA-kind configurations): at EVERY explored state the instance is serialized and restored, and original and restored instance are explored together over all continuations of depth 3 with bitwise comparison; the same over a rounding-active mixed-magnitude alphabet and for the boundary parameters (largest legal windows); adversarial SMM/Window forms; config round trips",
            "A snapshot point is a state of the explored graph, so snapshot-at-every-state followed by product exploration covers every (snapshot point, short continuation) pair within the bounds; hand-written Deserialize impls (Window, SMM) are additionally fed malformed forms.",
            "Trusted: serde_json with float_roundtrip as the self-describing format. States holding NaN/inf are exempt (JSON cannot carry them; counted)."),
    "C14": ("DESIGN.md §6 C14",
            "closure BFS of Cross/CrossAbove/CrossUnder (+ swapped series, binary()) over all pairs of 6 values incl. both zeros and the smallest subnormal; closure BFS of the three reversal detectors for (left,right) in {1,2}^2 (+{1,2,3} thorough) over a 3-symbol alphabet, running through the whole range of the position counter; deviation-bounded streams of 600 steps for boundary (quick) / ~12 000 (thorough) (left,right) pairs",
            "The crossing detectors' state is the last difference, the reversal detectors' state a bounded window plus counters, so the product space closes and the verdict holds for streams of every length over the alphabet, including far beyond PeriodType::MAX.",
            "Trusted: the definitional oracles; reversal definition stated for the prescribed use (first input = construction value)."),
    "C15": ("DESIGN.md §6 C15",
            "product exploration of related runs of the real MA instances (x and a*x+b for 10 affine maps incl. the scales 2^-70 and 2^40; x, y and x+y) to depth 5-8 over exact and rounding-active alphabets and deviation-bounded for every length; impulse response of every linear kind for every length 1..=254 against the documented weight profile",
            "Algebraic laws relate different runs of the same code, so they are checked on every explored stream at once: affine equivariance and hull containment on every transition of the product, superposition on every pair of streams, and the impulse response (which determines a linear filter on all inputs) for all lengths.",
            "Trusted: radii from the reference models of C02/C03, the closed-form weight profiles. Conv (4 weight vectors) and VWMA are explored for the affine and superposition laws too."),
    "C17": ("DESIGN.md §6 C17",
            "closure BFS of CollapseTimeframe (periods 1..=5, 5 candles), depth-bounded batch-vs-stream-vs-sliding comparison, deviation-bounded periods up to 300; depth-bounded exploration of Renko over a STATE-DEPENDENT alphabet (price exactly on / one ulp inside / outside the next boundary read from the instance, mid-brick, 1.5/2/3.5-brick jumps, reversals) for 4 brick sizes x 3 sources; the boundaries the instance works with must be one brick beyond the last block in every state (initial block centred on the construction value); HeikinAshi validity over valid candles",
            "Boundary hits are enumerated rather than hoped for: the alphabet is computed from the thresholds the instance currently holds, so the truncation at an exact boundary, multi-brick jumps and reversals are all reached at every depth; the brick sequence, its volume and the iterator protocol are checked on every transition.",
            "Trusted: the aggregation model; the Renko thresholds are read through Serialize (stable API). RenkoOutput's OHLCV close (absolute step) is not judged."),
    "C16": ("DESIGN.md §6 C16",
            "total enumeration: all 513 actions, all 263 169 pairs, all 1.35e8 triples, all i8, all 2^32 f32 bit patterns (thorough; 2^20 + break-point neighbourhoods quick), dense f64 neighbourhoods, against an integer signed-strength model",
            "The domain is finite, so the algebraic laws (conversion totality/sign/monotonicity/saturation, ratio range and round trip, negation involution, saturated subtraction, equality an equivalence, ordering vs equality) are decided on every element, pair and triple; float conversion is decided on every f32 in the thorough tier.",
            "Trusted: the integer model (Option<i32> strength) and exactness of |v|*255 in f64 for f32 inputs. f64 inputs are covered on +-1024 ulp neighbourhoods of all break points, not exhaustively."),
    "C18": ("DESIGN.md §6 C18",
            "total enumeration of the 12^5 candle field grid x 12 previous closes, per-field 12^3 associativity triples plus cross-field triples, and of string families (all case masks, whitespace variants, edit-distance-1 and one-bit-flip neighbourhoods, all kind x length MA texts), Sequence::validate on all short sequences incl. finite values whose sums overflow, against independent formulas and grammars",
            "Every helper is a pure function of at most six floats; the grid holds every class of value the code distinguishes (NaN, infinities, signed zeros, subnormal, ordinary, huge) in every field position, so each identity and the validate predicate are decided on every combination of classes. Text parsing is decided on the complete edit-distance-1 neighbourhood of every accepted form.",
            "Trusted: the independently written formulas/predicate/grammars in c18.rs. Value identities are judged on finite operands with a 4-8 ulp radius; values between grid points are not executed."),
    "C19": ("DESIGN.md §6 C19",
            "the same exhaustively enumerated program set (every input sequence to depth 3-4 for every method over small + boundary parameters incl. both zeros, every indicator in default/small/MA-kind configurations, Window observers, iterator splits and consuming adaptors on the concrete iterator types, empty-window forms, a drop-ledger element type, rounding-active mixed-magnitude sequences, serde) executed in the default build, the unsafe_performance build and the unsafe_performance+debug-assertions build; per-program 128-bit digests compared; std's get_unchecked precondition checks and valgrind memcheck (Window/SMM blocks) as observers attached to the enumerated runs",
            "Every program is run in both builds and compared bit for bit (instance Debug text included, so an in-bounds wrong copy shows up too); an out-of-range unchecked index aborts the ub_checks build, an out-of-allocation raw copy is reported by memcheck; programs on which the default build panics are excluded as the property says.",
            "Trusted: rustc/std ub_checks, valgrind 3.19. Memory monitors see the enumerated programs only; Miri/ASan are not part of the registered commands."),
    "C20": ("DESIGN.md §6 C20",
            "per-program output digests of the same enumerated program set compared across feature builds (default vs period_type_u16 [+u32, u64, u16+unsafe thorough]; f32 vs f32+unsafe, f32+u16 thorough), plus the definitional model-checking runs C01/C02/C04/C14 re-executed INSIDE the u16 build with window lengths 255..1000 (4096 thorough), C05/C06 inside the u16 build with one indicator parameter at a time at 300 / 511 on 1300-step streams, and C02/C03/C04 (C15 thorough) inside the value_type_f32 build at eps = 2^-23",
            "Width and precision are compile-time choices, so they are checked by building them: bit equality where the parameter fits the default type, and the same exhaustive definitional explorations where it does not or where precision differs.",
            "Trusted: output rendering independent of integer width. Programs the default build rejects but a wider build accepts (capacity differences such as WSMA length < MAX/2) are counted and excluded from the bit comparison; their Ok side is covered by the definitional re-runs."),
}

NOT_YET = "check not built yet (work in progress; see DESIGN.md §6 for the plan)"

checks = []
for i in ids:
    if i not in CHECKS:
        continue
    ref, tech, text, note = CHECKS[i]
    checks.append({
        "property_id": i,
        "quick_cmd": f"./bin/check {i} quick",
        "thorough_cmd": f"./bin/check {i} thorough",
        "evidence_file": f"/verif/evidence/{i}.json",
        "replay_cmd_template": "./bin/replay {path}",
        "engine": "mccore",
        "level_claimed": {"category": "model_checking", "text": text, "design_ref": ref},
        "level_note": note,
        "technique": tech,
    })

manifest = {
    "version": 1,
    "setup_cmd": "./bin/setup",
    "hooks": {
        "guard": "--cfg yata_verif (reserved; no hook is needed: state is read through derived Debug/Serialize, overflow and unchecked indexing are made observable by compiler flags)",
        "enable": "none needed; checks build /repo's working tree as a path dependency of /verif/mc/checks (profiles release / ubcheck, yata features forwarded)",
        "baseline_off_cmd": "cd /repo && cargo test --workspace --no-fail-fast --offline",
        "source_commits": [],
        "add_only": True,
    },
    "engines": [
        {"name": "mccore", "path": "/verif/mc/core", "serves_properties": sorted(CHECKS.keys()),
         "kind_free_text": "own explicit-state explorer (layer-parallel BFS with 128-bit key deduplication to closure / depth / deviation bounds, work-stealing parallel DFS for non-repeating real-valued states) over product states (real yata instance x reference model); total enumeration for finite pure-function domains"},
        {"name": "stateright", "path": "/verif/mc/checks/src/srx.rs", "serves_properties": ["C01", "C04", "C07", "C08", "C14", "C15", "C17"],
         "kind_free_text": "stateright 0.31 BFS checker run on the same System (real yata code behind it) for every closure exploration of the thorough tier; the numbers of distinct states must equal the own engine's (cross-check of the engine, not a second oracle)"},
    ],
    "checks": checks,
    "not_applicable": [{"property_id": i, "reason": NOT_YET} for i in ids if i not in CHECKS],
    "notes": "Exit status of every command: 0 held (KNOWN-FINDING lines possible), 1 VIOLATION line printed, 2 machinery error (never a verdict). Known findings: /verif/known_findings.json.",
}
json.dump(manifest, open(os.path.join(ROOT, "MANIFEST.json"), "w"), indent=1)
print("MANIFEST.json:", len(checks), "checks,", len(manifest["not_applicable"]), "not claimed")
