//! Reference constructors for every method subject (shared by C07 and others).
use crate::mvr::*;
use crate::subj::*;
use crate::PeriodType;
use refmodel::methods as rm;
use yata::core::Action;

pub fn n_of(p: &Params) -> usize {
	match p {
		Params::N(n) => *n as usize,
		Params::NN(a, b) => (*a).max(*b) as usize,
		Params::W(w) => w.len(),
		_ => 1,
	}
}
pub fn rc(c: &yata::core::Candle) -> rm::RC {
	rm::RC { o: c.open as f64, h: c.high as f64, l: c.low as f64, c: c.close as f64, v: c.volume as f64 }
}

#[derive(Clone)]
pub struct VidyaRef {
	pub r: rm::Vidya,
	pub n: usize,
	pub recent: Vec<f64>,
	/// running up/down sums maintained the way a sliding add/subtract accumulator does (label only:
	/// tells "flat window with rounding residue in such sums" from "flat window, sums cancel exactly")
	pub up: f64,
	pub dn: f64,
	pub changes: std::collections::VecDeque<f64>,
	pub last: f64,
}
impl VidyaRef {
	pub fn new(n: usize, v0: f64) -> Self {
		Self { r: rm::Vidya::new(n, v0), n, recent: vec![v0; n + 1], up: 0.0, dn: 0.0, changes: std::iter::repeat(0.0).take(n).collect(), last: v0 }
	}
}
impl RefAny for VidyaRef {
	fn next(&mut self, i: &In) -> (Expect, &'static str) {
		let x = i.v() as f64;
		self.recent.push(x);
		if self.recent.len() > self.n + 1 {
			self.recent.remove(0);
		}
		let ch = x - self.last;
		self.last = x;
		let left = self.changes.pop_front().unwrap_or(0.0);
		self.changes.push_back(ch);
		if left > 0.0 {
			self.up -= left;
		}
		if left < 0.0 {
			self.dn += left;
		}
		if ch > 0.0 {
			self.up += ch;
		}
		if ch < 0.0 {
			self.dn -= ch;
		}
		let flat = self.recent.len() == self.n + 1 && self.recent.iter().all(|v| *v == x);
		let q = rm::RefVV::next(&mut self.r, x);
		let class = if !flat {
			"value"
		} else if self.up != 0.0 || self.dn != 0.0 {
			"flat-window/residue-in-running-sums"
		} else {
			"flat-window/sums-cancel-exactly"
		};
		(Expect::Q(q), class)
	}
	fn box_clone(&self) -> Box<dyn RefAny> {
		Box::new(self.clone())
	}
}
#[derive(Clone)]
pub struct TrRef(pub f64);
impl RefAny for TrRef {
	fn next(&mut self, i: &In) -> (Expect, &'static str) {
		let In::C(c) = i else { unreachable!() };
		let q = rc(c).tr(self.0);
		self.0 = c.close as f64;
		(Expect::Q(q.widen(4.0 * refmodel::eps() * q.v.abs())), "value")
	}
	fn box_clone(&self) -> Box<dyn RefAny> {
		Box::new(self.clone())
	}
}
#[derive(Clone)]
pub struct HaRef(pub rm::HeikinAshi);
impl RefAny for HaRef {
	fn next(&mut self, i: &In) -> (Expect, &'static str) {
		let In::C(c) = i else { unreachable!() };
		let (o, h, l, cl) = self.0.step(&rc(c));
		(Expect::Candle([o, h, l, cl], c.volume as f64), "value")
	}
	fn box_clone(&self) -> Box<dyn RefAny> {
		Box::new(self.clone())
	}
}
#[derive(Clone)]
pub struct AdiRef(pub rm::Adi);
impl RefAny for AdiRef {
	fn next(&mut self, i: &In) -> (Expect, &'static str) {
		let In::C(c) = i else { unreachable!() };
		(Expect::Q(self.0.step(&rc(c))), "value")
	}
	fn box_clone(&self) -> Box<dyn RefAny> {
		Box::new(self.clone())
	}
}
#[derive(Clone)]
pub struct VwmaRef(pub rm::Vwma);
impl RefAny for VwmaRef {
	fn next(&mut self, i: &In) -> (Expect, &'static str) {
		let In::P(a, b) = i else { unreachable!() };
		(Expect::Q(self.0.step(*a as f64, *b as f64)), "value")
	}
	fn box_clone(&self) -> Box<dyn RefAny> {
		Box::new(self.clone())
	}
}

#[derive(Clone, Copy, PartialEq)]
pub enum SelKind {
	Highest,
	Lowest,
	Delta,
	HighestIndex,
	LowestIndex,
	Smm,
}
#[derive(Clone)]
pub struct SelRef {
	pub s: rm::Sel,
	pub kind: SelKind,
	pub mixed_zeros: bool,
}
impl RefAny for SelRef {
	fn next(&mut self, i: &In) -> (Expect, &'static str) {
		self.s.push(i.v() as f64);
		let w = self.s.window_oldest_first();
		let pz = w.iter().any(|x| *x == 0.0 && x.is_sign_positive());
		let nz = w.iter().any(|x| *x == 0.0 && x.is_sign_negative());
		if pz && nz {
			self.mixed_zeros = true;
		}
		let class = if self.mixed_zeros { "mixed-zeros-in-history" } else { "plain" };
		let e = match self.kind {
			SelKind::Highest => Expect::Val(self.s.highest()),
			SelKind::Lowest => Expect::Val(self.s.lowest()),
			SelKind::Delta => Expect::Val(self.s.highest() - self.s.lowest()),
			SelKind::HighestIndex => Expect::Exact(Out::I(self.s.highest_index() as u64)),
			SelKind::LowestIndex => Expect::Exact(Out::I(self.s.lowest_index() as u64)),
			SelKind::Smm => Expect::Val(self.s.median()),
		};
		(e, class)
	}
	fn box_clone(&self) -> Box<dyn RefAny> {
		Box::new(self.clone())
	}
	fn key(&self) -> String {
		format!("{:?}{}", self.s.window_oldest_first().iter().map(|x| x.to_bits()).collect::<Vec<_>>(), self.mixed_zeros)
	}
	fn window(&self) -> Option<Vec<f64>> {
		Some(self.s.window_oldest_first())
	}
}

#[derive(Clone, Copy, PartialEq)]
pub enum RK {
	Upper,
	Lower,
	Both,
}
#[derive(Clone)]
pub struct RevRef {
	pub r: rm::Reversal,
	pub k: RK,
	pub t: u64,
}
impl RefAny for RevRef {
	fn next(&mut self, i: &In) -> (Expect, &'static str) {
		self.r.push(i.v() as f64);
		self.t += 1;
		let (u, l) = (self.r.upper(), self.r.lower());
		let a = match self.k {
			RK::Upper => Action::from(u as i8),
			RK::Lower => Action::from(l as i8),
			RK::Both => Action::from(l as i8 - u as i8),
		};
		let win = (self.r.left + self.r.right + 1) as u64;
		let class = if self.t + win > PeriodType::MAX as u64 { "position-counter-at-capacity" } else { "plain" };
		(Expect::Exact(Out::A(a)), class)
	}
	fn box_clone(&self) -> Box<dyn RefAny> {
		Box::new(self.clone())
	}
	fn key(&self) -> String {
		let w = self.r.left + self.r.right + 1;
		let cap = (PeriodType::MAX as u64).saturating_add(2);
		format!("{:?}|{}", self.r.input.last_n(w).iter().map(|q| q.v.to_bits()).collect::<Vec<_>>(), self.t.min(cap))
	}
}

#[derive(Clone)]
pub struct CrossRef {
	pub prev: f64,
	pub kind: u8,
}
impl RefAny for CrossRef {
	fn next(&mut self, i: &In) -> (Expect, &'static str) {
		let In::P(a, b) = i else { unreachable!() };
		let cur = (*a - *b) as f64;
		let up = rm::cross_above(self.prev, cur);
		let dn = rm::cross_under(self.prev, cur);
		self.prev = cur;
		let a = match self.kind {
			0 => Action::from(up as i8 - dn as i8),
			1 => Action::from(up as i8),
			_ => Action::from(dn as i8),
		};
		(Expect::Exact(Out::A(a)), "plain")
	}
	fn box_clone(&self) -> Box<dyn RefAny> {
		Box::new(self.clone())
	}
}

/// the reference of a method subject, if it has a definitional one
pub fn method_ref(name: &str, p: &Params, i: &In) -> Option<Box<dyn RefAny>> {
	let n = n_of(p);
	let v0 = i.v() as f64;
	use rm::WinKind as K;
	let w = |k: K| -> Option<Box<dyn RefAny>> { Some(vv(rm::Win::new(k, n, v0))) };
	let sel = |k: SelKind| -> Option<Box<dyn RefAny>> { Some(Box::new(SelRef { s: rm::Sel::new(n, v0), kind: k, mixed_zeros: false })) };
	let rev = |k: RK| -> Option<Box<dyn RefAny>> {
		let Params::NN(l, r) = p else { return None };
		Some(Box::new(RevRef { r: rm::Reversal::new(*l as usize, *r as usize, v0), k, t: 0 }))
	};
	match name {
		"SMA" => Some(vv(rm::sma(n, v0))),
		"WMA" => Some(vv(rm::wma(n, v0))),
		"SWMA" => Some(vv(rm::swma(n, v0))),
		"TRIMA" => Some(vv(rm::Trima::new(n, v0))),
		"HMA" => Some(vv(rm::Hma::new(n, v0))),
		"LinReg" => Some(vv(rm::lin_reg(n, v0))),
		"Integral" => w(K::Integral),
		"Derivative" => w(K::Derivative),
		"Momentum" => w(K::Momentum),
		"RateOfChange" => w(K::Roc),
		"Past" => w(K::Past),
		"StDev" => Some(Box::new(VVRef { r: Box::new(rm::Win::new(K::Variance, n, v0)), sq: true })),
		"MeanAbsDev" => w(K::MeanAbsDev),
		"MedianAbsDev" => w(K::MedianAbsDev),
		"CCI" => w(K::Cci),
		"LinearVolatility" => w(K::LinVol),
		"Conv" => {
			let Params::W(ws) = p else { return None };
			Some(vv(rm::conv(ws.iter().map(|x| *x as f64).collect(), v0)))
		}
		"VWMA" => {
			let In::P(a, b) = i else { return None };
			Some(Box::new(VwmaRef(rm::Vwma::new(n, *a as f64, *b as f64))))
		}
		"ADI" => {
			let In::C(c) = i else { return None };
			Some(Box::new(AdiRef(rm::Adi::new(n, &rc(c)))))
		}
		"EMA" => Some(vv(rm::Ema::new(n, v0))),
		"RMA" => Some(vv(rm::Ema::rma(n, v0))),
		"WSMA" => Some(vv(rm::Ema::wsma(n, v0))),
		"DMA" => Some(vv(rm::EmaCascade::new(rm::CascadeKind::Dma, n, v0))),
		"TMA" => Some(vv(rm::EmaCascade::new(rm::CascadeKind::Tma, n, v0))),
		"DEMA" => Some(vv(rm::EmaCascade::new(rm::CascadeKind::Dema, n, v0))),
		"TEMA" => Some(vv(rm::EmaCascade::new(rm::CascadeKind::Tema, n, v0))),
		"TSI" => {
			let Params::NN(s, l) = p else { return None };
			Some(vv(rm::Tsi::new(*s as usize, *l as usize, v0)))
		}
		"Vidya" => Some(Box::new(VidyaRef::new(n, v0))),
		"TR" => {
			let In::C(c) = i else { return None };
			Some(Box::new(TrRef(c.close as f64)))
		}
		"HeikinAshi" => {
			let In::C(c) = i else { return None };
			Some(Box::new(HaRef(rm::HeikinAshi::new(&rc(c)))))
		}
		"Highest" => sel(SelKind::Highest),
		"Lowest" => sel(SelKind::Lowest),
		"HighestLowestDelta" => sel(SelKind::Delta),
		"HighestIndex" => sel(SelKind::HighestIndex),
		"LowestIndex" => sel(SelKind::LowestIndex),
		"SMM" => sel(SelKind::Smm),
		"UpperReversalSignal" => rev(RK::Upper),
		"LowerReversalSignal" => rev(RK::Lower),
		"ReversalSignal" => rev(RK::Both),
		"Cross" | "CrossAbove" | "CrossUnder" => {
			let In::P(a, b) = i else { return None };
			Some(Box::new(CrossRef { prev: (*a - *b) as f64, kind: match name { "Cross" => 0, "CrossAbove" => 1, _ => 2 } }))
		}
		"MAInstance" => {
			let Params::Ma(m) = p else { return None };
			use yata::core::MovingAverageConstructor;
			// ma_type numbering of the crate: 0 sma 1 wma 2 hma 3 rma 4 ema 5 dma 6 tma 7 dema 8 tema 9 wsma 10 smm 11 swma 12 trima 13 linreg 14 vidya
			let kind = ["sma", "wma", "hma", "rma", "ema", "dma", "tma", "dema", "tema", "wsma", "smm", "swma", "trima", "linreg", "vidya"][m.ma_type() as usize];
			if kind == "vidya" {
				return Some(Box::new(VidyaRef::new(m.ma_period() as usize, v0)));
			}
			Some(vv_box(rm::ma_q(kind, m.ma_period() as usize, refmodel::Q::exact(v0))))
		}
		_ => None,
	}
}

pub fn vv_box(r: Box<dyn rm::RefVV>) -> Box<dyn RefAny> {
	Box::new(VVRef { r, sq: false })
}
