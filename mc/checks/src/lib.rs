//! Shared harness for the per-property check binaries.

pub use mccore::evidence::Run;
pub use mccore::{catch, explore, explore_dfs, hash128, hash128_str, replay_path, Failure, Limits, PanicInfo, Report, Step, System, Violation};
pub use yata::core::{PeriodType, ValueType};

use std::path::PathBuf;

pub mod alpha;
pub mod subj;
pub mod mvr;
pub mod refs;
pub mod ind;
pub mod grid;
pub mod api;
pub mod xbuild;
pub mod indcheck;
pub mod mrefs;
pub mod tokfmt;
pub mod buffered;
#[cfg(feature = "xcheck")]
pub mod srx;

pub struct ReplayReq {
	pub system: String,
	pub init: String,
	pub path: Vec<String>,
	pub sig: String,
}

/// Harness: in check mode explores every system handed to it; in replay mode only
/// re-executes the recorded path on the system whose name matches.
pub struct H {
	pub run: Run,
	replay: Option<ReplayReq>,
	replay_result: Option<Result<Option<Failure>, String>>,
	/// stateright cross-checks done in this run (feature `xcheck`, env VERIF_XCHECK)
	pub xchecks: Vec<serde_json::Value>,
}

pub enum Mode {
	Check(String),
	Replay(PathBuf, String),
}

pub fn parse_args() -> Mode {
	let a: Vec<String> = std::env::args().collect();
	match a.get(1).map(String::as_str) {
		Some("quick") => Mode::Check("quick".into()),
		Some("thorough") => Mode::Check("thorough".into()),
		Some("replay") => Mode::Replay(
			PathBuf::from(a.get(2).expect("replay <file>")),
			a.get(3).cloned().unwrap_or_else(|| "quick".into()),
		),
		_ => {
			eprintln!("usage: {} quick|thorough|replay <file> [tier]", a[0]);
			std::process::exit(2);
		}
	}
}

impl H {
	pub fn start(property: &str) -> Self {
		// deep DFS recursion (long deviation streams): generous stacks for the workers
		let _ = rayon::ThreadPoolBuilder::new().stack_size(1 << 30).build_global();
		match parse_args() {
			Mode::Check(tier) => Self {
				run: Run::new(property, &tier),
				replay: None,
				replay_result: None,
				xchecks: vec![],
			},
			Mode::Replay(p, tier) => {
				let t = std::fs::read_to_string(&p).unwrap_or_else(|e| {
					eprintln!("{}: {e}", p.display());
					std::process::exit(2)
				});
				let v: serde_json::Value = serde_json::from_str(&t).unwrap_or_else(|e| {
					eprintln!("{}: {e}", p.display());
					std::process::exit(2)
				});
				let path = v["path"].as_array().map(|a| a.iter().map(|x| x.as_str().unwrap_or("").to_string()).collect()).unwrap_or_default();
				Self {
					run: Run::new(property, &tier),
					replay: Some(ReplayReq {
						system: v["system"].as_str().unwrap_or("").to_string(),
						init: v["init"].as_str().unwrap_or("").to_string(),
						path,
						sig: v["failure"]["sig"].as_str().unwrap_or("").to_string(),
					}),
					replay_result: None,
					xchecks: vec![],
				}
			}
		}
	}

	pub fn thorough(&self) -> bool {
		self.run.thorough()
	}

	pub fn is_replay(&self) -> bool {
		self.replay.is_some()
	}

	/// explore (check mode) or replay (replay mode, matching system only)
	pub fn go<S: System>(&mut self, sys: &S, lim: &Limits, dfs: bool) -> Option<Report> {
		if let Some(rq) = &self.replay {
			if rq.system == sys.name() && self.replay_result.is_none() {
				println!("replaying on system {} from init {}", rq.system, rq.init);
				for (i, p) in rq.path.iter().enumerate() {
					println!("  step {i}: {p}");
				}
				self.replay_result = Some(replay_path(sys, &rq.init, &rq.path));
			}
			return None;
		}
		let rep = self.run.explore(sys, lim, dfs);
		#[cfg(feature = "xcheck")]
		if std::env::var("VERIF_XCHECK").is_ok() && lim.max_depth == u32::MAX && lim.max_dev == u32::MAX && rep.cap_hit.is_none() && rep.states <= 600_000 {
			let t0 = std::time::Instant::now();
			let x = srx::explore_with_stateright(sys);
			let verdict = if x.keyless { "skipped: system has states without a canonical key" } else if x.unique_states == rep.states { "equal" } else { "DIFFERENT" };
			eprintln!("  stateright cross-check {:<40} own engine {} states, stateright {} unique states ({} transitions, {:.1}s): {verdict}", rep.system, rep.states, x.unique_states, x.transitions, t0.elapsed().as_secs_f64());
			self.xchecks.push(serde_json::json!({"system": rep.system, "own_states": rep.states, "own_transitions": rep.transitions, "stateright_unique_states": x.unique_states, "stateright_transitions": x.transitions, "verdict": verdict}));
			if !x.keyless && x.unique_states != rep.states {
				self.run.machinery_error(format!("stateright cross-check: {} has {} states in the own engine but {} in stateright", rep.system, rep.states, x.unique_states));
			}
		}
		if std::env::var("VERIF_VERBOSE").is_ok() {
			eprintln!("  {:<50} {:>10} states {:>10} trans {:>6} vio {:>7.2}s {}", rep.system, rep.states, rep.transitions, rep.violations_total, rep.wall_s, rep.cap_hit.clone().unwrap_or_default());
		}
		Some(rep)
	}

	/// total-enumeration block; `f` re-checks one case given its textual form (replay)
	pub fn enum_replay(&mut self, system: &str, f: impl Fn(&str) -> Option<Failure>) {
		if let Some(rq) = &self.replay {
			if rq.system == system && self.replay_result.is_none() {
				let case = rq.path.last().cloned().unwrap_or_default();
				println!("replaying enumeration case {case:?} of {system}");
				self.replay_result = Some(Ok(f(&case)));
			}
		}
	}

	pub fn finish(self) -> ! {
		if let Some(rq) = self.replay {
			match self.replay_result {
				None => {
					eprintln!("MACHINERY-ERROR: system {:?} not found in this check", rq.system);
					std::process::exit(2);
				}
				Some(Err(e)) => {
					eprintln!("MACHINERY-ERROR: {e}");
					std::process::exit(2);
				}
				Some(Ok(None)) => {
					println!("replay: the recorded path no longer fails");
					std::process::exit(0);
				}
				Some(Ok(Some(f))) => {
					println!("replay: still failing: {} :: {}", f.sig, f.detail);
					if f.sig != rq.sig {
						println!("(signature differs from the recorded one: {})", rq.sig);
					}
					std::process::exit(1);
				}
			}
		}
		let mut me = self;
		if !me.xchecks.is_empty() {
			let x = std::mem::take(&mut me.xchecks);
			me.run.note("stateright_crosscheck", serde_json::json!(x));
		}
		me.run.finish()
	}
}

/// Debug text of a value as a state key
pub fn dbg_key<T: std::fmt::Debug>(t: &T) -> String {
	format!("{t:?}")
}

pub const IS_F32: bool = cfg!(feature = "value_type_f32");
pub const PERIOD_BITS: u32 = PeriodType::BITS;

/// machine epsilon of yata's ValueType
pub fn eps() -> f64 {
	ValueType::EPSILON as f64
}

/// Thread-safe collector for total-enumeration blocks: keeps the least few cases per signature.
pub struct VioSink {
	system: String,
	inner: std::sync::Mutex<std::collections::BTreeMap<String, (u64, Vec<(String, String)>)>>,
}

impl VioSink {
	pub fn new(system: &str) -> Self {
		Self { system: system.to_string(), inner: Default::default() }
	}
	pub fn push(&self, sig: &str, case: String, detail: String) {
		let mut g = self.inner.lock().unwrap();
		let e = g.entry(sig.to_string()).or_insert((0, Vec::new()));
		e.0 += 1;
		if e.1.len() < 3 {
			e.1.push((case, detail));
		}
	}
	pub fn total(&self) -> u64 {
		self.inner.lock().unwrap().values().map(|v| v.0).sum()
	}
	pub fn into_violations(self) -> Vec<Violation> {
		let g = self.inner.into_inner().unwrap();
		let mut out = vec![];
		for (sig, (n, cases)) in g {
			for (case, detail) in cases {
				out.push(Violation {
					system: self.system.clone(),
					init: "-".into(),
					path: vec![case],
					failure: Failure::new(sig.clone(), format!("{detail} [{n} cases with this signature]")),
					deviations: 0,
				});
			}
		}
		out
	}
}
