//! Indicator registry: one dynamic interface over every indicator of yata, keeping
//! access to serde (config and instance), Debug (state key) and the crate's own
//! dynamically dispatched traits.

use serde::{de::DeserializeOwned, Serialize};
use std::fmt::Debug;
use yata::core::{Candle, Error, IndicatorConfig, IndicatorConfigDyn, IndicatorInstance, IndicatorInstanceDyn, IndicatorResult};
use yata::indicators::*;

pub trait IndInst: Send + Sync {
	fn next(&mut self, c: &Candle) -> IndicatorResult;
	fn boxed_clone(&self) -> Box<dyn IndInst>;
	fn debug_key(&self) -> String;
	fn to_json(&self) -> Result<String, String>;
	fn from_json(&self, s: &str) -> Result<Box<dyn IndInst>, String>;
	fn size(&self) -> (u8, u8);
	fn name(&self) -> &'static str;
	fn over(&mut self, cs: &[Candle]) -> Vec<IndicatorResult>;
	/// the crate's dynamically dispatched instance built from a clone of this one
	fn as_dyn(&self) -> Box<dyn IndicatorInstanceDyn<Candle>>;
	fn into_fn_calls(&self, cs: &[Candle]) -> Vec<IndicatorResult>;
	fn config_json(&self) -> Result<String, String>;
	/// the same candles carried by a user-defined OHLCV type that overrides provided methods (tp, hl2, ...):
	/// (results of `over` on a clone, results of `next` one by one on another clone, results of `into_fn`)
	fn custom_type_runs(&self, cs: &[Candle]) -> (Vec<IndicatorResult>, Vec<IndicatorResult>);
	/// snapshot + restore through the lossless token format (positional = bincode-like, else named)
	fn via_tokens(&self, positional: bool) -> Result<Box<dyn IndInst>, String>;
	fn as_any(&self) -> Option<&dyn std::any::Any> {
		None
	}
	/// `Clone::clone_from` of the wrapped instance; false when `src` wraps another type
	fn clone_from_inst(&mut self, _src: &dyn IndInst) -> bool {
		false
	}
}

/// A candle type of a user: the same five fields, but its own idea of the derived prices
#[derive(Clone, Copy, Debug)]
pub struct OddCandle(pub Candle);
impl yata::core::OHLCV for OddCandle {
	fn open(&self) -> yata::core::ValueType {
		self.0.open
	}
	fn high(&self) -> yata::core::ValueType {
		self.0.high
	}
	fn low(&self) -> yata::core::ValueType {
		self.0.low
	}
	fn close(&self) -> yata::core::ValueType {
		self.0.close
	}
	fn volume(&self) -> yata::core::ValueType {
		self.0.volume
	}
	fn tp(&self) -> yata::core::ValueType {
		self.0.close * 2.0
	}
	fn hl2(&self) -> yata::core::ValueType {
		self.0.open
	}
	fn clv(&self) -> yata::core::ValueType {
		0.25
	}
}
impl Clone for Box<dyn IndInst> {
	fn clone(&self) -> Self {
		self.boxed_clone()
	}
}

pub trait IndCfg: Send + Sync {
	fn name(&self) -> &'static str;
	fn const_name(&self) -> &'static str;
	fn validate(&self) -> bool;
	fn set(&mut self, k: &str, v: String) -> Result<(), Error>;
	fn size(&self) -> (u8, u8);
	fn to_json(&self) -> Result<String, String>;
	fn from_json(&self, s: &str) -> Result<Box<dyn IndCfg>, String>;
	fn init(&self, c: &Candle) -> Result<Box<dyn IndInst>, Error>;
	fn boxed_clone(&self) -> Box<dyn IndCfg>;
	fn as_dyn(&self) -> Box<dyn IndicatorConfigDyn<Candle>>;
	fn over(&self, cs: &[Candle]) -> Result<Vec<IndicatorResult>, Error>;
	fn init_fn_calls(&self, cs: &[Candle]) -> Result<Vec<IndicatorResult>, Error>;
	fn debug_key(&self) -> String;
}
impl Clone for Box<dyn IndCfg> {
	fn clone(&self) -> Self {
		self.boxed_clone()
	}
}

struct CW<C>(C);
struct IW<I>(I);

impl<I> IndInst for IW<I>
where
	I: IndicatorInstance + Clone + Debug + Serialize + DeserializeOwned + Send + Sync + 'static,
	I::Config: Serialize,
{
	fn next(&mut self, c: &Candle) -> IndicatorResult {
		IndicatorInstance::next(&mut self.0, c)
	}
	fn boxed_clone(&self) -> Box<dyn IndInst> {
		Box::new(IW(self.0.clone()))
	}
	fn debug_key(&self) -> String {
		format!("{:?}", self.0)
	}
	fn to_json(&self) -> Result<String, String> {
		serde_json::to_string(&self.0).map_err(|e| e.to_string())
	}
	fn from_json(&self, s: &str) -> Result<Box<dyn IndInst>, String> {
		let i: I = serde_json::from_str(s).map_err(|e| e.to_string())?;
		Ok(Box::new(IW(i)))
	}
	fn size(&self) -> (u8, u8) {
		IndicatorInstance::size(&self.0)
	}
	fn name(&self) -> &'static str {
		IndicatorInstance::name(&self.0)
	}
	fn over(&mut self, cs: &[Candle]) -> Vec<IndicatorResult> {
		IndicatorInstance::over(&mut self.0, cs)
	}
	fn as_dyn(&self) -> Box<dyn IndicatorInstanceDyn<Candle>> {
		Box::new(self.0.clone())
	}
	fn into_fn_calls(&self, cs: &[Candle]) -> Vec<IndicatorResult> {
		let mut f = IndicatorInstance::into_fn::<Candle>(self.0.clone());
		// the boxed closure borrows its inputs for 'a; leak-free: collect inside the borrow
		let cs: &'static [Candle] = Box::leak(cs.to_vec().into_boxed_slice());
		cs.iter().map(|c| f(c)).collect()
	}
	fn config_json(&self) -> Result<String, String> {
		serde_json::to_string(self.0.config()).map_err(|e| e.to_string())
	}
	fn as_any(&self) -> Option<&dyn std::any::Any> {
		Some(self)
	}
	fn clone_from_inst(&mut self, src: &dyn IndInst) -> bool {
		match src.as_any().and_then(|a| a.downcast_ref::<Self>()) {
			Some(s) => {
				self.0.clone_from(&s.0);
				true
			}
			None => false,
		}
	}
	fn via_tokens(&self, positional: bool) -> Result<Box<dyn IndInst>, String> {
		use crate::tokfmt::{restore, snapshot, Flavour};
		let fl = if positional { Flavour::Positional } else { Flavour::Named };
		let toks = snapshot(&self.0, fl);
		let i: I = restore(&toks, fl).map_err(|e| format!("{e} (snapshot of {} tokens)", toks.len()))?;
		Ok(Box::new(IW(i)))
	}
	fn custom_type_runs(&self, cs: &[Candle]) -> (Vec<IndicatorResult>, Vec<IndicatorResult>) {
		let odd: Vec<OddCandle> = cs.iter().map(|c| OddCandle(*c)).collect();
		let mut a = self.0.clone();
		let via_over = IndicatorInstance::over(&mut a, &odd);
		let mut b = self.0.clone();
		let via_next = odd.iter().map(|c| IndicatorInstance::next(&mut b, c)).collect();
		(via_over, via_next)
	}
}

impl<C> IndCfg for CW<C>
where
	C: IndicatorConfig + Clone + Debug + Serialize + DeserializeOwned + Send + Sync + 'static,
	C::Instance: Clone + Debug + Serialize + DeserializeOwned + Send + Sync + 'static,
{
	fn name(&self) -> &'static str {
		IndicatorConfig::name(&self.0)
	}
	fn const_name(&self) -> &'static str {
		C::NAME
	}
	fn validate(&self) -> bool {
		IndicatorConfig::validate(&self.0)
	}
	fn set(&mut self, k: &str, v: String) -> Result<(), Error> {
		IndicatorConfig::set(&mut self.0, k, v)
	}
	fn size(&self) -> (u8, u8) {
		IndicatorConfig::size(&self.0)
	}
	fn to_json(&self) -> Result<String, String> {
		serde_json::to_string(&self.0).map_err(|e| e.to_string())
	}
	fn from_json(&self, s: &str) -> Result<Box<dyn IndCfg>, String> {
		let c: C = serde_json::from_str(s).map_err(|e| e.to_string())?;
		Ok(Box::new(CW(c)))
	}
	fn init(&self, c: &Candle) -> Result<Box<dyn IndInst>, Error> {
		let i = IndicatorConfig::init(self.0.clone(), c)?;
		Ok(Box::new(IW(i)))
	}
	fn boxed_clone(&self) -> Box<dyn IndCfg> {
		Box::new(CW(self.0.clone()))
	}
	fn as_dyn(&self) -> Box<dyn IndicatorConfigDyn<Candle>> {
		Box::new(self.0.clone())
	}
	fn over(&self, cs: &[Candle]) -> Result<Vec<IndicatorResult>, Error> {
		IndicatorConfig::over(self.0.clone(), cs)
	}
	fn init_fn_calls(&self, cs: &[Candle]) -> Result<Vec<IndicatorResult>, Error> {
		if cs.is_empty() {
			return Ok(vec![]);
		}
		let cs: &'static [Candle] = Box::leak(cs.to_vec().into_boxed_slice());
		let mut f = IndicatorConfig::init_fn(self.0.clone(), &cs[0])?;
		Ok(cs.iter().map(|c| f(c)).collect())
	}
	fn debug_key(&self) -> String {
		format!("{:?}", self.0)
	}
}

pub fn cfg<C>(c: C) -> Box<dyn IndCfg>
where
	C: IndicatorConfig + Clone + Debug + Serialize + DeserializeOwned + Send + Sync + 'static,
	C::Instance: Clone + Debug + Serialize + DeserializeOwned + Send + Sync + 'static,
{
	Box::new(CW(c))
}

/// every indicator with its default configuration
pub fn defaults() -> Vec<Box<dyn IndCfg>> {
	vec![
		cfg(Aroon::default()),
		cfg(AverageDirectionalIndex::default()),
		cfg(AwesomeOscillator::default()),
		cfg(BollingerBands::default()),
		cfg(ChaikinMoneyFlow::default()),
		cfg(ChaikinOscillator::default()),
		cfg(ChandeKrollStop::default()),
		cfg(ChandeMomentumOscillator::default()),
		cfg(CommodityChannelIndex::default()),
		cfg(CoppockCurve::default()),
		cfg(DetrendedPriceOscillator::default()),
		cfg(DonchianChannel::default()),
		cfg(EaseOfMovement::default()),
		cfg(EldersForceIndex::default()),
		cfg(Envelopes::default()),
		cfg(FisherTransform::default()),
		cfg(HullMovingAverage::default()),
		cfg(IchimokuCloud::default()),
		cfg(Kaufman::default()),
		cfg(KeltnerChannel::default()),
		cfg(KlingerVolumeOscillator::default()),
		cfg(KnowSureThing::default()),
		cfg(MACD::default()),
		cfg(MomentumIndex::default()),
		cfg(MoneyFlowIndex::default()),
		cfg(ParabolicSAR::default()),
		cfg(PivotReversalStrategy::default()),
		cfg(PriceChannelStrategy::default()),
		cfg(RelativeStrengthIndex::default()),
		cfg(RelativeVigorIndex::default()),
		cfg(SMIErgodicIndicator::default()),
		cfg(StochasticOscillator::default()),
		cfg(Trix::default()),
		cfg(TrendStrengthIndex::default()),
		cfg(TrueStrengthIndex::default()),
		cfg(WoodiesCCI::default()),
	]
}

pub fn default_of(name: &str) -> Box<dyn IndCfg> {
	defaults().into_iter().find(|c| c.const_name() == name).unwrap_or_else(|| panic!("no indicator {name}"))
}

/// the registry against the source tree: every `pub use x::{Config, ..}` of indicators/mod.rs must be registered
pub fn registry_complete() -> Result<(), String> {
	let root = std::env::var("YATA_SRC").unwrap_or_else(|_| "/repo".into());
	let modrs = std::fs::read_to_string(format!("{root}/src/indicators/mod.rs")).map_err(|e| e.to_string())?;
	let mut files = vec![];
	for l in modrs.lines() {
		let l = l.trim();
		if let Some(r) = l.strip_prefix("mod ") {
			files.push(r.trim_end_matches(';').to_string());
		}
	}
	let names: Vec<&'static str> = defaults().iter().map(|c| c.const_name()).collect();
	let mut in_tree = vec![];
	for f in &files {
		let t = std::fs::read_to_string(format!("{root}/src/indicators/{f}.rs")).map_err(|e| format!("{f}: {e}"))?;
		for l in t.lines() {
			if let Some(r) = l.trim().strip_prefix("const NAME: &'static str = \"") {
				in_tree.push(r.trim_end_matches("\";").to_string());
			}
		}
	}
	for n in &in_tree {
		if !names.iter().any(|x| x == n) {
			return Err(format!("indicator {n} exists in the tree but not in the registry"));
		}
	}
	if in_tree.len() != names.len() {
		return Err(format!("registry has {} indicators, the tree {} (example::Example is handled separately: its instance has no serde)", names.len(), in_tree.len()));
	}
	Ok(())
}

/// JSON object of a config as a sorted key -> value map
pub fn json_map(j: &str) -> std::collections::BTreeMap<String, serde_json::Value> {
	match serde_json::from_str::<serde_json::Value>(j) {
		Ok(serde_json::Value::Object(m)) => m.into_iter().collect(),
		_ => Default::default(),
	}
}


/// Documented lower bounds of the integer parameters (and MA periods), parsed from the doc comments of
/// the configuration structs in the tree under test: `Range in [2; ...)` -> 2, `(period1; ...)` is not a
/// literal and is skipped. Key: (indicator NAME, field name).
pub fn documented_minimums() -> std::collections::HashMap<(String, String), u64> {
	let root = std::env::var("YATA_SRC").unwrap_or_else(|_| "/repo".into());
	let mut out = std::collections::HashMap::new();
	let Ok(dir) = std::fs::read_dir(format!("{root}/src/indicators")) else { return out };
	for e in dir.flatten() {
		let Ok(t) = std::fs::read_to_string(e.path()) else { continue };
		let Some(name) = t.lines().find_map(|l| l.trim().strip_prefix("const NAME: &'static str = \"").map(|r| r.trim_end_matches("\";").to_string())) else { continue };
		let mut docs = String::new();
		let mut in_struct = false;
		for l in t.lines() {
			let tl = l.trim();
			if tl.starts_with("pub struct ") && tl.ends_with('{') && !in_struct && !tl.contains("Instance") {
				in_struct = true;
				docs.clear();
				continue;
			}
			if !in_struct {
				continue;
			}
			if tl == "}" {
				break;
			}
			if let Some(d) = tl.strip_prefix("///") {
				docs.push_str(d);
				docs.push('\n');
				continue;
			}
			if let Some(rest) = tl.strip_prefix("pub ") {
				if let Some((field, _)) = rest.split_once(':') {
					if let Some(pos) = docs.find("ange in") {
						let tail: String = docs[pos + 7..].chars().filter(|c| !matches!(c, '\\' | '*' | '`' | ' ')).collect();
						let mut it = tail.chars();
						if let Some(br) = it.next() {
							let num: String = it.take_while(|c| *c != ';').collect();
							if (br == '[' || br == '(') && !num.is_empty() && num.chars().all(|c| c.is_ascii_digit()) {
								let n: u64 = num.parse().unwrap_or(0);
								out.insert((name.clone(), field.trim().to_string()), if br == '(' { n + 1 } else { n });
							}
						}
					}
				}
				docs.clear();
			} else if !tl.starts_with("#[") {
				docs.clear();
			}
		}
	}
	out
}
