//! Parameter sets and alphabets per subject kind (DESIGN.md §5.2).
use crate::alpha;
use crate::subj::*;
use crate::{PeriodType, ValueType};
use yata::core::Source;

/// small valid parameter sets, explored exhaustively
pub fn small_params(s: &Spec) -> Vec<Params> {
	match s.par {
		ParKind::Unit => vec![Params::Unit],
		ParKind::N => {
			let mut v: Vec<Params> = (s.min_len.max(1)..=5).map(|n| Params::N(n as PeriodType)).collect();
			if s.min_len == 0 {
				v.insert(0, Params::N(0));
			}
			v
		}
		ParKind::NN => {
			let mut v = vec![];
			for a in 1..=3 {
				for b in 1..=3 {
					v.push(Params::NN(a, b));
				}
			}
			v
		}
		ParKind::Weights => vec![Params::W(vec![1.0]), Params::W(vec![1.0, 2.0]), Params::W(vec![0.5, 1.0, 2.0]), Params::W(vec![1.0, -1.0, 2.0, 1.0]), Params::W(vec![0.3, 1.1, 0.7])],
		ParKind::Usize => vec![Params::U(1), Params::U(2), Params::U(3)],
		ParKind::Renko => vec![Params::Renko(0.01, Source::Close), Params::Renko(0.1, Source::TP)],
		ParKind::Ma => {
			let mut v = vec![];
			for k in MA_KINDS {
				for n in [2 as PeriodType, 3, 5] {
					v.push(Params::Ma(ma_of(k, n)));
				}
			}
			v
		}
	}
}

/// boundary parameter sets (valid ones survive the constructor)
pub fn edge_params(s: &Spec) -> Vec<Params> {
	// the boundary of the DEFAULT period type, whatever the build (programs must be comparable across builds)
	let m: PeriodType = 255;
	let e: Vec<PeriodType> = vec![1, 2, 127, 128, m - 2, m - 1];
	match s.par {
		ParKind::N => e.iter().map(|n| Params::N(*n)).collect(),
		ParKind::NN => vec![Params::NN(1, m - 3), Params::NN(m - 3, 1), Params::NN(127, 126), Params::NN(2, 2), Params::NN(m - 1, m - 1), Params::NN(1, m - 1)],
		ParKind::Ma => MA_KINDS.iter().flat_map(|k| [127 as PeriodType, m - 1].into_iter().map(move |n| Params::Ma(ma_of(k, n)))).collect(),
		ParKind::Usize => vec![Params::U(255), Params::U(256), Params::U(1000)],
		ParKind::Weights => vec![Params::W(vec![1.0; 254]), Params::W((1..=128).map(|i| i as ValueType).collect())],
		_ => vec![],
	}
}

pub fn inputs(k: InKind) -> Vec<In> {
	match k {
		InKind::Value => vec![In::V(1.0), In::V(0.0), In::V(-3.0), In::V(1.7)],
		InKind::Pair => vec![In::P(1.0, 1.0), In::P(-3.0, 4.0), In::P(1.7, 0.0), In::P(0.0, 1.0)],
		InKind::Candle => alpha::k_candles().into_iter().map(In::C).collect(),
	}
}

/// construction values: any magnitude and sign, zero, non-dyadic
pub fn v0s(k: InKind) -> Vec<In> {
	match k {
		InKind::Value => vec![In::V(1.0), In::V(0.0), In::V(-3.0), In::V(alpha::big() as ValueType), In::V(alpha::tiny() as ValueType), In::V(123.456)],
		InKind::Pair => vec![In::P(1.0, 1.0), In::P(-3.0, 4.0), In::P(123.456, 0.7), In::P(0.0, 1.0)],
		InKind::Candle => {
			let mut v: Vec<In> = alpha::k_candles().into_iter().map(In::C).collect();
			v.push(In::C(alpha::candle(alpha::big(), alpha::big() * 2.0, alpha::big() * 0.5, alpha::big(), 3.0)));
			v.push(In::C(alpha::candle(alpha::tiny(), alpha::tiny() * 2.0, alpha::tiny() * 0.5, alpha::tiny(), alpha::big())));
			// high and low one unit in the last place apart (a relative "is it flat?" test would call it flat)
			let one = 1.0 as ValueType;
			let below = ValueType::from_bits(one.to_bits() - 1);
			v.push(In::C(yata::core::Candle { open: one, high: one, low: below, close: one, volume: 3.0 }));
			v.push(In::C(yata::core::Candle { open: below, high: one, low: below, close: below, volume: 5.0 }));
			v
		}
	}
}

pub fn span(p: &Params) -> usize {
	match p {
		Params::Unit => 1,
		Params::N(n) => *n as usize,
		Params::NN(a, b) => *a as usize + *b as usize + 1,
		Params::W(w) => w.len(),
		Params::U(u) => *u,
		Params::Renko(..) => 1,
		Params::Ma(m) => {
			use yata::core::MovingAverageConstructor;
			m.ma_period() as usize
		}
	}
}

/// rounding-active values of mixed magnitudes: any re-ordering of a summation shows in the last bit
pub fn scaled(c: &yata::core::Candle, k: f64) -> yata::core::Candle {
	let k = k as ValueType;
	yata::core::Candle { open: c.open * k, high: c.high * k, low: c.low * k, close: c.close * k, volume: c.volume * k }
}
pub fn mixed_candles() -> Vec<yata::core::Candle> {
	let k = alpha::k_candles();
	vec![scaled(&k[5], 0.001), k[5], scaled(&k[2], 3.73)]
}
pub fn mixed(k: InKind) -> Vec<In> {
	match k {
		InKind::Value => vec![In::V(0.001), In::V(1.7), In::V(37.3), In::V(0.33)],
		InKind::Pair => vec![In::P(0.001, 1.7), In::P(37.3, 0.3), In::P(1.7, 11.1), In::P(0.33, 0.7)],
		InKind::Candle => mixed_candles().into_iter().map(In::C).collect(),
	}
}

