//! `Buffered::get` of the window-backed methods (SMA, Past, TRIMA) and of the `WithHistory` wrapper:
//! the i-th newest value for every index that was produced, `None` beyond.

use crate::*;
use yata::core::{Action, Method, PeriodType, ValueType};
use yata::helpers::{Buffered, WithHistory};
use yata::methods::{Cross, Past, SMA, TRIMA};

type V = ValueType;

#[derive(Clone)]
enum Inst {
	Sma(SMA),
	Past(Past<V>),
	/// TRIMA and an SMA of the same length: TRIMA keeps the outputs of its first stage
	Trima(TRIMA, SMA),
}
#[derive(Clone)]
pub struct BSt {
	inst: Inst,
	n: usize,
	/// what `get` reads, newest last (the construction value stands for everything before the stream)
	kept: Vec<V>,
	t: u32,
}
pub struct BufSys {
	pub ns: Vec<usize>,
}
fn value(t: u32) -> V {
	// distinct, exactly representable (also in f32), of both signs
	(t as V) * 0.25 - 3.0
}
const FAR: [usize; 9] = [254, 255, 256, 257, 65_534, 65_535, 65_536, 65_537, usize::MAX];
impl System for BufSys {
	type State = BSt;
	type Act = ();
	fn name(&self) -> String {
		"Buffered::get/window-backed-methods".into()
	}
	fn inits(&self) -> Vec<(BSt, String)> {
		let mut v = vec![];
		let v0: V = -7.5;
		for &n in &self.ns {
			let p = n as PeriodType;
			if let Ok(Ok(m)) = catch(|| SMA::new(p, &v0)) {
				v.push((BSt { inst: Inst::Sma(m), n, kept: vec![v0; n], t: 0 }, format!("SMA({n}) v0={v0:?}")));
			}
			if let Ok(Ok(m)) = catch(|| Past::<V>::new(p, &v0)) {
				v.push((BSt { inst: Inst::Past(m), n, kept: vec![v0; n], t: 0 }, format!("Past({n}) v0={v0:?}")));
			}
			if let (Ok(Ok(m)), Ok(Ok(s))) = (catch(|| TRIMA::new(p, &v0)), catch(|| SMA::new(p, &v0))) {
				v.push((BSt { inst: Inst::Trima(m, s), n, kept: vec![v0; n], t: 0 }, format!("TRIMA({n}) v0={v0:?}")));
			}
		}
		v
	}
	fn actions(&self, s: &BSt, _: u32) -> Vec<((), u8)> {
		if (s.t as usize) < 2 * s.n + 3 { vec![((), 0)] } else { vec![] }
	}
	fn show_act(&self, _: &()) -> String {
		"next(t/4 - 3)".into()
	}
	fn step(&self, s: &BSt, _: &()) -> Step<BSt> {
		let mut n = s.clone();
		let x = value(n.t);
		n.t += 1;
		let (kind, pushed) = match &mut n.inst {
			Inst::Sma(m) => {
				m.next(&x);
				("SMA", x)
			}
			Inst::Past(m) => {
				m.next(&x);
				("Past", x)
			}
			Inst::Trima(m, s1) => {
				m.next(&x);
				("TRIMA", s1.next(&x))
			}
		};
		n.kept.push(pushed);
		let len = n.kept.len();
		let get = |i: usize| -> Result<Option<V>, PanicInfo> {
			catch(|| match &n.inst {
				Inst::Sma(m) => Buffered::get(m, i),
				Inst::Past(m) => Buffered::get(m, i),
				Inst::Trima(m, _) => Buffered::get(m, i),
			})
		};
		for i in (0..n.n + 2).chain(FAR) {
			let want = if i < n.n { Some(n.kept[len - 1 - i]) } else { None };
			match get(i) {
				Ok(g) => {
					if g.map(|v| v.to_bits()) != want.map(|v| v.to_bits()) {
						let class = if i < n.n { "within-the-window" } else { "beyond-the-window" };
						return Step::Violation(Failure::new(format!("{kind}/Buffered::get/{class}"), format!("length {}, {} values fed: get({i}) = {g:?}, expected {want:?}", n.n, n.t)));
					}
				}
				Err(p) => return Step::Violation(Failure::new(format!("{kind}/Buffered::get/panic"), format!("get({i}): {}", p.msg))),
			}
		}
		Step::Next(n)
	}
}

// ---------------------------------------------------------------- WithHistory far into a stream

#[derive(Clone)]
enum HInst {
	Sma(WithHistory<SMA, V>, Vec<V>),
	Cross(WithHistory<Cross, Action>, Vec<Action>),
}
#[derive(Clone)]
pub struct HSt {
	inst: HInst,
	t: u32,
}
/// One stream of `blocks` x 64 inputs per wrapped method; after every block every index of the history
/// (all of them up to 1 024 outputs, the ends and the powers of two after that) is read back.
pub struct HistSys {
	pub blocks: u32,
}
impl System for HistSys {
	type State = HSt;
	type Act = ();
	fn name(&self) -> String {
		"WithHistory/get+iter/far-into-a-stream".into()
	}
	fn inits(&self) -> Vec<(HSt, String)> {
		let mut v = vec![];
		if let Ok(m) = SMA::with_history(3, &1.0) {
			v.push((HSt { inst: HInst::Sma(m, vec![]), t: 0 }, "SMA::with_history(3, 1.0)".to_string()));
		}
		if let Ok(m) = Cross::with_history((), &(1.0, 2.0)) {
			v.push((HSt { inst: HInst::Cross(m, vec![]), t: 0 }, "Cross::with_history((), (1.0, 2.0))".to_string()));
		}
		v
	}
	fn actions(&self, s: &HSt, _: u32) -> Vec<((), u8)> {
		if s.t < self.blocks * 64 { vec![((), 0)] } else { vec![] }
	}
	fn show_act(&self, _: &()) -> String {
		"the next 64 inputs".into()
	}
	fn step(&self, s: &HSt, _: &()) -> Step<HSt> {
		let mut n = s.clone();
		for _ in 0..64 {
			let x = value(n.t % 23) + (n.t % 7) as V;
			let y = value((n.t * 5) % 19);
			n.t += 1;
			match &mut n.inst {
				HInst::Sma(m, outs) => outs.push(m.next(&x)),
				HInst::Cross(m, outs) => outs.push(m.next(&(x, y))),
			}
		}
		fn verify<T: ?Sized, O: Clone + PartialEq + std::fmt::Debug>(m: &WithHistory<T, O>, outs: &[O], what: &str) -> Option<Failure> {
			let len = outs.len();
			let idx: Vec<usize> = if len <= 1024 {
				(0..len + 2).collect()
			} else {
				let mut v: Vec<usize> = (0..260).collect();
				for k in 8..=20 {
					for d in [-2i64, -1, 0, 1, 2] {
						v.push(((1i64 << k) + d) as usize);
					}
				}
				v.extend([len - 2, len - 1, len, len + 1]);
				v
			};
			for i in idx.into_iter().chain([1 << 40]) {
				let want = if i < len { Some(outs[len - 1 - i].clone()) } else { None };
				match catch(|| m.get(i)) {
					Ok(g) => {
						if g != want {
							return Some(Failure::new(format!("WithHistory/get/{}", if i < len { "a-value-that-was-produced" } else { "beyond-the-history" }), format!("{what}: {len} outputs so far, get({i}) = {g:?}, expected {want:?}")));
						}
					}
					Err(p) => return Some(Failure::new("WithHistory/get/panic", format!("{what}: get({i}): {}", p.msg))),
				}
			}
			if m.iter().count() != len || (len <= 4096 && m.iter().cloned().collect::<Vec<_>>() != outs) {
				return Some(Failure::new("WithHistory/iter", format!("{what}: iter() differs from the {len} outputs produced")));
			}
			None
		}
		let f = match &n.inst {
			HInst::Sma(m, outs) => verify(m, outs, "SMA(3)"),
			HInst::Cross(m, outs) => verify(m, outs, "Cross"),
		};
		match f {
			Some(f) => Step::Violation(f),
			None => Step::Next(n),
		}
	}
}
