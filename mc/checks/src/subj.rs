//! Subject registry: one dynamic interface over every public method of yata
//! (DESIGN.md §5.1). Outputs are rendered with exact bit patterns.

use crate::{PeriodType, ValueType};
use serde::{de::DeserializeOwned, Serialize};
use std::fmt::Debug;
use yata::core::{Action, Candle, Error, Method, MovingAverageConstructor, Source, OHLCV};
use yata::helpers::{MAInstance, Peekable, MA};
use yata::methods::*;

#[derive(Clone, Copy, Debug, PartialEq)]
pub enum In {
	V(ValueType),
	P(ValueType, ValueType),
	C(Candle),
}
impl In {
	pub fn v(&self) -> ValueType {
		match self {
			In::V(v) => *v,
			In::P(a, _) => *a,
			In::C(c) => c.close,
		}
	}
	pub fn show(&self) -> String {
		match self {
			In::V(v) => format!("{v:?}"),
			In::P(a, b) => format!("({a:?},{b:?})"),
			In::C(c) => format!("[{:?},{:?},{:?},{:?}|{:?}]", c.open, c.high, c.low, c.close, c.volume),
		}
	}
}

#[derive(Clone, Debug, PartialEq)]
pub enum Out {
	V(ValueType),
	I(u64),
	A(Action),
	C(Candle),
	OC(Option<Candle>),
	/// Renko: (len, blocks as (open, close, volume))
	R(usize, Vec<(ValueType, ValueType, ValueType)>),
}
impl Out {
	/// bitwise identity (NaN == NaN, 0.0 != -0.0); Actions structurally
	pub fn same_bits(&self, o: &Out) -> bool {
		fn fb(a: ValueType, b: ValueType) -> bool {
			a.to_bits() == b.to_bits()
		}
		fn ab(a: &Action, b: &Action) -> bool {
			match (a, b) {
				(Action::None, Action::None) => true,
				(Action::Buy(x), Action::Buy(y)) | (Action::Sell(x), Action::Sell(y)) => x == y,
				_ => false,
			}
		}
		match (self, o) {
			(Out::V(a), Out::V(b)) => fb(*a, *b),
			(Out::I(a), Out::I(b)) => a == b,
			(Out::A(a), Out::A(b)) => ab(a, b),
			(Out::C(a), Out::C(b)) => a == b,
			(Out::OC(a), Out::OC(b)) => a == b,
			(Out::R(n, a), Out::R(m, b)) => n == m && a.len() == b.len() && a.iter().zip(b).all(|(x, y)| fb(x.0, y.0) && fb(x.1, y.1) && fb(x.2, y.2)),
			_ => false,
		}
	}
	pub fn show(&self) -> String {
		match self {
			Out::V(v) => format!("{v:?}"),
			Out::I(i) => format!("{i}"),
			Out::A(a) => format!("{a:?}"),
			Out::C(c) => In::C(*c).show(),
			Out::OC(None) => "None".into(),
			Out::OC(Some(c)) => format!("Some{}", In::C(*c).show()),
			Out::R(n, b) => format!("renko(len={n},{b:?})"),
		}
	}
	pub fn as_v(&self) -> Option<ValueType> {
		match self {
			Out::V(v) => Some(*v),
			_ => None,
		}
	}
	/// all floats of the output, for finiteness / transcript purposes
	pub fn floats(&self) -> Vec<ValueType> {
		match self {
			Out::V(v) => vec![*v],
			Out::I(_) | Out::A(_) => vec![],
			Out::C(c) | Out::OC(Some(c)) => vec![c.open, c.high, c.low, c.close, c.volume],
			Out::OC(None) => vec![],
			Out::R(_, b) => b.iter().flat_map(|x| [x.0, x.1, x.2]).collect(),
		}
	}
	pub fn is_exact_kind(&self) -> bool {
		!matches!(self, Out::V(_))
	}
}

#[derive(Clone, Debug, PartialEq)]
pub enum Params {
	Unit,
	N(PeriodType),
	NN(PeriodType, PeriodType),
	W(Vec<ValueType>),
	U(usize),
	Renko(ValueType, Source),
	Ma(MA),
}
impl Params {
	pub fn show(&self) -> String {
		match self {
			Params::Unit => "()".into(),
			Params::N(n) => format!("{n}"),
			Params::NN(a, b) => format!("({a},{b})"),
			Params::W(w) => format!("{w:?}"),
			Params::U(u) => format!("{u}"),
			Params::Renko(s, src) => format!("({s:?},{src:?})"),
			Params::Ma(m) => format!("{m:?}"),
		}
	}
}

pub trait Subject: Send + Sync {
	fn next(&mut self, i: &In) -> Out;
	fn peek(&self) -> Option<Out>;
	fn boxed_clone(&self) -> Box<dyn Subject>;
	fn debug_key(&self) -> String;
	fn to_json(&self) -> Result<String, String>;
	fn from_json(&self, s: &str) -> Result<Box<dyn Subject>, String>;
	/// snapshot + restore through the lossless token format (positional = bincode-like, else named)
	fn via_tokens(&self, positional: bool) -> Result<Box<dyn Subject>, String>;
	fn as_any(&self) -> Option<&dyn std::any::Any> {
		None
	}
	/// `Clone::clone_from` of the wrapped instance (`self` is overwritten with `src`'s state, its buffers may
	/// be re-used); false when `src` wraps another type
	fn clone_from_subject(&mut self, _src: &dyn Subject) -> bool {
		false
	}
}
impl Clone for Box<dyn Subject> {
	fn clone(&self) -> Self {
		self.boxed_clone()
	}
}

#[derive(Clone, Copy, Debug, PartialEq, Eq)]
pub enum InKind {
	Value,
	Pair,
	Candle,
}
#[derive(Clone, Copy, Debug, PartialEq, Eq)]
pub enum ParKind {
	Unit,
	N,
	NN,
	Weights,
	Usize,
	Renko,
	Ma,
}

pub struct Spec {
	pub name: &'static str,
	pub input: InKind,
	pub par: ParKind,
	pub peekable: bool,
	/// minimal length documented (0 = windowless allowed, 1, or 2)
	pub min_len: u32,
	pub ctor: fn(&Params, &In) -> Result<Box<dyn Subject>, Error>,
	/// exact output kind (selection, index, action, candle) vs arithmetic
	pub exact: bool,
	/// exempt from the "constant in, constant out" rule (cumulative / counting)
	pub cumulative: bool,
}

struct W<M, FN, FP> {
	m: M,
	next: FN,
	peek: FP,
}

impl<M, FN, FP> Subject for W<M, FN, FP>
where
	M: Clone + Debug + Send + Sync + Serialize + DeserializeOwned + 'static,
	FN: Fn(&mut M, &In) -> Out + Clone + Send + Sync + 'static,
	FP: Fn(&M) -> Option<Out> + Clone + Send + Sync + 'static,
{
	fn next(&mut self, i: &In) -> Out {
		(self.next)(&mut self.m, i)
	}
	fn peek(&self) -> Option<Out> {
		(self.peek)(&self.m)
	}
	fn boxed_clone(&self) -> Box<dyn Subject> {
		Box::new(W { m: self.m.clone(), next: self.next.clone(), peek: self.peek.clone() })
	}
	fn debug_key(&self) -> String {
		format!("{:?}", self.m)
	}
	fn to_json(&self) -> Result<String, String> {
		serde_json::to_string(&self.m).map_err(|e| e.to_string())
	}
	fn from_json(&self, s: &str) -> Result<Box<dyn Subject>, String> {
		let m: M = serde_json::from_str(s).map_err(|e| e.to_string())?;
		Ok(Box::new(W { m, next: self.next.clone(), peek: self.peek.clone() }))
	}
	fn via_tokens(&self, positional: bool) -> Result<Box<dyn Subject>, String> {
		use crate::tokfmt::{restore, snapshot, Flavour};
		let fl = if positional { Flavour::Positional } else { Flavour::Named };
		let toks = snapshot(&self.m, fl);
		let m: M = restore(&toks, fl).map_err(|e| format!("{e} (snapshot of {} tokens)", toks.len()))?;
		Ok(Box::new(W { m, next: self.next.clone(), peek: self.peek.clone() }))
	}
	fn as_any(&self) -> Option<&dyn std::any::Any> {
		Some(self)
	}
	fn clone_from_subject(&mut self, src: &dyn Subject) -> bool {
		match src.as_any().and_then(|a| a.downcast_ref::<Self>()) {
			Some(s) => {
				self.m.clone_from(&s.m);
				true
			}
			None => false,
		}
	}
}

fn wrong() -> Error {
	Error::Other("harness: wrong parameter/input kind".into())
}
fn val(i: &In) -> Result<ValueType, Error> {
	match i {
		In::V(v) => Ok(*v),
		_ => Err(wrong()),
	}
}
fn pair(i: &In) -> Result<(ValueType, ValueType), Error> {
	match i {
		In::P(a, b) => Ok((*a, *b)),
		_ => Err(wrong()),
	}
}
fn candle(i: &In) -> Result<Candle, Error> {
	match i {
		In::C(c) => Ok(*c),
		_ => Err(wrong()),
	}
}

macro_rules! vv {
	($name:literal, $t:ty, peek, $min:expr, $exact:expr) => {
		Spec {
			name: $name,
			input: InKind::Value,
			par: ParKind::N,
			peekable: true,
			min_len: $min,
			exact: $exact,
			cumulative: false,
			ctor: |p, i| {
				let Params::N(n) = p else { return Err(wrong()) };
				let m = <$t as Method>::new(*n, &val(i)?)?;
				Ok(Box::new(W { m, next: |m: &mut $t, i: &In| Out::V(m.next(&i.v())), peek: |m: &$t| Some(Out::V(Peekable::peek(m))) }))
			},
		}
	};
	($name:literal, $t:ty, nopeek, $min:expr, $exact:expr) => {
		Spec {
			name: $name,
			input: InKind::Value,
			par: ParKind::N,
			peekable: false,
			min_len: $min,
			exact: $exact,
			cumulative: false,
			ctor: |p, i| {
				let Params::N(n) = p else { return Err(wrong()) };
				let m = <$t as Method>::new(*n, &val(i)?)?;
				Ok(Box::new(W { m, next: |m: &mut $t, i: &In| Out::V(m.next(&i.v())), peek: |_: &$t| None }))
			},
		}
	};
}

fn renko_out(o: yata::methods::renko::RenkoOutput) -> Out {
	let len = o.len();
	// the output is a lazy iterator and `len` can be astronomically large for tiny brick sizes: keep a prefix
	let blocks: Vec<_> = o.take(64).map(|b| (b.open, b.close, b.volume)).collect();
	Out::R(len, blocks)
}

pub fn registry() -> Vec<Spec> {
	let mut v = vec![
		vv!("SMA", SMA, peek, 1, false),
		vv!("WMA", WMA, peek, 1, false),
		vv!("SWMA", SWMA, peek, 1, false),
		vv!("TRIMA", TRIMA, peek, 1, false),
		vv!("HMA", HMA, peek, 2, false),
		vv!("LinReg", LinReg, peek, 2, false),
		vv!("EMA", EMA, peek, 1, false),
		vv!("DMA", DMA, peek, 1, false),
		vv!("TMA", TMA, peek, 1, false),
		vv!("DEMA", DEMA, peek, 1, false),
		vv!("TEMA", TEMA, peek, 1, false),
		vv!("WSMA", WSMA, peek, 1, false),
		vv!("RMA", RMA, peek, 1, false),
		vv!("SMM", SMM, peek, 1, true),
		vv!("Vidya", Vidya, peek, 1, false),
		vv!("Derivative", Derivative, nopeek, 1, false),
		vv!("Integral", Integral, peek, 0, false),
		vv!("Momentum", Momentum, nopeek, 1, false),
		vv!("RateOfChange", RateOfChange, nopeek, 1, false),
		vv!("StDev", StDev, peek, 2, false),
		vv!("LinearVolatility", LinearVolatility, peek, 1, false),
		vv!("CCI", CCI, nopeek, 1, false),
		vv!("MeanAbsDev", MeanAbsDev, peek, 1, false),
		vv!("MedianAbsDev", MedianAbsDev, peek, 2, false),
		vv!("Highest", Highest, peek, 1, true),
		vv!("Lowest", Lowest, peek, 1, true),
		vv!("HighestLowestDelta", HighestLowestDelta, peek, 1, true),
		vv!("Past", Past<ValueType>, peek, 1, true),
	];
	v.iter_mut().find(|s| s.name == "Integral").unwrap().cumulative = false; // only length 0 is cumulative; handled by the checks
	v.push(Spec {
		name: "HighestIndex",
		input: InKind::Value,
		par: ParKind::N,
		peekable: true,
		min_len: 1,
		exact: true,
		cumulative: false,
		ctor: |p, i| {
			let Params::N(n) = p else { return Err(wrong()) };
			let m = HighestIndex::new(*n, &val(i)?)?;
			Ok(Box::new(W { m, next: |m: &mut HighestIndex, i: &In| Out::I(m.next(&i.v()) as u64), peek: |m: &HighestIndex| Some(Out::I(Peekable::peek(m) as u64)) }))
		},
	});
	v.push(Spec {
		name: "LowestIndex",
		input: InKind::Value,
		par: ParKind::N,
		peekable: true,
		min_len: 1,
		exact: true,
		cumulative: false,
		ctor: |p, i| {
			let Params::N(n) = p else { return Err(wrong()) };
			let m = LowestIndex::new(*n, &val(i)?)?;
			Ok(Box::new(W { m, next: |m: &mut LowestIndex, i: &In| Out::I(m.next(&i.v()) as u64), peek: |m: &LowestIndex| Some(Out::I(Peekable::peek(m) as u64)) }))
		},
	});
	v.push(Spec {
		name: "Conv",
		input: InKind::Value,
		par: ParKind::Weights,
		peekable: true,
		min_len: 1,
		exact: false,
		cumulative: false,
		ctor: |p, i| {
			let Params::W(w) = p else { return Err(wrong()) };
			let m = Conv::new(w.clone(), &val(i)?)?;
			Ok(Box::new(W { m, next: |m: &mut Conv, i: &In| Out::V(m.next(&i.v())), peek: |m: &Conv| Some(Out::V(Peekable::peek(m))) }))
		},
	});
	v.push(Spec {
		name: "VWMA",
		input: InKind::Pair,
		par: ParKind::N,
		peekable: true,
		min_len: 1,
		exact: false,
		cumulative: false,
		ctor: |p, i| {
			let Params::N(n) = p else { return Err(wrong()) };
			let m = VWMA::new(*n, &pair(i)?)?;
			Ok(Box::new(W {
				m,
				next: |m: &mut VWMA, i: &In| {
					let In::P(a, b) = i else { panic!("harness: VWMA needs a pair") };
					Out::V(m.next(&(*a, *b)))
				},
				peek: |m: &VWMA| Some(Out::V(Peekable::peek(m))),
			}))
		},
	});
	v.push(Spec {
		name: "TSI",
		input: InKind::Value,
		par: ParKind::NN,
		peekable: true,
		min_len: 1,
		exact: false,
		cumulative: false,
		ctor: |p, i| {
			let Params::NN(a, b) = p else { return Err(wrong()) };
			let m = TSI::new(*a, *b, &val(i)?)?;
			Ok(Box::new(W { m, next: |m: &mut TSI, i: &In| Out::V(m.next(&i.v())), peek: |m: &TSI| Some(Out::V(Peekable::peek(m))) }))
		},
	});
	macro_rules! cross {
		($name:literal, $t:ty) => {
			Spec {
				name: $name,
				input: InKind::Pair,
				par: ParKind::Unit,
				peekable: false,
				min_len: 0,
				exact: true,
				cumulative: false,
				ctor: |_, i| {
					let m = <$t as Method>::new((), &pair(i)?)?;
					Ok(Box::new(W {
						m,
						next: |m: &mut $t, i: &In| {
							let In::P(a, b) = i else { panic!("harness: cross needs a pair") };
							Out::A(m.next(&(*a, *b)))
						},
						peek: |_: &$t| None,
					}))
				},
			}
		};
	}
	v.push(cross!("Cross", Cross));
	v.push(cross!("CrossAbove", CrossAbove));
	v.push(cross!("CrossUnder", CrossUnder));
	macro_rules! rev {
		($name:literal, $t:ty) => {
			Spec {
				name: $name,
				input: InKind::Value,
				par: ParKind::NN,
				peekable: false,
				min_len: 1,
				exact: true,
				cumulative: false,
				ctor: |p, i| {
					let Params::NN(a, b) = p else { return Err(wrong()) };
					let m = <$t as Method>::new((*a, *b), &val(i)?)?;
					Ok(Box::new(W { m, next: |m: &mut $t, i: &In| Out::A(m.next(&i.v())), peek: |_: &$t| None }))
				},
			}
		};
	}
	v.push(rev!("ReversalSignal", ReversalSignal));
	v.push(rev!("UpperReversalSignal", UpperReversalSignal));
	v.push(rev!("LowerReversalSignal", LowerReversalSignal));
	v.push(Spec {
		name: "ADI",
		input: InKind::Candle,
		par: ParKind::N,
		peekable: true,
		min_len: 0,
		exact: false,
		cumulative: false,
		ctor: |p, i| {
			let Params::N(n) = p else { return Err(wrong()) };
			let c = candle(i)?;
			let m = ADI::new(*n, &c)?;
			Ok(Box::new(W {
				m,
				next: |m: &mut ADI, i: &In| {
					let In::C(c) = i else { panic!("harness: ADI needs a candle") };
					Out::V(m.next(c))
				},
				peek: |m: &ADI| Some(Out::V(Peekable::peek(m))),
			}))
		},
	});
	v.push(Spec {
		name: "TR",
		input: InKind::Candle,
		par: ParKind::Unit,
		peekable: false,
		min_len: 0,
		exact: false,
		cumulative: false,
		ctor: |_, i| {
			let c = candle(i)?;
			let m = TR::new(&c)?;
			Ok(Box::new(W {
				m,
				next: |m: &mut TR, i: &In| {
					let In::C(c) = i else { panic!("harness: TR needs a candle") };
					Out::V(m.next(c))
				},
				peek: |_: &TR| None,
			}))
		},
	});
	v.push(Spec {
		name: "HeikinAshi",
		input: InKind::Candle,
		par: ParKind::Unit,
		peekable: false,
		min_len: 0,
		exact: false,
		cumulative: false,
		ctor: |_, i| {
			let c = candle(i)?;
			let m = <HeikinAshi as Method>::new((), &c)?;
			Ok(Box::new(W {
				m,
				next: |m: &mut HeikinAshi, i: &In| {
					let In::C(c) = i else { panic!("harness: HeikinAshi needs a candle") };
					Out::C(m.next(c))
				},
				peek: |_: &HeikinAshi| None,
			}))
		},
	});
	v.push(Spec {
		name: "Renko",
		input: InKind::Candle,
		par: ParKind::Renko,
		peekable: false,
		min_len: 0,
		exact: false,
		cumulative: true,
		ctor: |p, i| {
			let Params::Renko(s, src) = p else { return Err(wrong()) };
			let c = candle(i)?;
			let m = <Renko as Method>::new((*s, *src), &c)?;
			Ok(Box::new(W {
				m,
				next: |m: &mut Renko, i: &In| {
					let In::C(c) = i else { panic!("harness: Renko needs a candle") };
					renko_out(m.next(c))
				},
				peek: |_: &Renko| None,
			}))
		},
	});
	v.push(Spec {
		name: "CollapseTimeframe",
		input: InKind::Candle,
		par: ParKind::Usize,
		peekable: false,
		min_len: 1,
		exact: true,
		cumulative: true,
		ctor: |p, i| {
			let Params::U(n) = p else { return Err(wrong()) };
			let c = candle(i)?;
			let m = <CollapseTimeframe<Candle> as Method>::new(*n, &c)?;
			Ok(Box::new(W {
				m,
				next: |m: &mut CollapseTimeframe<Candle>, i: &In| {
					let In::C(c) = i else { panic!("harness: CollapseTimeframe needs a candle") };
					Out::OC(m.next(c))
				},
				peek: |_: &CollapseTimeframe<Candle>| None,
			}))
		},
	});
	v.push(Spec {
		name: "MAInstance",
		input: InKind::Value,
		par: ParKind::Ma,
		peekable: false,
		min_len: 1,
		exact: false,
		cumulative: false,
		ctor: |p, i| {
			let Params::Ma(ma) = p else { return Err(wrong()) };
			let m: MAInstance = ma.init(val(i)?)?;
			Ok(Box::new(W { m, next: |m: &mut MAInstance, i: &In| Out::V(m.next(&i.v())), peek: |_: &MAInstance| None }))
		},
	});
	v
}

pub fn spec(name: &str) -> Spec {
	registry().into_iter().find(|s| s.name == name).unwrap_or_else(|| panic!("no subject {name}"))
}

pub const MA_KINDS: [&str; 15] = ["sma", "wma", "hma", "rma", "ema", "dma", "dema", "tma", "tema", "wsma", "smm", "swma", "trima", "linreg", "vidya"];

pub fn ma_of(kind: &str, n: PeriodType) -> MA {
	match kind {
		"sma" => MA::SMA(n),
		"wma" => MA::WMA(n),
		"hma" => MA::HMA(n),
		"rma" => MA::RMA(n),
		"ema" => MA::EMA(n),
		"dma" => MA::DMA(n),
		"dema" => MA::DEMA(n),
		"tma" => MA::TMA(n),
		"tema" => MA::TEMA(n),
		"wsma" => MA::WSMA(n),
		"smm" => MA::SMM(n),
		"swma" => MA::SWMA(n),
		"trima" => MA::TRIMA(n),
		"linreg" => MA::LinReg(n),
		"vidya" => MA::Vidya(n),
		_ => panic!("unknown MA kind {kind}"),
	}
}

/// Names of the public items of `src/methods/mod.rs` (parsed from the tree under /repo)
/// compared with the registry: coverage cannot silently rot when yata changes.
pub fn registry_complete() -> Result<(), String> {
	let root = std::env::var("YATA_SRC").unwrap_or_else(|_| "/repo".into());
	let modrs = std::fs::read_to_string(format!("{root}/src/methods/mod.rs")).map_err(|e| format!("{root}/src/methods/mod.rs: {e}"))?;
	let mut files = vec![];
	for l in modrs.lines() {
		let l = l.trim();
		if let Some(r) = l.strip_prefix("mod ").or_else(|| l.strip_prefix("pub mod ")) {
			let m = r.trim_end_matches(';').trim();
			if m != "tests" && !l.contains('{') {
				files.push(m.to_string());
			}
		}
	}
	let mut structs = vec![];
	for f in &files {
		let t = std::fs::read_to_string(format!("{root}/src/methods/{f}.rs")).map_err(|e| format!("{f}.rs: {e}"))?;
		let code = t.split("#[cfg(test)]").next().unwrap_or("");
		// every type with an `impl Method for X`
		for l in code.lines() {
			let l = l.trim();
			if l.starts_with("impl") && l.contains(" Method for ") {
				let name = l.split(" Method for ").nth(1).unwrap_or("").split(|c: char| !(c.is_alphanumeric() || c == '_')).next().unwrap_or("");
				if !name.is_empty() {
					structs.push(name.to_string());
				}
			}
		}
	}
	structs.sort();
	structs.dedup();
	let reg: Vec<String> = registry().iter().map(|s| s.name.to_string()).collect();
	let mut missing = vec![];
	for s in &structs {
		if !reg.iter().any(|r| r == s) {
			missing.push(s.clone());
		}
	}
	if !missing.is_empty() {
		return Err(format!("methods in the source tree that the subject registry does not know: {missing:?}"));
	}
	for r in &reg {
		if r != "MAInstance" && !structs.iter().any(|s| s == r) {
			return Err(format!("registry names a method that no longer exists in the tree: {r}"));
		}
	}
	Ok(())
}

pub fn dummy_candle(x: ValueType) -> Candle {
	Candle { open: x, high: x, low: x, close: x, volume: x }
}

#[allow(unused)]
fn _assert_traits() {
	fn is_ohlcv<T: OHLCV>() {}
	is_ohlcv::<Candle>();
}
