//! Reference constructors shared by several checks.
use refmodel::methods as rm;
use refmodel::Q;

/// reference of a moving-average kind of the `MA` constructor ("sma", "wma", ...)
pub fn ma_ref(kind: &str, n: usize, v0: f64) -> Box<dyn rm::RefVV> {
	rm::ma_q(kind, n, Q::exact(v0))
}

/// minimal length a kind accepts
pub fn ma_min_len(kind: &str) -> usize {
	match kind {
		"hma" | "linreg" => 2,
		_ => 1,
	}
}
/// maximal length a kind accepts for a given PeriodType::MAX
pub fn ma_max_len(kind: &str, pmax: u64) -> usize {
	let lim = match kind {
		"wsma" => pmax / 2,
		"ema" | "dma" | "tma" | "dema" | "tema" | "vidya" => pmax - 1,
		_ => pmax - 1,
	};
	lim.min(254) as usize
}
pub fn ma_is_linear(kind: &str) -> bool {
	!matches!(kind, "smm" | "vidya")
}
/// kinds whose weights are non-negative (never leave the hull of their inputs)
pub fn ma_nonneg(kind: &str) -> bool {
	matches!(kind, "sma" | "wma" | "swma" | "trima" | "ema" | "dma" | "tma" | "rma" | "wsma" | "smm" | "vidya")
}

/// documented impulse response h[k], k = 0 .. len-1 (response k steps after a unit impulse)
pub fn impulse_profile(kind: &str, n: usize, len: usize) -> Vec<f64> {
	let nf = n as f64;
	let fir = |w_newest_first: Vec<f64>| -> Vec<f64> {
		let s: f64 = w_newest_first.iter().sum();
		let mut h: Vec<f64> = w_newest_first.iter().map(|x| x / s).collect();
		h.resize(len.max(h.len()), 0.0);
		h.truncate(len);
		h
	};
	let conv = |a: &[f64], b: &[f64]| -> Vec<f64> {
		let mut c = vec![0.0; len];
		for (i, x) in a.iter().enumerate() {
			if *x == 0.0 {
				continue;
			}
			for (j, y) in b.iter().enumerate() {
				if i + j < len {
					c[i + j] += x * y;
				}
			}
		}
		c
	};
	let ema = |a: f64| -> Vec<f64> { (0..len).map(|k| a * (1.0 - a).powi(k as i32)).collect() };
	let wma_h = |m: usize| -> Vec<f64> { fir((0..m).map(|k| (m - k) as f64).collect()) };
	match kind {
		"sma" => fir(vec![1.0; n]),
		"wma" => wma_h(n),
		"swma" => fir((0..n).map(|k| (k + 1).min(n - k) as f64).collect()),
		"trima" => {
			let b = fir(vec![1.0; n]);
			conv(&b, &b)
		}
		"linreg" => fir((0..n).map(|k| 2.0 * (2.0 * nf - 1.0) - 6.0 * k as f64).collect::<Vec<_>>()).iter().map(|x| *x).collect(),
		"hma" => {
			let a = wma_h(n / 2);
			let b = wma_h(n);
			let d: Vec<f64> = (0..len).map(|k| 2.0 * a[k] - b[k]).collect();
			let s = (nf.sqrt().floor() as usize).max(1);
			conv(&wma_h(s), &d)
		}
		"ema" => ema(2.0 / (nf + 1.0)),
		"rma" | "wsma" => ema(1.0 / nf),
		"dma" => {
			let e = ema(2.0 / (nf + 1.0));
			conv(&e, &e)
		}
		"tma" => {
			let e = ema(2.0 / (nf + 1.0));
			conv(&conv(&e, &e), &e)
		}
		"dema" => {
			let e = ema(2.0 / (nf + 1.0));
			let d = conv(&e, &e);
			(0..len).map(|k| 2.0 * e[k] - d[k]).collect()
		}
		"tema" => {
			let e = ema(2.0 / (nf + 1.0));
			let d = conv(&e, &e);
			let t = conv(&d, &e);
			(0..len).map(|k| 3.0 * (e[k] - d[k]) + t[k]).collect()
		}
		_ => panic!("no impulse profile for {kind}"),
	}
}
