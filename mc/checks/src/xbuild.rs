//! Cross-build comparison of transcripts (C19, C20).
use std::collections::BTreeMap;
use std::process::Command;

#[derive(Clone, Debug)]
pub struct Line {
	pub block: String,
	pub status: String,
	pub digest: String,
}
pub struct Transcript {
	pub lines: BTreeMap<String, Line>,
	pub complete: bool,
	pub exit: Option<i32>,
	pub signal_or_error: String,
	pub end: String,
}

pub fn run_transcript(bin: &str, args: &[&str], wrapper: Option<&[&str]>) -> Transcript {
	let mut cmd = match wrapper {
		Some(w) => {
			let mut c = Command::new(w[0]);
			c.args(&w[1..]).arg(bin);
			c
		}
		None => {
			// wall cap inside the engine: a hung build variant is a machinery error, not a verdict
			let mut c = Command::new("timeout");
			c.arg("-k").arg("5").arg(std::env::var("VERIF_CHILD_TIMEOUT").unwrap_or_else(|_| "900".into())).arg(bin);
			c
		}
	};
	cmd.args(args);
	let mut t = Transcript { lines: BTreeMap::new(), complete: false, exit: None, signal_or_error: String::new(), end: String::new() };
	match cmd.output() {
		Err(e) => t.signal_or_error = format!("cannot run {bin}: {e}"),
		Ok(o) => {
			t.exit = o.status.code();
			if !o.status.success() {
				t.signal_or_error = format!("{:?}: {}", o.status, String::from_utf8_lossy(&o.stderr).chars().rev().take(1500).collect::<String>().chars().rev().collect::<String>());
			}
			for l in String::from_utf8_lossy(&o.stdout).lines() {
				let f: Vec<&str> = l.split('\t').collect();
				if f[0] == "END" {
					t.complete = true;
					t.end = l.to_string();
				} else if f.len() == 4 {
					t.lines.insert(f[1].to_string(), Line { block: f[0].to_string(), status: f[2].to_string(), digest: f[3].to_string() });
				}
			}
		}
	}
	t
}

pub struct Cmp {
	pub compared: u64,
	pub excluded_base_panics: u64,
	pub excluded_capacity: u64,
	pub missing: u64,
	/// (block, program id, what)
	pub diffs: Vec<(String, String, String)>,
}

/// programs on which the base build panics are excluded (as C19 says); `capacity_ok`: a program
/// the base build rejects (ctor-err) but the other accepts is a capacity difference (C20), not a behavioural one
pub fn compare(base: &Transcript, other: &Transcript, capacity_ok: bool) -> Cmp {
	let mut c = Cmp { compared: 0, excluded_base_panics: 0, excluded_capacity: 0, missing: 0, diffs: vec![] };
	for (id, b) in &base.lines {
		if b.status == "panic" {
			c.excluded_base_panics += 1;
			continue;
		}
		match other.lines.get(id) {
			None => c.missing += 1,
			Some(o) => {
				if capacity_ok && b.status == "ctor-err" && o.status != "panic" {
					if o.status != "ctor-err" {
						c.excluded_capacity += 1;
					} else {
						c.compared += 1;
					}
					continue;
				}
				c.compared += 1;
				if o.status != b.status {
					c.diffs.push((b.block.clone(), id.clone(), format!("status {} vs {}", b.status, o.status)));
				} else if o.digest != b.digest {
					c.diffs.push((b.block.clone(), id.clone(), format!("digest {} vs {}", b.digest, o.digest)));
				}
			}
		}
	}
	c
}
