//! Indicator versus reference: the product system used by C05 (values), C06 (signals).

use crate::ind::*;
use crate::subj::In;
use crate::{catch, Failure, Step, System};
use refmodel::ind::{Cfg, CfgVal, IndRef, Sig, RC};
use std::sync::atomic::{AtomicU64, Ordering};
use yata::core::{Action, Candle};

pub fn rc(c: &Candle) -> RC {
	RC { o: c.open as f64, h: c.high as f64, l: c.low as f64, c: c.close as f64, v: c.volume as f64 }
}

/// the reference library's view of a configuration (from its serde-JSON form)
pub fn ref_cfg(c: &dyn IndCfg) -> Cfg {
	let mut m = std::collections::BTreeMap::new();
	for (k, v) in json_map(&c.to_json().unwrap_or_default()) {
		let cv = if let Some(u) = v.as_u64() {
			CfgVal::Int(u)
		} else if let Some(f) = v.as_f64() {
			CfgVal::Float(f)
		} else if let Some(s) = v.as_str() {
			CfgVal::Str(s.to_string())
		} else if let Some(b) = v.as_bool() {
			CfgVal::Bool(b)
		} else if let Some(o) = v.as_object() {
			let (kind, n) = o.iter().next().map(|(k, v)| (k.clone(), v.as_u64().unwrap_or(0) as usize)).unwrap_or_default();
			CfgVal::Ma(if kind == "lin_reg" { "linreg".into() } else { kind }, n)
		} else {
			continue;
		};
		m.insert(k, cv);
	}
	Cfg(m)
}

#[derive(Clone, Copy, PartialEq, Debug)]
pub enum Oracle {
	Values,
	Signals,
}

pub struct SlotStats {
	pub buy: AtomicU64,
	pub sell: AtomicU64,
	pub silent: AtomicU64,
	pub exempt: AtomicU64,
}

pub struct IndSys {
	pub name: String,
	pub cfgs: Vec<Box<dyn IndCfg>>,
	pub c0s: Vec<Candle>,
	pub alphabet: Vec<Candle>,
	pub oracle: Oracle,
	/// flat base with deviations instead of every symbol at every step
	pub flat: bool,
	/// per (config index, slot) counters: is every signal slot exercised?
	pub stats: Vec<Vec<SlotStats>>,
	/// two more state-dependent symbols: a zigzag on a rising (+2, -1, +2, ...) / falling (-2, +1, ...) trend.
	/// In the flat shape starting one right after c0 and continuing it are free: hundreds of swing
	/// highs / lows on one side of every slow average (peak counters, consecutive-pivot rules)
	pub zigzag: bool,
	/// one more state-dependent symbol: the next candle of a deterministic "volatile" stream (golden-ratio
	/// Weyl sequence: every step a new value, no two alike); free to start right after c0 and to continue
	pub volatile: bool,
	/// values oracle only: the first candle fed may differ from the construction candle ("created from v"
	/// must already be the state "v has been seen forever"; the signal detectors start from neutral seeds
	/// by convention, so the signal oracle keeps the prescribed first step)
	pub first_free: bool,
	/// one more state-dependent symbol: a candle whose four prices all equal the FIRST VALUE the indicator
	/// returned on the previous step (a price exactly on the indicator's own line: crossings by equality,
	/// touches without a crossing)
	pub touch: bool,
}

#[derive(Clone)]
pub struct IState {
	pub imp: Box<dyn IndInst>,
	pub rf: Box<dyn IndRef>,
	/// implementation-following variant for indicators with a recorded doc-vs-code discrepancy
	pub alt: Option<Box<dyn IndRef>>,
	pub cfg: usize,
	pub prev: Candle,
	/// the last action was a shift of the previous candle by this much (0: an absolute symbol)
	pub trend: i8,
	/// per slot (bit i): on this path the implementation has followed the implementation reading AGAINST
	/// the documented one / the documented one AGAINST the implementation reading. An implementation
	/// that does both on one path implements neither reading.
	pub took_alt: u8,
	pub took_doc: u8,
	/// largest price seen on this path (DESIGN 4.2, amendment 3: floor of the radius)
	pub mag: f64,
	/// steps taken (drives the volatile stream)
	pub k: u32,
	/// first value returned on the previous step (NaN before the first step)
	pub last_v0: f64,
}

impl IndSys {
	pub fn new(name: &str, cfgs: Vec<Box<dyn IndCfg>>, c0s: Vec<Candle>, alphabet: Vec<Candle>, oracle: Oracle, flat: bool) -> Self {
		let stats = cfgs
			.iter()
			.map(|c| (0..c.size().1.max(c.size().0) as usize).map(|_| SlotStats { buy: 0.into(), sell: 0.into(), silent: 0.into(), exempt: 0.into() }).collect())
			.collect();
		Self { name: name.to_string(), cfgs, c0s, alphabet, oracle, flat, stats, zigzag: false, volatile: false, first_free: false, touch: false }
	}
	pub fn with_zigzag(mut self) -> Self {
		self.zigzag = true;
		self
	}
	pub fn with_touch(mut self) -> Self {
		self.touch = true;
		self
	}
	pub fn with_first_free(mut self) -> Self {
		self.first_free = true;
		self
	}
	pub fn with_volatile(mut self) -> Self {
		self.volatile = true;
		self
	}
	/// per (indicator, slot): how often the documented rule said buy / sell / silent / left it open
	pub fn totals(&self) -> Vec<(String, usize, [u64; 4])> {
		let mut v = vec![];
		for (i, c) in self.cfgs.iter().enumerate() {
			for s in 0..c.size().1 as usize {
				let st = &self.stats[i][s];
				v.push((c.const_name().to_string(), s, [st.buy.load(Ordering::Relaxed), st.sell.load(Ordering::Relaxed), st.silent.load(Ordering::Relaxed), st.exempt.load(Ordering::Relaxed)]));
			}
		}
		v
	}
	/// slots of the signal oracle that never said "buy" / "sell" / "silent" anywhere
	pub fn unexercised(&self) -> Vec<String> {
		let mut v = vec![];
		if self.oracle != Oracle::Signals {
			return v;
		}
		for (i, c) in self.cfgs.iter().enumerate() {
			for s in 0..c.size().1 as usize {
				let st = &self.stats[i][s];
				let (b, se, si) = (st.buy.load(Ordering::Relaxed), st.sell.load(Ordering::Relaxed), st.silent.load(Ordering::Relaxed));
				if b + se == 0 || si == 0 {
					v.push(format!("{} {} signal #{s}: fired {} buys, {} sells, silent {}", c.const_name(), c.to_json().unwrap_or_default(), b, se, si));
				}
			}
		}
		v
	}
}

/// k-th candle of the volatile stream: close = 10 * (1 + frac(k * phi)), opens at the previous close
pub fn volatile_candle(k: u32, prev_close: f64) -> Candle {
	const PHI: f64 = 0.618_033_988_749_894_9;
	let c = 10.0 * (1.0 + (k as f64 * PHI).fract());
	let o = prev_close;
	let hi = o.max(c) * (1.0 + 0.01 * (k % 5) as f64);
	let lo = o.min(c) * (1.0 - 0.01 * (k % 3) as f64);
	type V = yata::core::ValueType;
	Candle { open: o as V, high: hi as V, low: lo as V, close: c as V, volume: (1 + k % 4) as V }
}

pub fn price_mag(c: &Candle) -> f64 {
	[c.open, c.high, c.low, c.close].iter().map(|x| (*x as f64).abs()).fold(0.0, f64::max)
}

pub fn act_strength(a: &Action) -> Option<i32> {
	match a {
		Action::None => None,
		Action::Buy(v) => Some(*v as i32),
		Action::Sell(v) => Some(-(*v as i32)),
	}
}

impl System for IndSys {
	type State = IState;
	type Act = usize;
	fn name(&self) -> String {
		self.name.clone()
	}
	fn inits(&self) -> Vec<(IState, String)> {
		let mut v = vec![];
		for (i, c) in self.cfgs.iter().enumerate() {
			let rcfg = ref_cfg(c.as_ref());
			for c0 in &self.c0s {
				let Ok(Ok(imp)) = catch(|| c.init(c0)) else { continue };
				let Some(rf) = refmodel::ind::make(c.const_name(), &rcfg, &rc(c0)) else { continue };
				let alt = refmodel::ind::make_alt(c.const_name(), &rcfg, &rc(c0));
				v.push((IState { imp, rf, alt, cfg: i, prev: *c0, trend: 0, took_alt: 0, took_doc: 0, mag: price_mag(c0), k: 0, last_v0: f64::NAN }, format!("{} {} c0={}", c.const_name(), c.to_json().unwrap_or_default(), In::C(*c0).show())));
			}
		}
		v
	}
	fn actions(&self, s: &IState, depth: u32) -> Vec<(usize, u8)> {
		// prescribed use of the API: the instance is created from its first input, which is then also
		// the first value fed to `next` (C08 is about that); so the stream always starts with c0
		if depth == 0 && !(self.first_free && self.oracle == Oracle::Values) {
			return vec![(self.alphabet.len() + 2, 0)];
		}
		// absolute symbols plus two STATE-DEPENDENT ones: the previous candle shifted up / down by 1
		// (steady trends, consecutive new highs / lows)
		let n = self.alphabet.len();
		// flat shape: continuing what the stream was doing (same candle, or the same trend) costs nothing
		let mut v: Vec<(usize, u8)> = if self.flat {
			self.alphabet.iter().enumerate().map(|(i, a)| (i, if *a == s.prev && s.trend == 0 { 0 } else { 1 })).collect()
		} else {
			(0..n).map(|i| (i, 0)).collect()
		};
		// with the zigzag symbols a steady trend may also be started (free) right after c0
		let free_start = self.zigzag && depth == 1;
		v.push((n, if self.flat && s.trend != 1 && !free_start { 1 } else { 0 }));
		if s.prev.low > 2.0 {
			v.push((n + 1, if self.flat && s.trend != -1 && !free_start { 1 } else { 0 }));
		}
		if self.zigzag {
			// trend codes: 2 / -2 = last step of a rising zigzag was +2 / -1; 3 / -3 = falling zigzag -2 / +1
			v.push((n + 3, if self.flat && !(depth == 1 || s.trend.abs() == 2) { 1 } else { 0 }));
			if s.prev.low > 3.0 {
				v.push((n + 4, if self.flat && !(depth == 1 || s.trend.abs() == 3) { 1 } else { 0 }));
			}
		}
		if self.volatile {
			v.push((n + 5, if self.flat && !(depth == 1 || s.trend == 4) { 1 } else { 0 }));
		}
		if self.touch && s.last_v0.is_finite() && s.last_v0 > 0.5 && s.last_v0 < 1e6 {
			v.push((n + 6, if self.flat { 1 } else { 0 }));
		}
		v
	}
	fn show_act(&self, a: &usize) -> String {
		let n = self.alphabet.len();
		if *a == n {
			"prev+1".into()
		} else if *a == n + 1 {
			"prev-1".into()
		} else if *a == n + 2 {
			"c0".into()
		} else if *a == n + 3 {
			"zigzag-up(+2/-1)".into()
		} else if *a == n + 4 {
			"zigzag-down(-2/+1)".into()
		} else if *a == n + 5 {
			"volatile-next".into()
		} else if *a == n + 6 {
			"all-prices-on-the-previous-first-value".into()
		} else {
			In::C(self.alphabet[*a]).show()
		}
	}
	fn step(&self, s: &IState, a: &usize) -> Step<IState> {
		let shift = |c: &Candle, d: yata::core::ValueType| Candle { open: c.open + d, high: c.high + d, low: c.low + d, close: c.close + d, volume: c.volume };
		let c = if *a == self.alphabet.len() {
			shift(&s.prev, 1.0)
		} else if *a == self.alphabet.len() + 1 {
			shift(&s.prev, -1.0)
		} else if *a == self.alphabet.len() + 2 {
			s.prev
		} else if *a == self.alphabet.len() + 3 {
			shift(&s.prev, if s.trend == 2 { -1.0 } else { 2.0 })
		} else if *a == self.alphabet.len() + 4 {
			shift(&s.prev, if s.trend == 3 { 1.0 } else { -2.0 })
		} else if *a == self.alphabet.len() + 5 {
			volatile_candle(s.k + 1, s.prev.close as f64)
		} else if *a == self.alphabet.len() + 6 {
			let p = s.last_v0 as yata::core::ValueType;
			Candle { open: p, high: p, low: p, close: p, volume: s.prev.volume }
		} else {
			self.alphabet[*a]
		};
		let name = self.cfgs[s.cfg].const_name();
		let mut n = s.clone();
		n.prev = c;
		n.mag = n.mag.max(price_mag(&c));
		// floor of every radius: the rounding of a few operations at unit scale (at the scale of the prices
		// if that is smaller). Equivalent formulations of a normalised quotient - pos / (pos + neg) versus
		// the textbook 1 - 1 / (1 + pos / neg) - differ by that much although the quotient itself is tiny.
		let floor = 16.0 * refmodel::eps() * n.mag.min(1.0);
		n.trend = if *a == self.alphabet.len() {
			1
		} else if *a == self.alphabet.len() + 1 {
			-1
		} else if *a == self.alphabet.len() + 3 {
			if s.trend == 2 { -2 } else { 2 }
		} else if *a == self.alphabet.len() + 4 {
			if s.trend == 3 { -3 } else { 3 }
		} else if *a == self.alphabet.len() + 5 {
			4
		} else {
			0
		};
		n.k = s.k + 1;
		let r = match catch(|| n.imp.next(&c)) {
			Ok(r) => r,
			Err(_) => return Step::Prune, // panics are C10's business
		};
		let r_c = rc(&c);
		let want_v = match catch(|| n.rf.values(&r_c)) {
			Ok(v) => v,
			Err(p) => return Step::Violation(Failure::new(format!("{name}/harness/reference-panicked"), format!("{}: {}", p.at(), p.msg))),
		};
		let own: Vec<f64> = r.values().iter().map(|v| *v as f64).collect();
		n.last_v0 = own.first().copied().unwrap_or(f64::NAN);
		let want_s = match catch(|| n.rf.signals(&r_c, &own)) {
			Ok(v) => v,
			Err(p) => return Step::Violation(Failure::new(format!("{name}/harness/reference-panicked"), format!("{}: {}", p.at(), p.msg))),
		};
		let (alt_v, alt_s) = match n.alt.as_mut() {
			Some(alt) => match catch(|| (alt.values(&r_c), alt.signals(&r_c, &own))) {
				Ok((v, s)) => (Some(v), Some(s)),
				Err(_) => (None, None),
			},
			None => (None, None),
		};
		let mut exempt = false;
		let mut cont: Option<Failure> = None;
		match self.oracle {
			Oracle::Values => {
				if want_v.len() != own.len() {
					return Step::Violation(Failure::new(format!("{name}/values/count"), format!("indicator returned {} values, the documentation lists {}", own.len(), want_v.len())));
				}
				for (i, (q, o)) in want_v.iter().zip(&own).enumerate() {
					if let Some(aq) = alt_v.as_ref().and_then(|a| a.get(i)) {
						if q.is_defined() && aq.is_defined() && i < 8 {
							let (d, a) = (q.widen(floor).contains(*o), aq.widen(floor).contains(*o));
							if a && !d {
								n.took_alt |= 1 << i;
							}
							if d && !a {
								n.took_doc |= 1 << i;
							}
							if n.took_alt & n.took_doc & (1 << i) != 0 {
								n.took_alt &= !(1 << i);
								n.took_doc &= !(1 << i);
								let f = Failure::new(format!("{name}/value#{i}/follows-neither-reading-consistently"), format!("value #{i} = {o:?}: on this path the indicator has agreed with the documented formula where the recorded implementation reading differs AND with the implementation reading where the documented formula differs (documented {:?}, implementation reading {:?})", q.v, aq.v));
								if cont.is_none() {
									cont = Some(f);
								}
							}
						}
					}
					if !q.is_defined() {
						exempt = true;
						self.stats[s.cfg][i.min(self.stats[s.cfg].len() - 1)].exempt.fetch_add(1, Ordering::Relaxed);
						continue;
					}
					if !q.widen(floor).contains(*o) {
						let class = n.rf.class();
						let class = if class.is_empty() { String::new() } else { format!("/{class}") };
						// does the implementation-following variant explain it? then it is the recorded discrepancy
						let alt_ok = alt_v.as_ref().map(|a| a.get(i).map(|aq| !aq.is_defined() || aq.widen(floor).contains(*o)).unwrap_or(false)).unwrap_or(false);
						let which = if alt_ok { "differs-from-documented-formula/equals-implementation-reading" } else if alt_v.is_some() { "differs-from-formula/and-from-implementation-reading" } else { "differs-from-formula" };
						let f = failure(format!("{name}/value#{i}/{which}{class}"), || format!("value #{i} = {o:?}, formula {:?} ± {:.3e} (off by {:.3e})", q.v, q.r, (o - q.v).abs()));
						// the reference does not consume the implementation's values: exploration continues
						if cont.is_none() {
							cont = Some(f);
						}
					}
				}
			}
			Oracle::Signals => {
				let got = r.signals();
				if want_s.len() != got.len() {
					return Step::Violation(Failure::new(format!("{name}/signals/count"), format!("indicator returned {} signals, the documentation lists {}", got.len(), want_s.len())));
				}
				for (i, (w, g)) in want_s.iter().zip(got).enumerate() {
					let st = &self.stats[s.cfg][i];
					let gs = act_strength(g);
					if let Some(aw) = alt_s.as_ref().and_then(|a| a.get(i)) {
						if let (Some(d), Some(a), true) = (sig_match(w, gs), sig_match(aw, gs), i < 8) {
							if a && !d {
								n.took_alt |= 1 << i;
							}
							if d && !a {
								n.took_doc |= 1 << i;
							}
							if n.took_alt & n.took_doc & (1 << i) != 0 {
								n.took_alt &= !(1 << i);
								n.took_doc &= !(1 << i);
								let f = Failure::new(format!("{name}/signal#{i}/follows-neither-reading-consistently"), format!("signal #{i} = {g:?}: on this path the indicator has agreed with the documented rule where the recorded implementation reading differs AND with the implementation reading where the documented rule differs (documented {w:?}, implementation reading {aw:?}; own values {own:?})"));
								if cont.is_none() {
									cont = Some(f);
								}
							}
						}
					}
					match w {
						Sig::Any => {
							exempt = true;
							st.exempt.fetch_add(1, Ordering::Relaxed);
						}
						Sig::None => {
							st.silent.fetch_add(1, Ordering::Relaxed);
							if gs.is_some() && gs != Some(0) {
								let which = alt_class(&alt_s, i, gs);
								let f = failure(format!("{name}/signal#{i}/fires-without-condition{which}"), || format!("signal #{i} = {g:?}, documented rule says no signal (own values {own:?})"));
								if cont.is_none() {
									cont = Some(f);
								}
							}
						}
						Sig::S(k) => {
							if *k > 0 {
								st.buy.fetch_add(1, Ordering::Relaxed);
							} else if *k < 0 {
								st.sell.fetch_add(1, Ordering::Relaxed);
							} else {
								st.silent.fetch_add(1, Ordering::Relaxed);
							}
							let ok = match gs {
								Some(x) => x == *k,
								None => *k == 0,
							};
							if !ok {
								let kind = if gs.is_none() || gs == Some(0) { "silent-although-condition-holds" } else if gs.map(|x| x.signum()) != Some(k.signum()) { "wrong-direction" } else { "wrong-strength" };
								let which = alt_class(&alt_s, i, gs);
								let f = failure(format!("{name}/signal#{i}/{kind}{which}"), || format!("signal #{i} = {g:?}, documented rule gives strength {k} (own values {own:?})"));
								if cont.is_none() {
									cont = Some(f);
								}
							}
						}
					}
				}
			}
		}
		if let Some(f) = cont {
			return Step::ViolationContinue(n, f);
		}
		if exempt {
			Step::Exempt(n, "formula undefined / rule silent")
		} else {
			Step::Next(n)
		}
	}
}

/// does the observed strength satisfy an expectation? `None`: the expectation leaves it open
fn sig_match(w: &Sig, gs: Option<i32>) -> Option<bool> {
	match w {
		Sig::Any => None,
		Sig::None => Some(gs.is_none() || gs == Some(0)),
		Sig::S(k) => Some(match gs {
			Some(x) => x == *k,
			None => *k == 0,
		}),
	}
}

thread_local! { static SIG_SEEN: std::cell::RefCell<std::collections::HashMap<String, u32>> = std::cell::RefCell::new(Default::default()); }
/// A failure whose detail text is rendered only for the first 20 000 occurrences of its signature on
/// this worker thread: recorded findings fire tens of millions of times in the deviation systems and
/// rendering floats for every one of them dominated the run time. (A replay renders the detail again.)
fn failure(sig: String, detail: impl FnOnce() -> String) -> Failure {
	let n = SIG_SEEN.with(|m| {
		let mut m = m.borrow_mut();
		match m.get_mut(&sig) {
			Some(c) => {
				*c = c.saturating_add(1);
				*c
			}
			None => {
				m.insert(sig.clone(), 1);
				1
			}
		}
	});
	if n <= 20_000 {
		Failure::new(sig, detail())
	} else {
		Failure::new(sig, "(detail not rendered: more than 20000 occurrences of this signature on this worker; replay the path to see it)".to_string())
	}
}

/// "/equals-implementation-reading" when the implementation-following variant predicts the observed signal
fn alt_class(alt_s: &Option<Vec<Sig>>, i: usize, gs: Option<i32>) -> &'static str {
	match alt_s {
		None => "",
		Some(a) => match a.get(i) {
			Some(Sig::Any) => "/equals-implementation-reading",
			Some(Sig::None) if gs.is_none() || gs == Some(0) => "/equals-implementation-reading",
			Some(Sig::S(k)) if gs == Some(*k) || (gs.is_none() && *k == 0) => "/equals-implementation-reading",
			_ => "/and-differs-from-implementation-reading",
		},
	}
}

/// default config, a small-period config and MA-kind variants of every (or one) indicator
/// every integer parameter and MA length replaced by small values cycling through 2, 3, 4 from `start`
/// (each replacement kept only if the configuration still validates)
pub fn small_variant(c: &dyn IndCfg, start: u64) -> Box<dyn IndCfg> {
	let keys = json_map(&c.to_json().unwrap());
	let mut small = c.boxed_clone();
	let mut k = start;
	for (key, val) in &keys {
		if val.is_u64() {
			let mut t = small.boxed_clone();
			if t.set(key, format!("{}", k)).is_ok() && t.validate() {
				small = t;
				k = 2 + (k - 1) % 3;
			}
		} else if val.is_object() {
			let kind = val.as_object().unwrap().keys().next().unwrap().clone();
			let kind = if kind == "lin_reg" { "linreg".to_string() } else { kind };
			let mut t = small.boxed_clone();
			if t.set(key, format!("{kind}-{}", k + 1)).is_ok() && t.validate() {
				small = t;
				k = 2 + (k - 1) % 3;
			}
		}
	}
	small
}

/// default, and the small-period variants starting at 2, 3 and 4 (other parities / residues of every length)
pub fn indicator_configs_small3(name: &str) -> Vec<Box<dyn IndCfg>> {
	let mut v: Vec<Box<dyn IndCfg>> = vec![];
	for c in defaults() {
		if c.const_name() != name {
			continue;
		}
		v.push(c.boxed_clone());
		for start in [2u64, 3, 4] {
			let s = small_variant(c.as_ref(), start);
			if s.validate() && !v.iter().any(|x| x.to_json().ok() == s.to_json().ok()) {
				v.push(s);
			}
		}
	}
	v
}

pub fn indicator_configs(only: Option<&str>, with_kinds: bool) -> Vec<Box<dyn IndCfg>> {
	let mut v = vec![];
	for c in defaults() {
		if let Some(o) = only {
			if c.const_name() != o {
				continue;
			}
		}
		v.push(c.boxed_clone());
		let keys = json_map(&c.to_json().unwrap());
		let small = small_variant(c.as_ref(), 2);
		if small.validate() && small.to_json().ok() != c.to_json().ok() {
			v.push(small.boxed_clone());
		}
		if with_kinds {
			for (key, val) in &keys {
				if val.is_object() {
					for kind in crate::subj::MA_KINDS {
						let mut t = small.boxed_clone();
						let cur = json_map(&t.to_json().unwrap());
						let len = cur[key].as_object().and_then(|o| o.values().next().and_then(|x| x.as_u64())).unwrap_or(3);
						if t.set(key, format!("{kind}-{len}")).is_ok() && t.validate() && t.to_json().ok() != small.to_json().ok() {
							v.push(t);
						}
					}
				}
				if val.is_string() {
					for src in ["open", "high", "low", "hl2", "tp", "volume", "volumed_price", "close"] {
						let mut t = small.boxed_clone();
						if t.set(key, src.to_string()).is_ok() && t.validate() && t.to_json().ok() != small.to_json().ok() {
							v.push(t);
						}
					}
				}
			}
		}
	}
	v
}

/// Two events on a steady stream, as ONE macro transition per (kind, first amplitude, gap, second
/// amplitude): the high pushed up by a and the low pushed down by b (amplitudes from a short list), either
/// for one candle each ("spikes") or for good ("steps": a new level), in both orders, at every gap
/// 0..=`max_gap`, followed by `tail` steady candles. The oracle of the inner system runs after every
/// candle. (Outputs of two overshooting averages that cancel exactly, a quotient whose denominator passes
/// through zero: relations between two amplitudes and two ages that neither a short exhaustive depth
/// nor one deviation reaches.)
pub struct ImpulsePairs {
	pub inner: IndSys,
	pub k: usize,
	pub max_gap: usize,
	pub tail: usize,
}
impl ImpulsePairs {
	pub fn new(name: &str, cfgs: Vec<Box<dyn IndCfg>>, base: Candle, amps: &[f64], oracle: Oracle, max_gap: usize, tail: usize) -> Self {
		type V = yata::core::ValueType;
		let mut al = vec![base];
		for a in amps {
			al.push(Candle { high: base.high + *a as V, ..base });
		}
		for b in amps {
			al.push(Candle { low: base.low - *b as V, ..base });
		}
		for a in amps {
			for b in amps {
				al.push(Candle { high: base.high + *a as V, low: base.low - *b as V, ..base });
			}
		}
		Self { inner: IndSys::new(name, cfgs, vec![base], al, oracle, false), k: amps.len(), max_gap, tail }
	}
}
impl System for ImpulsePairs {
	type State = (IState, bool);
	/// (kind: 0 spikes high-then-low, 1 spikes low-then-high, 2 steps high-then-low, 3 steps low-then-high; a; gap; b)
	type Act = (u8, usize, usize, usize);
	fn name(&self) -> String {
		self.inner.name.clone()
	}
	fn inits(&self) -> Vec<((IState, bool), String)> {
		self.inner.inits().into_iter().map(|(s, l)| ((s, false), l)).collect()
	}
	fn actions(&self, s: &(IState, bool), _: u32) -> Vec<((u8, usize, usize, usize), u8)> {
		if s.1 {
			return vec![];
		}
		let mut v = vec![];
		for kind in 0..4u8 {
			for a in 0..self.k {
				for b in 0..self.k {
					for g in 0..=self.max_gap {
						v.push(((kind, a, g, b), 0));
					}
				}
			}
		}
		v
	}
	fn show_act(&self, a: &(u8, usize, usize, usize)) -> String {
		let what = ["spikes: high first, then low", "spikes: low first, then high", "steps: high first, then low", "steps: low first, then high"][a.0 as usize];
		format!("{what}; amplitude indices ({}, {}), gap {}: {:?}", a.1, a.3, a.2, self.sequence(a))
	}
	fn step(&self, s: &(IState, bool), a: &(u8, usize, usize, usize)) -> Step<(IState, bool)> {
		let seq = self.sequence(a);
		let mut st = s.0.clone();
		let mut exempt = None;
		for (i, x) in seq.iter().enumerate() {
			match self.inner.step(&st, x) {
				Step::Next(n) => st = n,
				Step::Exempt(n, w) => {
					st = n;
					exempt = Some(w);
				}
				Step::ViolationContinue(n, f) => {
					let _ = n;
					return Step::Violation(Failure::new(f.sig, format!("{} [candle {i} of the macro: {}]", f.detail, In::C(self.cand(*x)).show())));
				}
				Step::Violation(f) => return Step::Violation(Failure::new(f.sig, format!("{} [candle {i} of the macro: {}]", f.detail, In::C(self.cand(*x)).show()))),
				Step::Prune => return Step::Prune,
			}
		}
		match exempt {
			Some(w) => Step::Exempt((st, true), w),
			None => Step::Next((st, true)),
		}
	}
}
impl ImpulsePairs {
	fn cand(&self, x: usize) -> Candle {
		if x < self.inner.alphabet.len() { self.inner.alphabet[x] } else { self.inner.alphabet[0] }
	}
	/// action indices of the inner system (its alphabet: base, highs, lows, both)
	fn sequence(&self, a: &(u8, usize, usize, usize)) -> Vec<usize> {
		let k = self.k;
		let n = self.inner.alphabet.len();
		let (hi, lo, both) = (1 + a.1, 1 + k + a.3, 1 + 2 * k + a.1 * k + a.3);
		let mut seq = vec![n + 2, 0, 0];
		match a.0 {
			0 => {
				seq.push(hi);
				seq.extend(std::iter::repeat(0).take(a.2));
				seq.push(lo);
				seq.extend(std::iter::repeat(0).take(self.tail));
			}
			1 => {
				seq.push(lo);
				seq.extend(std::iter::repeat(0).take(a.2));
				seq.push(hi);
				seq.extend(std::iter::repeat(0).take(self.tail));
			}
			2 => {
				seq.extend(std::iter::repeat(hi).take(a.2 + 1));
				seq.extend(std::iter::repeat(both).take(self.tail));
			}
			_ => {
				seq.extend(std::iter::repeat(lo).take(a.2 + 1));
				seq.extend(std::iter::repeat(both).take(self.tail));
			}
		}
		seq
	}
}
