//! Cross-check of the own explorer against stateright (DESIGN §3.4): the same `System` (the real yata
//! code behind it) is explored by stateright's BFS checker and the number of distinct states must equal
//! the own engine's. Only for closure explorations of keyed systems (states merge by canonical key).
//!
//! stateright wants `'static` models and states; the adapter keeps the real product states in a side
//! table (key -> state) owned by this function and hands stateright only `(key, depth)`; the model
//! holds the address of that context and monomorphised plain function pointers.

use mccore::{Step, System};
use stateright::{Checker, Model, Property};
use std::collections::HashMap;
use std::hash::{Hash, Hasher};
use std::sync::Mutex;

#[derive(Clone, Debug)]
pub struct SrState {
	key: u128,
	depth: u32,
}
impl PartialEq for SrState {
	fn eq(&self, o: &Self) -> bool {
		self.key == o.key
	}
}
impl Eq for SrState {}
impl Hash for SrState {
	fn hash<H: Hasher>(&self, h: &mut H) {
		self.key.hash(h)
	}
}

struct Ctx<'a, S: System> {
	sys: &'a S,
	table: Mutex<HashMap<u128, S::State>>,
	keyless: std::sync::atomic::AtomicBool,
	transitions: std::sync::atomic::AtomicU64,
}

pub struct SrModel {
	ctx: usize,
	inits: fn(usize) -> Vec<SrState>,
	nacts: fn(usize, &SrState) -> usize,
	next: fn(usize, &SrState, usize) -> Option<SrState>,
}
impl Model for SrModel {
	type State = SrState;
	type Action = usize;
	fn init_states(&self) -> Vec<SrState> {
		(self.inits)(self.ctx)
	}
	fn actions(&self, s: &SrState, out: &mut Vec<usize>) {
		out.extend(0..(self.nacts)(self.ctx, s));
	}
	fn next_state(&self, s: &SrState, a: usize) -> Option<SrState> {
		(self.next)(self.ctx, s, a)
	}
	fn properties(&self) -> Vec<Property<Self>> {
		// never discovered: stateright then visits every reachable state
		vec![Property::always("exploration continues", |_, _| true)]
	}
}

fn ctx<'a, S: System>(p: usize) -> &'a Ctx<'a, S> {
	unsafe { &*(p as *const Ctx<'a, S>) }
}
fn put<S: System>(c: &Ctx<S>, st: S::State, depth: u32) -> Option<SrState> {
	let Some(key) = c.sys.key(&st) else {
		c.keyless.store(true, std::sync::atomic::Ordering::Relaxed);
		return None;
	};
	c.table.lock().unwrap().entry(key).or_insert(st);
	Some(SrState { key, depth })
}
fn inits_impl<S: System>(p: usize) -> Vec<SrState> {
	let c = ctx::<S>(p);
	c.sys.inits().into_iter().filter_map(|(s, _)| put(c, s, 0)).collect()
}
fn get<S: System>(c: &Ctx<S>, s: &SrState) -> S::State {
	c.table.lock().unwrap().get(&s.key).expect("state in table").clone()
}
fn nacts_impl<S: System>(p: usize, s: &SrState) -> usize {
	let c = ctx::<S>(p);
	let st = get(c, s);
	c.sys.actions(&st, s.depth).len()
}
fn next_impl<S: System>(p: usize, s: &SrState, a: usize) -> Option<SrState> {
	let c = ctx::<S>(p);
	let st = get(c, s);
	let acts = c.sys.actions(&st, s.depth);
	let (act, _) = acts.get(a)?;
	c.transitions.fetch_add(1, std::sync::atomic::Ordering::Relaxed);
	match c.sys.step(&st, act) {
		Step::Next(n) | Step::Exempt(n, _) | Step::ViolationContinue(n, _) => put(c, n, s.depth + 1),
		Step::Violation(_) | Step::Prune => None,
	}
}

pub struct XReport {
	pub unique_states: u64,
	pub transitions: u64,
	pub keyless: bool,
}

pub fn explore_with_stateright<S: System>(sys: &S) -> XReport {
	let c = Ctx { sys, table: Mutex::new(HashMap::new()), keyless: false.into(), transitions: 0.into() };
	let p = &c as *const Ctx<S> as usize;
	let model = SrModel { ctx: p, inits: inits_impl::<S>, nacts: nacts_impl::<S>, next: next_impl::<S> };
	// joined before `c` goes out of scope
	let checker = model.checker().threads(8).spawn_bfs().join();
	let r = XReport {
		unique_states: checker.unique_state_count() as u64,
		transitions: c.transitions.load(std::sync::atomic::Ordering::Relaxed),
		keyless: c.keyless.load(std::sync::atomic::Ordering::Relaxed),
	};
	drop(checker);
	r
}
