//! The batch / chunked / functional API surface of `Method` (over, call, apply, new_over,
//! new_apply, into_fn, new_fn, with_history, with_last_value) for every subject, to be
//! compared with element-by-element `next` (C09).

use crate::subj::{In, Out, Params};
use crate::{PeriodType, ValueType};
use std::fmt::Debug;
use yata::core::{Action, Candle, Method, Sequence};
use yata::helpers::{Buffered, Peekable};
use yata::methods::*;

pub const VARIANTS: [&str; 11] = ["over-chunks", "call-chunks", "apply-chunks", "new_over", "new_apply", "into_fn", "new_fn", "with_history", "with_last_value", "over-slice-ref", "mixed-next-over"];

/// splits xs at the cut positions (cuts are cumulative end indices, may repeat = empty chunks)
fn chunks<'a, T>(xs: &'a [T], cuts: &[usize]) -> Vec<&'a [T]> {
	let mut v = vec![];
	let mut s = 0;
	for &c in cuts {
		let c = c.min(xs.len()).max(s);
		v.push(&xs[s..c]);
		s = c;
	}
	v.push(&xs[s..]);
	v
}

/// Generic over methods with a Sized input whose sequences implement `Sequence` (values and candles).
fn api_sized<M>(variant: &str, params: M::Params, v0: &M::Input, xs: &[M::Input], cuts: &[usize]) -> Result<Option<Vec<M::Output>>, String>
where
	M: Method + Clone + 'static,
	M::Params: Clone,
	M::Input: Sized + Clone + 'static,
	M::Output: Clone + Debug,
	Vec<M::Input>: Sequence<M::Input>,
	for<'a> &'a [M::Input]: Sequence<M::Input>,
{
	let e = |e: yata::core::Error| format!("constructor error: {e:?}");
	match variant {
		"over-chunks" => {
			let mut m = M::new(params, v0).map_err(e)?;
			let mut out = vec![];
			for c in chunks(xs, cuts) {
				let r = m.over(c.to_vec());
				if r.len() != c.len() {
					return Err(format!("over() returned {} outputs for {} inputs", r.len(), c.len()));
				}
				out.extend(r);
			}
			Ok(Some(out))
		}
		"over-slice-ref" => {
			let mut m = M::new(params, v0).map_err(e)?;
			let mut out = vec![];
			for c in chunks(xs, cuts) {
				let r = m.over(c);
				if r.len() != c.len() {
					return Err(format!("over(&[..]) returned {} outputs for {} inputs", r.len(), c.len()));
				}
				out.extend(r);
			}
			Ok(Some(out))
		}
		"call-chunks" => {
			let mut m = M::new(params, v0).map_err(e)?;
			let mut out = vec![];
			for c in chunks(xs, cuts) {
				let v = c.to_vec();
				let r = v.call(&mut m);
				if r.len() != c.len() {
					return Err(format!("call() returned {} outputs for {} inputs", r.len(), c.len()));
				}
				out.extend(r);
			}
			Ok(Some(out))
		}
		"mixed-next-over" => {
			let mut m = M::new(params, v0).map_err(e)?;
			let mut out = vec![];
			for (i, c) in chunks(xs, cuts).into_iter().enumerate() {
				if i % 2 == 0 {
					for x in c {
						out.push(m.next(x));
					}
				} else {
					out.extend(m.over(c));
				}
			}
			Ok(Some(out))
		}
		"new_over" => {
			// new_over takes its construction value from the sequence itself
			if xs.is_empty() {
				let r = M::new_over(params, Vec::<M::Input>::new()).map_err(e)?;
				return if r.is_empty() { Ok(None) } else { Err("new_over on an empty sequence returned outputs".into()) };
			}
			Ok(None)
		}
		_ => api_fn::<M>(variant, params, v0, xs),
	}
}

/// The functional and wrapper forms: only need a Sized, clonable input.
fn api_fn<M>(variant: &str, params: M::Params, v0: &M::Input, xs: &[M::Input]) -> Result<Option<Vec<M::Output>>, String>
where
	M: Method + Clone + 'static,
	M::Params: Clone,
	M::Input: Sized + Clone + 'static,
	M::Output: Clone + Debug,
{
	let e = |e: yata::core::Error| format!("constructor error: {e:?}");
	match variant {
		"into_fn" => {
			let m = M::new(params, v0).map_err(e)?;
			let xs: &'static [M::Input] = Box::leak(xs.to_vec().into_boxed_slice());
			let mut f = m.into_fn();
			Ok(Some(xs.iter().map(|x| f(x)).collect()))
		}
		"new_fn" => {
			let xs: &'static [M::Input] = Box::leak(xs.to_vec().into_boxed_slice());
			let v0: &'static M::Input = Box::leak(Box::new(v0.clone()));
			let mut f = M::new_fn(params, v0).map_err(e)?;
			Ok(Some(xs.iter().map(|x| f(x)).collect()))
		}
		"with_history" => {
			let mut m = M::with_history(params, v0).map_err(e)?;
			let mut out = vec![];
			for x in xs {
				out.push(m.next(x));
				// get(i): i-th last output; iter(): all outputs so far
				for i in 0..out.len() {
					let g = Buffered::get(&m, i);
					let w = &out[out.len() - 1 - i];
					if g.as_ref().map(|v| format!("{v:?}")) != Some(format!("{w:?}")) {
						return Err(format!("WithHistory::get({i}) = {g:?}, expected {w:?}"));
					}
				}
				if m.get(out.len()).is_some() {
					return Err("WithHistory::get beyond the history returned a value".into());
				}
				let all: Vec<String> = m.iter().map(|v| format!("{v:?}")).collect();
				if all != out.iter().map(|v| format!("{v:?}")).collect::<Vec<_>>() {
					return Err("WithHistory::iter() differs from the outputs produced".into());
				}
			}
			Ok(Some(out))
		}
		"with_last_value" => {
			let mut m = M::with_last_value(params, v0).map_err(e)?;
			let mut out = vec![];
			for x in xs {
				let o = m.next(x);
				let p = Peekable::peek(&m);
				if format!("{p:?}") != format!("{o:?}") {
					return Err(format!("WithLastValue::peek() = {p:?} after next() returned {o:?}"));
				}
				out.push(o);
			}
			Ok(Some(out))
		}
		_ => Ok(None),
	}
}

/// new_over / new_apply: the construction value is the first element of the sequence
fn api_new_over<M>(params: M::Params, xs: &[M::Input]) -> Result<Vec<M::Output>, String>
where
	M: Method,
	M::Input: Sized + Clone,
	Vec<M::Input>: Sequence<M::Input>,
{
	let r = M::new_over(params, xs.to_vec()).map_err(|e| format!("constructor error: {e:?}"))?;
	if r.len() != xs.len() {
		return Err(format!("new_over() returned {} outputs for {} inputs", r.len(), xs.len()));
	}
	Ok(r)
}

fn api_apply<M>(variant: &str, params: M::Params, v0: &ValueType, xs: &[ValueType], cuts: &[usize]) -> Result<Option<Vec<ValueType>>, String>
where
	M: Method<Input = ValueType, Output = ValueType>,
{
	let e = |e: yata::core::Error| format!("constructor error: {e:?}");
	match variant {
		"apply-chunks" => {
			let mut m = M::new(params, v0).map_err(e)?;
			let mut out = vec![];
			for c in chunks(xs, cuts) {
				let mut v = c.to_vec();
				if out.len() % 2 == 0 {
					m.apply(&mut v);
				} else {
					v.apply(&mut m);
				}
				out.extend(v);
			}
			Ok(Some(out))
		}
		"new_apply" => {
			let mut v = xs.to_vec();
			M::new_apply(params, &mut v).map_err(e)?;
			if v.len() != xs.len() {
				return Err("new_apply changed the length".into());
			}
			Ok(Some(v))
		}
		_ => Ok(None),
	}
}

fn vs(xs: &[In]) -> Vec<ValueType> {
	xs.iter().map(|i| i.v()).collect()
}
fn ps(xs: &[In]) -> Vec<(ValueType, ValueType)> {
	xs.iter()
		.map(|i| match i {
			In::P(a, b) => (*a, *b),
			o => (o.v(), o.v()),
		})
		.collect()
}
fn cs(xs: &[In]) -> Vec<Candle> {
	xs.iter()
		.map(|i| match i {
			In::C(c) => *c,
			o => crate::subj::dummy_candle(o.v()),
		})
		.collect()
}

/// Result: Ok(Some(outputs)) / Ok(None) = variant not applicable to this subject / Err = API contract broken.
/// `first_is_v0`: for new_over/new_apply the sequence supplies the construction value; the caller passes xs[0] == v0.
pub fn run_api(name: &str, variant: &str, p: &Params, v0: &In, xs: &[In], cuts: &[usize]) -> Result<Option<Vec<Out>>, String> {
	macro_rules! vv {
		($t:ty) => {{
			let Params::N(n) = p else { return Ok(None) };
			let x = vs(xs);
			let v = v0.v();
			let r = match variant {
				"apply-chunks" | "new_apply" => {
					if variant == "new_apply" && (x.is_empty() || x[0].to_bits() != v.to_bits()) {
						return Ok(None);
					}
					api_apply::<$t>(variant, *n, &v, &x, cuts)?
				}
				"new_over" if !x.is_empty() && x[0].to_bits() == v.to_bits() => Some(api_new_over::<$t>(*n, &x)?),
				_ => api_sized::<$t>(variant, *n, &v, &x, cuts)?,
			};
			Ok(r.map(|o| o.into_iter().map(Out::V).collect()))
		}};
	}
	macro_rules! vidx {
		($t:ty) => {{
			let Params::N(n) = p else { return Ok(None) };
			let x = vs(xs);
			let v = v0.v();
			let r = match variant {
				"new_over" if !x.is_empty() && x[0].to_bits() == v.to_bits() => Some(api_new_over::<$t>(*n, &x)?),
				_ => api_sized::<$t>(variant, *n, &v, &x, cuts)?,
			};
			Ok(r.map(|o| o.into_iter().map(|i| Out::I(i as u64)).collect()))
		}};
	}
	macro_rules! rev {
		($t:ty) => {{
			let Params::NN(a, b) = p else { return Ok(None) };
			let x = vs(xs);
			let v = v0.v();
			let r = match variant {
				"new_over" if !x.is_empty() && x[0].to_bits() == v.to_bits() => Some(api_new_over::<$t>((*a, *b), &x)?),
				_ => api_sized::<$t>(variant, (*a, *b), &v, &x, cuts)?,
			};
			Ok(r.map(|o: Vec<Action>| o.into_iter().map(Out::A).collect()))
		}};
	}
	macro_rules! cross {
		($t:ty) => {{
			let x = ps(xs);
			let In::P(a, b) = v0 else { return Ok(None) };
			let v = (*a, *b);
			// sequences of pairs do not implement `Sequence`: only the functional / wrapper forms exist
			let _ = cuts;
			let r = api_fn::<$t>(variant, (), &v, &x)?;
			Ok(r.map(|o: Vec<Action>| o.into_iter().map(Out::A).collect()))
		}};
	}
	match name {
		"SMA" => vv!(SMA),
		"WMA" => vv!(WMA),
		"SWMA" => vv!(SWMA),
		"TRIMA" => vv!(TRIMA),
		"HMA" => vv!(HMA),
		"LinReg" => vv!(LinReg),
		"EMA" => vv!(EMA),
		"DMA" => vv!(DMA),
		"TMA" => vv!(TMA),
		"DEMA" => vv!(DEMA),
		"TEMA" => vv!(TEMA),
		"WSMA" => vv!(WSMA),
		"RMA" => vv!(RMA),
		"SMM" => vv!(SMM),
		"Vidya" => vv!(Vidya),
		"Derivative" => vv!(Derivative),
		"Integral" => vv!(Integral),
		"Momentum" => vv!(Momentum),
		"RateOfChange" => vv!(RateOfChange),
		"StDev" => vv!(StDev),
		"LinearVolatility" => vv!(LinearVolatility),
		"CCI" => vv!(CCI),
		"MeanAbsDev" => vv!(MeanAbsDev),
		"MedianAbsDev" => vv!(MedianAbsDev),
		"Highest" => vv!(Highest),
		"Lowest" => vv!(Lowest),
		"HighestLowestDelta" => vv!(HighestLowestDelta),
		"Past" => vv!(Past<ValueType>),
		"HighestIndex" => vidx!(HighestIndex),
		"LowestIndex" => vidx!(LowestIndex),
		"ReversalSignal" => rev!(ReversalSignal),
		"UpperReversalSignal" => rev!(UpperReversalSignal),
		"LowerReversalSignal" => rev!(LowerReversalSignal),
		"Cross" => cross!(Cross),
		"CrossAbove" => cross!(CrossAbove),
		"CrossUnder" => cross!(CrossUnder),
		"Conv" => {
			let Params::W(w) = p else { return Ok(None) };
			let x = vs(xs);
			let v = v0.v();
			let r = match variant {
				"apply-chunks" | "new_apply" => {
					if variant == "new_apply" && (x.is_empty() || x[0].to_bits() != v.to_bits()) {
						return Ok(None);
					}
					api_apply::<Conv>(variant, w.clone(), &v, &x, cuts)?
				}
				"new_over" if !x.is_empty() && x[0].to_bits() == v.to_bits() => Some(api_new_over::<Conv>(w.clone(), &x)?),
				_ => api_sized::<Conv>(variant, w.clone(), &v, &x, cuts)?,
			};
			Ok(r.map(|o| o.into_iter().map(Out::V).collect()))
		}
		"TSI" => {
			let Params::NN(a, b) = p else { return Ok(None) };
			let x = vs(xs);
			let v = v0.v();
			let r = match variant {
				"apply-chunks" | "new_apply" => {
					if variant == "new_apply" && (x.is_empty() || x[0].to_bits() != v.to_bits()) {
						return Ok(None);
					}
					api_apply::<TSI>(variant, (*a, *b), &v, &x, cuts)?
				}
				"new_over" if !x.is_empty() && x[0].to_bits() == v.to_bits() => Some(api_new_over::<TSI>((*a, *b), &x)?),
				_ => api_sized::<TSI>(variant, (*a, *b), &v, &x, cuts)?,
			};
			Ok(r.map(|o| o.into_iter().map(Out::V).collect()))
		}
		"VWMA" => {
			let Params::N(n) = p else { return Ok(None) };
			let x = ps(xs);
			let In::P(a, b) = v0 else { return Ok(None) };
			let v = (*a, *b);
			let r = api_fn::<VWMA>(variant, *n, &v, &x)?;
			Ok(r.map(|o| o.into_iter().map(Out::V).collect()))
		}
		"CollapseTimeframe" => {
			let Params::U(n) = p else { return Ok(None) };
			let x = cs(xs);
			let In::C(v) = v0 else { return Ok(None) };
			let r = match variant {
				"new_over" if !x.is_empty() && x[0] == *v => Some(api_new_over::<CollapseTimeframe<Candle>>(*n, &x)?),
				_ => api_sized::<CollapseTimeframe<Candle>>(variant, *n, v, &x, cuts)?,
			};
			Ok(r.map(|o| o.into_iter().map(Out::OC).collect()))
		}
		// input type `dyn OHLCV` (unsized): only the functional and wrapper forms exist
		"ADI" | "TR" | "HeikinAshi" | "Renko" => {
			let x = cs(xs);
			let In::C(v) = v0 else { return Ok(None) };
			unsized_api(name, variant, p, v, &x)
		}
		_ => Ok(None),
	}
}

fn unsized_api(name: &str, variant: &str, p: &Params, v0: &Candle, xs: &[Candle]) -> Result<Option<Vec<Out>>, String> {
	use yata::core::OHLCV;
	let e = |e: yata::core::Error| format!("constructor error: {e:?}");
	fn conv_r(o: yata::methods::renko::RenkoOutput) -> Out {
		let len = o.len();
		Out::R(len, o.take(64).map(|b| (b.open, b.close, b.volume)).collect())
	}
	macro_rules! go {
		($t:ty, $params:expr, $conv:expr) => {{
			match variant {
				"into_fn" => {
					let m = <$t as Method>::new($params, v0).map_err(e)?;
					let xs: &'static [Candle] = Box::leak(xs.to_vec().into_boxed_slice());
					let mut f = m.into_fn();
					Ok(Some(xs.iter().map(|x| $conv(f(x as &dyn OHLCV))).collect()))
				}
				"with_history" => {
					let mut m = <$t as Method>::with_history($params, v0 as &dyn OHLCV).map_err(e)?;
					let mut out: Vec<Out> = vec![];
					for x in xs {
						out.push($conv(m.next(x)));
						if m.iter().count() != out.len() {
							return Err("WithHistory::iter() length differs from the number of outputs".into());
						}
					}
					Ok(Some(out))
				}
				"with_last_value" => {
					let mut m = <$t as Method>::with_last_value($params, v0 as &dyn OHLCV).map_err(e)?;
					let mut out: Vec<Out> = vec![];
					for x in xs {
						let o = $conv(m.next(x));
						let pk = $conv(Peekable::peek(&m));
						if !pk.same_bits(&o) {
							return Err(format!("WithLastValue::peek() = {} after next() returned {}", pk.show(), o.show()));
						}
						out.push(o);
					}
					Ok(Some(out))
				}
				_ => Ok(None),
			}
		}};
	}
	match name {
		"ADI" => {
			let Params::N(n) = p else { return Ok(None) };
			go!(ADI, *n, Out::V)
		}
		"TR" => go!(TR, (), Out::V),
		"HeikinAshi" => go!(HeikinAshi, (), Out::C),
		"Renko" => {
			let Params::Renko(s, src) = p else { return Ok(None) };
			go!(Renko, (*s, *src), conv_r)
		}
		_ => Ok(None),
	}
}

#[allow(unused)]
fn _t(_: PeriodType) {}
