//! A tiny lossless serde data format (a token stream) with two flavours:
//!   * `Flavour::Positional` - bincode / postcard like: structs are the plain sequence of their fields in the
//!     order `Serialize` emits them, read back in the order `Deserialize` declares them;
//!   * `Flavour::Named` - JSON like: every struct is a map field name -> value.
//! Floats are carried by their bit patterns, so NaN and the infinities survive (unlike JSON).
//! Written by a helper agent as part of a seeded-change demonstration (round 5, C13) and adopted here so that
//! C13 can restore snapshots through a positional format as well.
#![allow(dead_code)]

use serde::de::{self, DeserializeOwned, DeserializeSeed, IntoDeserializer, Visitor};
use serde::ser::{self, Serialize};
use std::fmt;
// a tiny serde data format
// ------------------------------------------------------------------------------------------------

#[derive(Debug, Clone, Copy, PartialEq, Eq)]
pub enum Flavour {
	Positional,
	Named,
}

#[derive(Debug, Clone, PartialEq)]
pub enum Tok {
	Bool(bool),
	U(u64),
	I(i64),
	F32(u32),
	F64(u64),
	Str(String),
	None,
	Some,
	Unit,
	Seq(usize),
	Map(usize),
	Key(String),
	Variant(u32, String),
}

#[derive(Debug)]
pub struct CodecError(pub String);

impl fmt::Display for CodecError {
	fn fmt(&self, f: &mut fmt::Formatter<'_>) -> fmt::Result {
		f.write_str(&self.0)
	}
}

impl std::error::Error for CodecError {}

impl ser::Error for CodecError {
	fn custom<T: fmt::Display>(msg: T) -> Self {
		Self(msg.to_string())
	}
}

impl de::Error for CodecError {
	fn custom<T: fmt::Display>(msg: T) -> Self {
		Self(msg.to_string())
	}
}

struct Ser {
	flavour: Flavour,
	out: Vec<Tok>,
}

struct Compound<'a> {
	ser: &'a mut Ser,
	// position of a `Seq`/`Map` token whose length has to be patched at the end
	patch: Option<usize>,
	count: usize,
}

impl<'a> ser::Serializer for &'a mut Ser {
	type Ok = ();
	type Error = CodecError;
	type SerializeSeq = Compound<'a>;
	type SerializeTuple = Compound<'a>;

	type SerializeTupleStruct = Compound<'a>;
	type SerializeTupleVariant = Compound<'a>;
	type SerializeMap = Compound<'a>;
	type SerializeStruct = Compound<'a>;
	type SerializeStructVariant = Compound<'a>;

	/// the positional flavour stands for the compact binary formats (bincode, postcard): not human readable
	fn is_human_readable(&self) -> bool {
		self.flavour == Flavour::Named
	}

	fn serialize_bool(self, v: bool) -> Result<(), CodecError> {
		self.out.push(Tok::Bool(v));
		Ok(())
	}
	fn serialize_i8(self, v: i8) -> Result<(), CodecError> {
		self.serialize_i64(v.into())
	}
	fn serialize_i16(self, v: i16) -> Result<(), CodecError> {
		self.serialize_i64(v.into())
	}
	fn serialize_i32(self, v: i32) -> Result<(), CodecError> {
		self.serialize_i64(v.into())
	}
	fn serialize_i64(self, v: i64) -> Result<(), CodecError> {
		self.out.push(Tok::I(v));
		Ok(())
	}
	fn serialize_u8(self, v: u8) -> Result<(), CodecError> {
		self.serialize_u64(v.into())
	}
	fn serialize_u16(self, v: u16) -> Result<(), CodecError> {
		self.serialize_u64(v.into())
	}
	fn serialize_u32(self, v: u32) -> Result<(), CodecError> {
		self.serialize_u64(v.into())
	}
	fn serialize_u64(self, v: u64) -> Result<(), CodecError> {
		self.out.push(Tok::U(v));
		Ok(())
	}
	fn serialize_f32(self, v: f32) -> Result<(), CodecError> {
		self.out.push(Tok::F32(v.to_bits()));
		Ok(())
	}
	fn serialize_f64(self, v: f64) -> Result<(), CodecError> {
		self.out.push(Tok::F64(v.to_bits()));
		Ok(())
	}
	fn serialize_char(self, v: char) -> Result<(), CodecError> {
		self.out.push(Tok::Str(v.to_string()));
		Ok(())
	}
	fn serialize_str(self, v: &str) -> Result<(), CodecError> {
		self.out.push(Tok::Str(v.to_string()));
		Ok(())
	}
	fn serialize_bytes(self, v: &[u8]) -> Result<(), CodecError> {
		self.out.push(Tok::Seq(v.len()));
		for &b in v {
			self.out.push(Tok::U(b.into()));
		}
		Ok(())
	}
	fn serialize_none(self) -> Result<(), CodecError> {
		self.out.push(Tok::None);
		Ok(())
	}
	fn serialize_some<T: ?Sized + Serialize>(self, value: &T) -> Result<(), CodecError> {
		self.out.push(Tok::Some);
		value.serialize(self)
	}
	fn serialize_unit(self) -> Result<(), CodecError> {
		self.out.push(Tok::Unit);
		Ok(())
	}
	fn serialize_unit_struct(self, _name: &'static str) -> Result<(), CodecError> {
		self.serialize_unit()
	}
	fn serialize_unit_variant(
		self,
		_name: &'static str,
		index: u32,
		variant: &'static str,
	) -> Result<(), CodecError> {
		self.out.push(Tok::Variant(index, variant.to_string()));
		Ok(())
	}
	fn serialize_newtype_struct<T: ?Sized + Serialize>(
		self,
		_name: &'static str,
		value: &T,
	) -> Result<(), CodecError> {
		value.serialize(self)
	}
	fn serialize_newtype_variant<T: ?Sized + Serialize>(
		self,
		_name: &'static str,
		index: u32,
		variant: &'static str,
		value: &T,
	) -> Result<(), CodecError> {
		self.out.push(Tok::Variant(index, variant.to_string()));
		value.serialize(self)
	}
	fn serialize_seq(self, len: Option<usize>) -> Result<Compound<'a>, CodecError> {
		let patch = Some(self.out.len());
		self.out.push(Tok::Seq(len.unwrap_or(0)));
		Ok(Compound {
			ser: self,
			patch,
			count: 0,
		})
	}
	fn serialize_tuple(self, _len: usize) -> Result<Compound<'a>, CodecError> {
		Ok(Compound {
			ser: self,
			patch: None,
			count: 0,
		})
	}
	fn serialize_tuple_struct(
		self,
		_name: &'static str,
		len: usize,
	) -> Result<Compound<'a>, CodecError> {
		self.serialize_tuple(len)
	}
	fn serialize_tuple_variant(
		self,
		_name: &'static str,
		index: u32,
		variant: &'static str,
		len: usize,
	) -> Result<Compound<'a>, CodecError> {
		self.out.push(Tok::Variant(index, variant.to_string()));
		self.serialize_tuple(len)
	}
	fn serialize_map(self, len: Option<usize>) -> Result<Compound<'a>, CodecError> {
		let patch = Some(self.out.len());
		self.out.push(Tok::Map(len.unwrap_or(0)));
		Ok(Compound {
			ser: self,
			patch,
			count: 0,
		})
	}
	fn serialize_struct(
		self,
		_name: &'static str,
		_len: usize,
	) -> Result<Compound<'a>, CodecError> {
		match self.flavour {
			// bincode-like: a struct is just its fields, one after another
			Flavour::Positional => Ok(Compound {
				ser: self,
				patch: None,
				count: 0,
			}),
			// JSON-like: a struct is a map
			Flavour::Named => {
				let patch = Some(self.out.len());
				self.out.push(Tok::Map(0));
				Ok(Compound {
					ser: self,
					patch,
					count: 0,
				})
			}
		}
	}
	fn serialize_struct_variant(
		self,
		name: &'static str,
		index: u32,
		variant: &'static str,
		len: usize,
	) -> Result<Compound<'a>, CodecError> {
		self.out.push(Tok::Variant(index, variant.to_string()));
		self.serialize_struct(name, len)
	}
}

impl<'a> Compound<'a> {
	fn element<T: ?Sized + Serialize>(&mut self, value: &T) -> Result<(), CodecError> {
		self.count += 1;
		value.serialize(&mut *self.ser)
	}

	fn finish(self) -> Result<(), CodecError> {
		if let Some(at) = self.patch {
			let count = self.count;
			match &mut self.ser.out[at] {
				Tok::Seq(n) | Tok::Map(n) => *n = count,
				_ => return Err(CodecError("broken patch position".into())),
			}
		}
		Ok(())
	}
}

impl<'a> ser::SerializeSeq for Compound<'a> {
	type Ok = ();
	type Error = CodecError;
	fn serialize_element<T: ?Sized + Serialize>(&mut self, value: &T) -> Result<(), CodecError> {
		self.element(value)
	}
	fn end(self) -> Result<(), CodecError> {
		self.finish()
	}
}

impl<'a> ser::SerializeTuple for Compound<'a> {
	type Ok = ();
	type Error = CodecError;
	fn serialize_element<T: ?Sized + Serialize>(&mut self, value: &T) -> Result<(), CodecError> {
		self.element(value)
	}
	fn end(self) -> Result<(), CodecError> {
		self.finish()
	}
}

impl<'a> ser::SerializeTupleStruct for Compound<'a> {
	type Ok = ();
	type Error = CodecError;
	fn serialize_field<T: ?Sized + Serialize>(&mut self, value: &T) -> Result<(), CodecError> {
		self.element(value)
	}
	fn end(self) -> Result<(), CodecError> {
		self.finish()
	}
}

impl<'a> ser::SerializeTupleVariant for Compound<'a> {
	type Ok = ();
	type Error = CodecError;
	fn serialize_field<T: ?Sized + Serialize>(&mut self, value: &T) -> Result<(), CodecError> {
		self.element(value)
	}
	fn end(self) -> Result<(), CodecError> {
		self.finish()
	}
}

impl<'a> ser::SerializeMap for Compound<'a> {
	type Ok = ();
	type Error = CodecError;
	fn serialize_key<T: ?Sized + Serialize>(&mut self, key: &T) -> Result<(), CodecError> {
		self.count += 1;
		key.serialize(&mut *self.ser)
	}
	fn serialize_value<T: ?Sized + Serialize>(&mut self, value: &T) -> Result<(), CodecError> {
		value.serialize(&mut *self.ser)
	}
	fn end(self) -> Result<(), CodecError> {
		self.finish()
	}
}

impl<'a> ser::SerializeStruct for Compound<'a> {
	type Ok = ();
	type Error = CodecError;
	fn serialize_field<T: ?Sized + Serialize>(
		&mut self,
		key: &'static str,
		value: &T,
	) -> Result<(), CodecError> {
		if self.ser.flavour == Flavour::Named {
			self.ser.out.push(Tok::Key(key.to_string()));
		}
		self.element(value)
	}
	fn end(self) -> Result<(), CodecError> {
		self.finish()
	}
}

impl<'a> ser::SerializeStructVariant for Compound<'a> {
	type Ok = ();
	type Error = CodecError;
	fn serialize_field<T: ?Sized + Serialize>(
		&mut self,
		key: &'static str,
		value: &T,
	) -> Result<(), CodecError> {
		ser::SerializeStruct::serialize_field(self, key, value)
	}
	fn end(self) -> Result<(), CodecError> {
		self.finish()
	}
}

struct De<'t> {
	flavour: Flavour,
	toks: &'t [Tok],
	pos: usize,
}

impl<'t> De<'t> {
	fn peek(&self) -> Result<&'t Tok, CodecError> {
		self.toks
			.get(self.pos)
			.ok_or_else(|| CodecError("unexpected end of the snapshot".into()))
	}

	fn bump(&mut self) -> Result<&'t Tok, CodecError> {
		let tok = self.peek()?;
		self.pos += 1;
		Ok(tok)
	}
}

struct Counted<'a, 't> {
	de: &'a mut De<'t>,
	left: usize,
}

impl<'de, 'a, 't> de::SeqAccess<'de> for Counted<'a, 't> {
	type Error = CodecError;

	fn next_element_seed<S: DeserializeSeed<'de>>(
		&mut self,
		seed: S,
	) -> Result<Option<S::Value>, CodecError> {
		if self.left == 0 {
			return Ok(None);
		}
		self.left -= 1;
		seed.deserialize(&mut *self.de).map(Some)
	}

	fn size_hint(&self) -> Option<usize> {
		Some(self.left)
	}
}

impl<'de, 'a, 't> de::MapAccess<'de> for Counted<'a, 't> {
	type Error = CodecError;

	fn next_key_seed<S: DeserializeSeed<'de>>(
		&mut self,
		seed: S,
	) -> Result<Option<S::Value>, CodecError> {
		if self.left == 0 {
			return Ok(None);
		}
		self.left -= 1;
		seed.deserialize(&mut *self.de).map(Some)
	}

	fn next_value_seed<S: DeserializeSeed<'de>>(&mut self, seed: S) -> Result<S::Value, CodecError> {
		seed.deserialize(&mut *self.de)
	}
}

struct Enum<'a, 't> {
	de: &'a mut De<'t>,
}

impl<'de, 'a, 't> de::EnumAccess<'de> for Enum<'a, 't> {
	type Error = CodecError;
	type Variant = Self;

	fn variant_seed<S: DeserializeSeed<'de>>(self, seed: S) -> Result<(S::Value, Self), CodecError> {
		let value = match self.de.bump()? {
			Tok::Variant(index, name) => match self.de.flavour {
				Flavour::Positional => seed.deserialize((*index).into_deserializer())?,
				Flavour::Named => seed.deserialize(name.as_str().into_deserializer())?,
			},
			other => return Err(CodecError(format!("expected an enum variant, found {other:?}"))),
		};
		Ok((value, self))
	}
}

impl<'de, 'a, 't> de::VariantAccess<'de> for Enum<'a, 't> {
	type Error = CodecError;

	fn unit_variant(self) -> Result<(), CodecError> {
		Ok(())
	}

	fn newtype_variant_seed<S: DeserializeSeed<'de>>(self, seed: S) -> Result<S::Value, CodecError> {
		seed.deserialize(self.de)
	}

	fn tuple_variant<V: Visitor<'de>>(self, len: usize, visitor: V) -> Result<V::Value, CodecError> {
		de::Deserializer::deserialize_tuple(self.de, len, visitor)
	}

	fn struct_variant<V: Visitor<'de>>(
		self,
		fields: &'static [&'static str],
		visitor: V,
	) -> Result<V::Value, CodecError> {
		de::Deserializer::deserialize_struct(self.de, "", fields, visitor)
	}
}

impl<'de, 'a, 't> de::Deserializer<'de> for &'a mut De<'t> {
	type Error = CodecError;

	/// the positional flavour stands for the compact binary formats (bincode, postcard): not human readable
	fn is_human_readable(&self) -> bool {
		self.flavour == Flavour::Named
	}

	fn deserialize_any<V: Visitor<'de>>(self, visitor: V) -> Result<V::Value, CodecError> {
		match self.bump()? {
			Tok::Bool(v) => visitor.visit_bool(*v),
			Tok::U(v) => visitor.visit_u64(*v),
			Tok::I(v) => visitor.visit_i64(*v),
			Tok::F32(v) => visitor.visit_f32(f32::from_bits(*v)),
			Tok::F64(v) => visitor.visit_f64(f64::from_bits(*v)),
			Tok::Str(v) | Tok::Key(v) => visitor.visit_str(v),
			Tok::Unit => visitor.visit_unit(),
			Tok::None => visitor.visit_none(),
			Tok::Some => visitor.visit_some(self),
			Tok::Seq(n) => visitor.visit_seq(Counted { de: self, left: *n }),
			Tok::Map(n) => visitor.visit_map(Counted { de: self, left: *n }),
			other @ Tok::Variant(..) => Err(CodecError(format!("unexpected {other:?}"))),
		}
	}

	fn deserialize_option<V: Visitor<'de>>(self, visitor: V) -> Result<V::Value, CodecError> {
		match self.bump()? {
			Tok::None => visitor.visit_none(),
			Tok::Some => visitor.visit_some(self),
			other => Err(CodecError(format!("expected an option, found {other:?}"))),
		}
	}

	fn deserialize_seq<V: Visitor<'de>>(self, visitor: V) -> Result<V::Value, CodecError> {
		match self.bump()? {
			Tok::Seq(n) => visitor.visit_seq(Counted { de: self, left: *n }),
			other => Err(CodecError(format!("expected a sequence, found {other:?}"))),
		}
	}

	fn deserialize_tuple<V: Visitor<'de>>(self, len: usize, visitor: V) -> Result<V::Value, CodecError> {
		visitor.visit_seq(Counted { de: self, left: len })
	}

	fn deserialize_tuple_struct<V: Visitor<'de>>(
		self,
		_name: &'static str,
		len: usize,
		visitor: V,
	) -> Result<V::Value, CodecError> {
		self.deserialize_tuple(len, visitor)
	}

	fn deserialize_newtype_struct<V: Visitor<'de>>(
		self,
		_name: &'static str,
		visitor: V,
	) -> Result<V::Value, CodecError> {
		visitor.visit_newtype_struct(self)
	}

	fn deserialize_struct<V: Visitor<'de>>(
		self,
		_name: &'static str,
		fields: &'static [&'static str],
		visitor: V,
	) -> Result<V::Value, CodecError> {
		match self.flavour {
			Flavour::Positional => self.deserialize_tuple(fields.len(), visitor),
			Flavour::Named => match self.bump()? {
				Tok::Map(n) => visitor.visit_map(Counted { de: self, left: *n }),
				other => Err(CodecError(format!("expected a struct, found {other:?}"))),
			},
		}
	}

	fn deserialize_enum<V: Visitor<'de>>(
		self,
		_name: &'static str,
		_variants: &'static [&'static str],
		visitor: V,
	) -> Result<V::Value, CodecError> {
		visitor.visit_enum(Enum { de: self })
	}

	serde::forward_to_deserialize_any! {
		bool i8 i16 i32 i64 i128 u8 u16 u32 u64 u128 f32 f64 char str string
		bytes byte_buf unit unit_struct map identifier ignored_any
	}
}

pub fn snapshot<T: Serialize>(value: &T, flavour: Flavour) -> Vec<Tok> {
	let mut ser = Ser {
		flavour,
		out: Vec::new(),
	};
	value
		.serialize(&mut ser)
		.expect("serialization into the token stream cannot fail");
	ser.out
}

pub fn restore<T: DeserializeOwned>(toks: &[Tok], flavour: Flavour) -> Result<T, CodecError> {
	let mut de = De {
		flavour,
		toks,
		pos: 0,
	};
	let value = T::deserialize(&mut de)?;
	if de.pos != toks.len() {
		return Err(CodecError(format!(
			"{} trailing tokens left in the snapshot",
			toks.len() - de.pos
		)));
	}
	Ok(value)
}
