//! Alphabets (DESIGN.md §5.2). Ordered simplest-first.
use crate::{ValueType, IS_F32};

pub fn big() -> f64 {
	if IS_F32 { 256.0 } else { 1048576.0 }
}
pub fn tiny() -> f64 {
	1.0 / big()
}
/// exact-arithmetic alphabet
pub fn v_arith() -> Vec<ValueType> {
	vec![0.0, 1.0, -3.0, big() as ValueType, tiny() as ValueType]
}
/// rounding-active alphabet (chosen by search, DESIGN §5.2)
pub fn v_round() -> Vec<ValueType> {
	vec![1.0, 1.1, 0.7, 1.3, 0.9, 1.7]
}
pub fn v_round3() -> Vec<ValueType> {
	vec![1.0, 0.9, 1.7]
}
/// comparison-only alphabet for a window of length n
pub fn v_order(n: usize) -> Vec<ValueType> {
	let mut v: Vec<ValueType> = vec![0.0, 1.0];
	for k in 2..=n.min(4) {
		v.push(k as ValueType);
	}
	v.push(-0.0);
	v.push(-1.0);
	v
}

use yata::core::Candle;

pub fn candle(o: f64, h: f64, l: f64, c: f64, v: f64) -> Candle {
	Candle { open: o as ValueType, high: h as ValueType, low: l as ValueType, close: c as ValueType, volume: v as ValueType }
}
/// candle alphabet K (all valid): flat, up, down, gap with zero volume, doji, non-dyadic
pub fn k_candles() -> Vec<Candle> {
	vec![
		candle(10., 10., 10., 10., 8.),
		candle(10., 12., 9., 11., 16.),
		candle(11., 12., 8., 9., 4.),
		candle(20., 24., 18., 22., 0.),
		candle(11., 13., 9., 11., 32.),
		candle(10.1, 10.7, 9.3, 10.3, 1.7),
	]
}
