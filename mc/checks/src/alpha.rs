//! Alphabets (DESIGN.md §5.2). Ordered simplest-first.
use crate::{ValueType, IS_F32};

pub fn big() -> f64 {
	if IS_F32 { 256.0 } else { 1048576.0 }
}
pub fn tiny() -> f64 {
	1.0 / big()
}
/// exact-arithmetic alphabet
pub fn v_arith() -> Vec<ValueType> {
	vec![0.0, 1.0, -3.0, big() as ValueType, tiny() as ValueType]
}
/// rounding-active alphabet (chosen by search, DESIGN §5.2)
pub fn v_round() -> Vec<ValueType> {
	vec![1.0, 1.1, 0.7, 1.3, 0.9, 1.7]
}
pub fn v_round3() -> Vec<ValueType> {
	vec![1.0, 0.9, 1.7]
}
/// comparison-only alphabet for a window of length n
pub fn v_order(n: usize) -> Vec<ValueType> {
	let mut v: Vec<ValueType> = vec![0.0, 1.0];
	for k in 2..=n.min(4) {
		v.push(k as ValueType);
	}
	v.push(-0.0);
	v.push(-1.0);
	v
}
