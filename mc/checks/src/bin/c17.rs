//! C17 — timeseries converters keep the information they claim to keep.

use checks::subj::*;
use checks::*;
use yata::core::{Candle, Method, Sequence, Source, OHLCV};
use yata::methods::Renko;

type V = ValueType;

fn cd(o: f64, h: f64, l: f64, c: f64, v: f64) -> Candle {
	Candle { open: o as V, high: h as V, low: l as V, close: c as V, volume: v as V }
}
fn k_candles() -> Vec<Candle> {
	vec![cd(10., 10., 10., 10., 8.), cd(10., 12., 9., 11., 16.), cd(11., 12., 8., 9., 4.), cd(20., 24., 18., 22., 0.), cd(11., 13., 9., 11., 32.)]
}
fn show(c: &Candle) -> String {
	In::C(*c).show()
}
fn bits_eq(a: &Candle, b: &Candle) -> bool {
	a == b
}

// ------------------------------------------------------------------ CollapseTimeframe

#[derive(Clone)]
struct CtState {
	imp: Box<dyn Subject>,
	period: usize,
	group: Vec<Candle>,
	hist: Vec<Candle>,
	outs: Vec<Candle>,
	/// the constructor rejected this (valid, non-zero) period: reported at the first step
	rejected: bool,
}
struct CtSys {
	name: String,
	periods: Vec<usize>,
	alphabet: Vec<Candle>,
	keep_hist: bool,
	flat: bool,
}
fn aggregate(g: &[Candle]) -> Candle {
	Candle {
		open: g[0].open,
		high: g.iter().map(|c| c.high).fold(V::NEG_INFINITY, V::max),
		low: g.iter().map(|c| c.low).fold(V::INFINITY, V::min),
		close: g[g.len() - 1].close,
		volume: g.iter().map(|c| c.volume).sum(),
	}
}
impl System for CtSys {
	type State = CtState;
	type Act = Candle;
	fn name(&self) -> String {
		self.name.clone()
	}
	fn inits(&self) -> Vec<(CtState, String)> {
		let sp = spec("CollapseTimeframe");
		self.periods
			.iter()
			.map(|&p| {
				let (imp, rejected) = match catch(|| (sp.ctor)(&Params::U(p), &In::C(self.alphabet[0]))) {
					Ok(Ok(i)) => (i, false),
					// a placeholder instance; the state is flagged and its first step reports the rejection
					_ => ((sp.ctor)(&Params::U(1), &In::C(self.alphabet[0])).unwrap(), true),
				};
				(CtState { imp, period: p, group: vec![], hist: vec![], outs: vec![], rejected }, format!("period={p}"))
			})
			.collect()
	}
	fn actions(&self, s: &CtState, depth: u32) -> Vec<(Candle, u8)> {
		if self.flat {
			if depth as usize > 2 * s.period + 2 {
				return vec![];
			}
			let mut v = vec![(self.alphabet[0], 0u8)];
			for a in &self.alphabet[1..] {
				v.push((*a, 1));
			}
			v
		} else {
			self.alphabet.iter().map(|a| (*a, 0)).collect()
		}
	}
	fn show_act(&self, a: &Candle) -> String {
		show(a)
	}
	fn key(&self, s: &CtState) -> Option<u128> {
		if self.keep_hist {
			None
		} else {
			Some(hash128_str(&format!("{}|{:?}|{}", s.imp.debug_key(), s.group, s.period)))
		}
	}
	fn step(&self, s: &CtState, a: &Candle) -> Step<CtState> {
		let mut n = s.clone();
		if s.rejected {
			return Step::Violation(Failure::new("CollapseTimeframe/new/rejected-valid-period", format!("CollapseTimeframe::new({}) returned an error or panicked; every period > 0 is documented as valid", s.period)));
		}
		let out = match catch(|| n.imp.next(&In::C(*a))) {
			Ok(Out::OC(o)) => o,
			Ok(o) => return Step::Violation(Failure::new("CollapseTimeframe/kind", o.show())),
			Err(p) => return Step::Violation(Failure::new("CollapseTimeframe/next/panic", format!("{}: {}", p.at(), p.msg))),
		};
		n.group.push(*a);
		let want = if n.group.len() == n.period {
			let g = aggregate(&n.group);
			n.group.clear();
			Some(g)
		} else {
			None
		};
		match (&out, &want) {
			(None, None) => {}
			(Some(o), Some(w)) if bits_eq(o, w) => {}
			(Some(o), Some(w)) => return Step::Violation(Failure::new("CollapseTimeframe/next/candle", format!("emitted {}, expected {}", show(o), show(w)))),
			(Some(o), None) => return Step::Violation(Failure::new("CollapseTimeframe/next/emitted-early", format!("emitted {} after {} of {} inputs", show(o), n.group.len(), n.period))),
			(None, Some(w)) => return Step::Violation(Failure::new("CollapseTimeframe/next/not-emitted", format!("nothing emitted on the period-th input, expected {}", show(w)))),
		}
		if self.keep_hist {
			n.hist.push(*a);
			if let Some(o) = out {
				n.outs.push(o);
			}
			// batch collapse of the whole sequence so far
			let p = n.period;
			let batch = match catch(|| n.hist.collapse_timeframe(p, false)) {
				Ok(b) => b,
				Err(e) => return Step::Violation(Failure::new("Sequence::collapse_timeframe/panic", e.msg)),
			};
			if batch.len() != n.outs.len() || batch.iter().zip(&n.outs).any(|(x, y)| !bits_eq(x, y)) {
				return Step::Violation(Failure::new("Sequence::collapse_timeframe/batch-vs-stream", format!("batch {:?} vs streamed {:?}", batch.iter().map(show).collect::<Vec<_>>(), n.outs.iter().map(show).collect::<Vec<_>>())));
			}
			let cont = n.hist.collapse_timeframe(p, true);
			let want: Vec<Candle> = if n.hist.len() >= p { n.hist.windows(p).map(aggregate).collect() } else { vec![] };
			if cont.len() != want.len() || cont.iter().zip(&want).any(|(x, y)| !bits_eq(x, y)) {
				return Step::Violation(Failure::new("Sequence::collapse_timeframe/continuous", format!("continuous collapse differs from the sliding aggregate at length {}", n.hist.len())));
			}
		}
		Step::Next(n)
	}
}

// ------------------------------------------------------------------ Renko

#[derive(Clone)]
struct RkState {
	imp: Renko,
	vol_acc: f64,
	/// (open, close) of the last brick emitted so far
	last_brick: Option<(f64, f64)>,
	size: f64,
	src: Source,
	/// the value the instance was constructed from
	v0: f64,
}
#[derive(Clone, Copy, Debug)]
struct RkAct {
	price: V,
	vol: V,
	what: &'static str,
}
struct RkSys {
	sizes: Vec<V>,
	srcs: Vec<Source>,
	v0s: Vec<V>,
}
fn thresholds(r: &Renko) -> (f64, f64, f64, f64) {
	let v = serde_json::to_value(r).unwrap();
	let g = |k: &str| v[k].as_f64().unwrap_or(f64::NAN);
	(g("last_block_upper"), g("last_block_lower"), g("next_block_upper"), g("next_block_lower"))
}
fn ulp_up(x: V) -> V {
	V::from_bits(x.to_bits() + 1)
}
fn ulp_dn(x: V) -> V {
	V::from_bits(x.to_bits() - 1)
}
fn price_candle(p: V, vol: V) -> Candle {
	Candle { open: p, high: p, low: p, close: p, volume: vol }
}
impl System for RkSys {
	type State = RkState;
	type Act = RkAct;
	fn name(&self) -> String {
		"Renko/state-dependent-prices".into()
	}
	fn inits(&self) -> Vec<(RkState, String)> {
		let mut v = vec![];
		for &s in &self.sizes {
			for &src in &self.srcs {
				for &v0 in &self.v0s {
					if let Ok(imp) = Renko::new((s, src), &price_candle(v0, 1.0)) {
						v.push((RkState { imp, vol_acc: 0.0, last_brick: None, size: s as f64, src, v0: price_candle(v0, 1.0).source(src) as f64 }, format!("Renko(({s:?},{src:?})) v0={v0:?}")));
					}
				}
			}
		}
		v
	}
	fn actions(&self, s: &RkState, _: u32) -> Vec<(RkAct, u8)> {
		let (lu, ll, nu, nl) = thresholds(&s.imp);
		let (lu, ll, nu, nl) = (lu as V, ll as V, nu as V, nl as V);
		let b = s.size as V;
		let mut v = vec![
			RkAct { price: nu, vol: 1.0, what: "on-upper-boundary" },
			RkAct { price: ulp_dn(nu), vol: 4.0, what: "ulp-below-upper" },
			RkAct { price: ulp_up(nu), vol: 1.0, what: "ulp-above-upper" },
			RkAct { price: nl, vol: 1.0, what: "on-lower-boundary" },
			RkAct { price: ulp_up(nl), vol: 0.0, what: "ulp-above-lower" },
			RkAct { price: ulp_dn(nl), vol: 1.0, what: "ulp-below-lower" },
			RkAct { price: (lu + ll) * 0.5, vol: 4.0, what: "mid-brick" },
			// two of these overflow the accumulated volume to +inf: the emission after the next one starts from 0 again
			RkAct { price: (lu + ll) * 0.5, vol: V::MAX * 0.75, what: "mid-brick-with-three-quarters-of-the-largest-finite-volume" },
			RkAct { price: lu * (1.0 + 1.5 * b), vol: 1.0, what: "up-1.5-bricks" },
			RkAct { price: lu * (1.0 + 2.0 * b), vol: 4.0, what: "up-2-bricks" },
			RkAct { price: lu * (1.0 + 3.5 * b), vol: 1.0, what: "up-3.5-bricks" },
			RkAct { price: ll * (1.0 - 1.5 * b), vol: 1.0, what: "down-1.5-bricks" },
			RkAct { price: ll * (1.0 - 2.0 * b), vol: 4.0, what: "down-2-bricks" },
			RkAct { price: ll * (1.0 - 3.5 * b).max(0.01), vol: 1.0, what: "down-3.5-bricks" },
		];
		v.retain(|a| a.price.is_finite() && a.price > 0.0);
		v.into_iter().map(|a| (a, 0)).collect()
	}
	fn show_act(&self, a: &RkAct) -> String {
		format!("{}:{:?}/vol={:?}", a.what, a.price, a.vol)
	}
	fn step(&self, s: &RkState, a: &RkAct) -> Step<RkState> {
		let mut n = s.clone();
		let c = price_candle(a.price, a.vol);
		let value = c.source(s.src) as f64;
		let (lu0, ll0, nu0, nl0) = thresholds(&s.imp);
		let reached_up = value >= nu0;
		let reached_dn = value <= nl0;
		let class = a.what;
		// "the next boundary" is one brick beyond the edge of the last block, on either side (bricks are
		// equally sized relative to their base): the boundaries the instance works with must be those -
		// also in the state it is constructed in
		{
			let b = s.size;
			let (wu, wl) = (lu0 * (1.0 + b), ll0 * (1.0 - b));
			let t = 8.0 * eps() * lu0.abs().max(ll0.abs());
			// before any brick the "last block" is one brick centred on the construction value (the
			// documentation's example: from 100.0 at 1% the first brick appears at 101.505 = 100.5 * 1.01)
			if s.last_brick.is_none() && ((lu0 - s.v0 * (1.0 + b / 2.0)).abs() > t || (ll0 - s.v0 * (1.0 - b / 2.0)).abs() > t) {
				return Step::Violation(Failure::new("Renko/state/initial-block", format!("constructed from {:?} with brick size {b:?}: initial block ({ll0:?}, {lu0:?})", s.v0)));
			}
			if (nu0 - wu).abs() > t || (nl0 - wl).abs() > t || !(ll0 < lu0) {
				let when = if s.last_brick.is_none() { "before-any-brick" } else { "after-bricks" };
				return Step::Violation(Failure::new(
					format!("Renko/state/next-boundaries/{when}"),
					format!("last block ({ll0:?}, {lu0:?}), brick size {b:?}: next boundaries are ({nl0:?}, {nu0:?}), one brick beyond the block is ({wl:?}, {wu:?})"),
				));
			}
		}
		let out = match catch(|| n.imp.next(&c)) {
			Ok(o) => o,
			Err(p) => return Step::Violation(Failure::new(format!("Renko/next/panic/{class}"), format!("price {value:?} (upper boundary {nu0:?}, lower {nl0:?}): panicked at {}: {}", p.at(), p.msg))),
		};
		n.vol_acc += a.vol as f64;
		let len = out.len();
		// iterator protocol
		{
			let it = out.clone();
			if it.size_hint() != (len, Some(len)) || it.clone().count() != len || ExactSizeIterator::len(&it) != len || out.is_empty() != (len == 0) {
				return Step::Violation(Failure::new("Renko/output/iterator-protocol", format!("len {len}, size_hint {:?}, count {}", it.size_hint(), it.clone().count())));
			}
			if len > 1_000_000 {
				return Step::Violation(Failure::new(format!("Renko/output/absurd-length/{class}"), format!("{len} bricks for price {value:?} with boundaries ({nl0:?}, {nu0:?})")));
			}
			let all: Vec<_> = it.clone().collect();
			if all.len() != len {
				return Step::Violation(Failure::new("Renko/output/iterator-protocol", format!("collected {} items, len() = {len}", all.len())));
			}
			if it.clone().last() != all.last().copied() {
				return Step::Violation(Failure::new("Renko/output/iterator-last", String::new()));
			}
			for k in 0..=len {
				let mut j = it.clone();
				if j.nth(k) != all.get(k).copied() {
					return Step::Violation(Failure::new("Renko/output/iterator-nth", format!("nth({k})")));
				}
			}
			// the OHLCV view describes the whole step: it must not change while the bricks are being drawn
			{
				use yata::core::OHLCV;
				fn view<T: yata::core::OHLCV>(o: &T) -> [u64; 5] {
					[o.open(), o.high(), o.low(), o.close(), o.volume()].map(|x| (x as f64).to_bits())
				}
				let v0 = view(&it);
				let mut j = it.clone();
				for a in 0..len.min(6) {
					j.next();
					if view(&j) != v0 && len > 0 {
						return Step::Violation(Failure::new("Renko/output/ohlcv-view-changes-while-iterating", format!("{len} bricks: after {} of them the view (open, high, low, close, volume) is {:?}, before {:?}", a + 1, [j.open(), j.high(), j.low(), j.close(), j.volume()], [it.open(), it.high(), it.low(), it.close(), it.volume()])));
					}
				}
			}
			// the same on a partially consumed output: a bricks taken with next(), then nth / skip / step_by /
			// last / count / len on the rest
			for a in 0..=len.min(4) {
				for k in 0..=(len - a).min(4) {
					let adv = || {
						let mut j = it.clone();
						for _ in 0..a {
							j.next();
						}
						j
					};
					let rest = &all[a..];
					let ok = adv().nth(k) == rest.get(k).copied()
						&& adv().skip(k).take(70).collect::<Vec<_>>() == rest.iter().skip(k).take(70).copied().collect::<Vec<_>>()
						&& adv().step_by(k + 1).take(70).collect::<Vec<_>>() == rest.iter().step_by(k + 1).take(70).copied().collect::<Vec<_>>()
						&& adv().nth(k + rest.len()).is_none()
						&& { let mut j = adv(); j.nth(rest.len() + 3); j.next().is_none() && j.len() == 0 }
						&& adv().last() == rest.last().copied()
						&& adv().count() == rest.len()
						&& adv().len() == rest.len();
					if !ok {
						return Step::Violation(Failure::new("Renko/output/iterator-after-partial-consumption", format!("{len} bricks, {a} taken with next(), then nth({k}) / skip({k}) / step_by({}) / last / count / len disagree with the collected bricks", k + 1)));
					}
				}
			}
			let mut j = it.clone();
			for _ in 0..len {
				j.next();
			}
			if j.next().is_some() || j.next().is_some() {
				return Step::Violation(Failure::new("Renko/output/iterator-fused", String::new()));
			}
		}
		// at least one brick exactly when the price has reached the next boundary
		if (len > 0) != (reached_up || reached_dn) {
			return Step::Violation(Failure::new(
				format!("Renko/output/bricks-vs-boundary/{class}"),
				format!("price {value:?}, boundaries ({nl0:?}, {nu0:?}): {len} bricks emitted"),
			));
		}
		if len == 0 {
			return Step::Next(n);
		}
		let bricks: Vec<_> = out.clone().collect();
		let e = eps();
		let base = bricks[0].open as f64;
		let tol = 16.0 * e * base.abs() * (len as f64 + 2.0);
		let dir = if reached_up { 1.0 } else { -1.0 };
		// first brick starts at the edge of the last block on the side of the move
		let want_base = if reached_up { lu0 } else { ll0 };
		if (base - want_base).abs() > tol {
			return Step::Violation(Failure::new("Renko/output/first-brick-open", format!("first brick opens at {base:?}, last block edge {want_base:?}")));
		}
		let step = base * s.size;
		let mut vol = 0.0;
		for (i, b) in bricks.iter().enumerate() {
			let (o, c) = (b.open as f64, b.close as f64);
			if i > 0 && (o - bricks[i - 1].close as f64).abs() > tol {
				return Step::Violation(Failure::new("Renko/output/not-contiguous", format!("brick {i} opens at {o:?}, previous closes at {:?}", bricks[i - 1].close)));
			}
			if ((c - o) * dir - step).abs() > tol {
				return Step::Violation(Failure::new("Renko/output/brick-size-or-direction", format!("brick {i}: {o:?} -> {c:?}, expected a move of {:?}", step * dir)));
			}
			if b.sign() as f64 != dir {
				return Step::Violation(Failure::new("Renko/output/brick-sign", format!("brick {i} sign {}", b.sign())));
			}
			vol += b.volume as f64 / 1024.0; // (scaled: the plain sum of bricks near the largest finite value would overflow in the harness)
		}
		// (NaN-safe: an accumulated volume that overflowed to +inf must be carried as +inf, and anything
		// that is not within the tolerance - NaN included - is a failure)
		let vol_ok = |got: f64, acc: f64| if acc.is_infinite() { got == acc } else { (got - acc).abs() <= 16.0 * e * (acc.abs() + 1.0) * (len as f64) };
		if !vol_ok(vol * 1024.0, n.vol_acc) && !vol_ok(vol, n.vol_acc / 1024.0) {
			return Step::Violation(Failure::new("Renko/output/volume", format!("bricks carry volume {vol:?}, consumed since the last emission {:?}", n.vol_acc)));
		}
		if !vol_ok(out.volume() as f64, n.vol_acc) || out.sign() as f64 != dir || out.is_rising() != reached_up || out.is_falling() != reached_dn {
			return Step::Violation(Failure::new("Renko/output/ohlcv-view", format!("volume {:?} sign {}", out.volume(), out.sign())));
		}
		// (RenkoOutput's OHLCV close is base + size*len, an absolute step, and so differs from the last
		// brick's close base*(1+size*len); C17 does not speak about that view, so only `open` is compared)
		if (out.open() as f64 - base).abs() > tol {
			return Step::Violation(Failure::new("Renko/output/ohlcv-view", format!("open {:?} but the first brick opens at {base:?}", out.open())));
		}
		n.vol_acc = 0.0;
		// new thresholds: the last block is the last brick; the price lies strictly inside the new boundaries
		let (lu, ll, nu, nl) = thresholds(&n.imp);
		let last = bricks[len - 1];
		let (hi, lo) = ((last.open.max(last.close)) as f64, (last.open.min(last.close)) as f64);
		if (lu - hi).abs() > tol || (ll - lo).abs() > tol || !(nu > lu && nl < ll) {
			return Step::Violation(Failure::new(format!("Renko/state/last-block/{class}"), format!("last block ({ll:?}, {lu:?}) next ({nl:?}, {nu:?}) but last brick spans ({lo:?}, {hi:?})")));
		}
		// (no demand that the price lies inside the NEW boundaries: below a falling block the next lower
		// boundary base*(1-s*len)*(1-s) sits above the arithmetic level base*(1-s*(len+1)), so a price between
		// the two legitimately stays beyond it until the next step; C17 only asks for >= 1 brick now)
		let _ = value;
		n.last_brick = Some((last.open as f64, last.close as f64));
		Step::Next(n)
	}
}


// ------------------------------------------------------------------ Renko: every brick count of one step

/// One fresh instance per (brick size, direction, k): a single price k and a half bricks beyond the
/// edge of the initial block. The step's direction must read the same from `sign`, `is_rising`,
/// `is_falling` and from every brick, whatever the number of bricks is (counts 1..=1100 cover every
/// residue of a narrow counter).
#[derive(Clone)]
struct RjState {
	imp: Renko,
	size: V,
	k: usize,
	up: bool,
	/// reads prices through a user-defined candle type whose `source()` is its own
	adjusted: bool,
}
struct RjSys {
	adjusted: bool,
}
static LENS_SEEN: std::sync::Mutex<Vec<bool>> = std::sync::Mutex::new(Vec::new());

/// A user-defined OHLCV type with its own `source()`: every price is reported split-adjusted (halved)
/// through `source`, while the plain accessors keep the unadjusted quotes.
#[derive(Clone, Copy, Debug)]
struct Adjusted(Candle);
impl OHLCV for Adjusted {
	fn open(&self) -> V {
		self.0.open
	}
	fn high(&self) -> V {
		self.0.high
	}
	fn low(&self) -> V {
		self.0.low
	}
	fn close(&self) -> V {
		self.0.close
	}
	fn volume(&self) -> V {
		self.0.volume
	}
	fn source(&self, source: Source) -> V {
		self.0.source(source) * 0.5
	}
}

impl System for RjSys {
	type State = RjState;
	type Act = ();
	fn name(&self) -> String {
		if self.adjusted { "Renko/user-candle-with-own-source/brick-counts".into() } else { "Renko/brick-counts-of-one-step".into() }
	}
	fn inits(&self) -> Vec<(RjState, String)> {
		let mut v = vec![];
		let srcs: &[Source] = if self.adjusted { &[Source::Close, Source::Open, Source::HL2, Source::TP] } else { &[Source::Close] };
		for &src in srcs {
			for (size, up) in [(1.0 / 128.0, true), (1.0 / 2048.0, true), (1.0 / 2048.0, false)] {
				for k in 1..=if self.adjusted { 40 } else { 1100usize } {
					let imp = if self.adjusted { Renko::new((size, src), &Adjusted(price_candle(2.0, 1.0))) } else { Renko::new((size, src), &price_candle(1.0, 1.0)) };
					if let Ok(imp) = imp {
						v.push((RjState { imp, size, k, up, adjusted: self.adjusted }, format!("Renko(({size:?},{src:?})) from 1.0, {k}.5 bricks {}", if up { "up" } else { "down" })));
					}
				}
			}
		}
		v
	}
	fn actions(&self, _: &RjState, depth: u32) -> Vec<((), u8)> {
		if depth == 0 { vec![((), 0)] } else { vec![] }
	}
	fn show_act(&self, _: &()) -> String {
		"jump".into()
	}
	fn step(&self, s: &RjState, _: &()) -> Step<RjState> {
		let mut n = s.clone();
		let (lu, ll, _, _) = thresholds(&s.imp);
		let b = s.size as f64;
		// the initial block is centred on the (adjusted) construction price 1.0
		let t = 8.0 * eps();
		if (lu - (1.0 + b / 2.0)).abs() > t || (ll - (1.0 - b / 2.0)).abs() > t {
			return Step::Violation(Failure::new("Renko/state/initial-block", format!("constructed from the price 1.0 with brick size {b:?}: initial block ({ll:?}, {lu:?})")));
		}
		let price = if s.up { lu * (1.0 + (s.k as f64 + 0.5) * b) } else { ll * (1.0 - (s.k as f64 + 0.5) * b) };
		let out = if s.adjusted { catch(|| n.imp.next(&Adjusted(price_candle((price * 2.0) as V, 1.0)))) } else { catch(|| n.imp.next(&price_candle(price as V, 1.0))) };
		let out = match out {
			Ok(o) => o,
			Err(p) => return Step::Violation(Failure::new("Renko/next/panic/brick-counts", format!("{}: {}", p.at(), p.msg))),
		};
		let len = out.len();
		if len + 1 < s.k || len > s.k + 1 {
			return Step::Violation(Failure::new("Renko/output/brick-count", format!("price {price:?} is {}.5 bricks beyond the block ({ll:?}, {lu:?}): {len} bricks emitted", s.k)));
		}
		{
			let mut g = LENS_SEEN.lock().unwrap();
			if g.len() <= len {
				g.resize(len + 1, false);
			}
			g[len] = true;
		}
		let dir: i8 = if s.up { 1 } else { -1 };
		if out.sign() != dir || out.is_rising() != s.up || out.is_falling() == s.up {
			return Step::Violation(Failure::new("Renko/output/direction-of-the-step", format!("{len} bricks {}: sign() = {}, is_rising() = {}, is_falling() = {}", if s.up { "up" } else { "down" }, out.sign(), out.is_rising(), out.is_falling())));
		}
		let mut count = 0usize;
		for (i, br) in out.clone().enumerate() {
			count += 1;
			if br.sign() != dir || (br.close > br.open) != s.up {
				return Step::Violation(Failure::new("Renko/output/brick-sign", format!("brick {i} of {len}: {:?} -> {:?}, sign {}", br.open, br.close, br.sign())));
			}
		}
		if count != len {
			return Step::Violation(Failure::new("Renko/output/iterator-protocol", format!("len() = {len}, {count} bricks iterated")));
		}
		Step::Next(n)
	}
}

// ------------------------------------------------------------------ HeikinAshi validity

#[derive(Clone)]
struct HaState {
	imp: Box<dyn Subject>,
}
struct HaSys {
	alphabet: Vec<Candle>,
}
impl System for HaSys {
	type State = HaState;
	type Act = Candle;
	fn name(&self) -> String {
		"HeikinAshi/valid-output".into()
	}
	fn inits(&self) -> Vec<(HaState, String)> {
		self.alphabet.iter().map(|c| (HaState { imp: (spec("HeikinAshi").ctor)(&Params::Unit, &In::C(*c)).unwrap() }, format!("c0={}", show(c)))).collect()
	}
	fn actions(&self, _: &HaState, _: u32) -> Vec<(Candle, u8)> {
		self.alphabet.iter().map(|a| (*a, 0)).collect()
	}
	fn show_act(&self, a: &Candle) -> String {
		show(a)
	}
	fn step(&self, s: &HaState, a: &Candle) -> Step<HaState> {
		let mut n = s.clone();
		match catch(|| n.imp.next(&In::C(*a))) {
			Ok(Out::C(c)) => {
				if a.validate() && !c.validate() {
					return Step::Violation(Failure::new("HeikinAshi/output/invalid-candle", format!("input {} valid, output {} not", show(a), show(&c))));
				}
				if c.volume.to_bits() != a.volume.to_bits() {
					return Step::Violation(Failure::new("HeikinAshi/output/volume", String::new()));
				}
				Step::Next(n)
			}
			Ok(o) => Step::Violation(Failure::new("HeikinAshi/kind", o.show())),
			Err(p) => Step::Violation(Failure::new("HeikinAshi/next/panic", p.msg)),
		}
	}
}

fn main() {
	refmodel::set_eps(eps());
	refmodel::set_floor(ValueType::MIN_POSITIVE as f64);
	let mut h = H::start("C17");
	let thorough = h.thorough();
	let k = k_candles();
	h.go(&CtSys { name: "CollapseTimeframe/closure/period=1..=5".into(), periods: (1..=5).collect(), alphabet: k.clone(), keep_hist: false, flat: false }, &Limits::closure().states(20_000_000), false);
	h.go(
		&CtSys { name: "CollapseTimeframe/batch-vs-stream/depth".into(), periods: (1..=4).collect(), alphabet: k[..if thorough { 4 } else { 3 }].to_vec(), keep_hist: true, flat: false },
		&Limits::depth(if thorough { 8 } else { 7 }),
		true,
	);
	let big: Vec<usize> = if thorough { (6..=300).collect() } else { vec![6, 7, 8, 15, 16, 17, 100, 254, 255, 256, 257, 300] };
	h.go(&CtSys { name: "CollapseTimeframe/deviation/period=6..=300".into(), periods: big.clone(), alphabet: k.clone(), keep_hist: false, flat: true }, &Limits::deviation(1, 700), true);
	if thorough {
		let some: Vec<_> = big.iter().copied().filter(|p| [6, 7, 8, 16, 60, 254, 255, 256, 300].contains(&(*p as usize))).collect();
		h.go(&CtSys { name: "CollapseTimeframe/deviation-2/selected-periods".into(), periods: some, alphabet: k.clone(), keep_hist: false, flat: true }, &Limits::deviation(2, 400), true);
	}
	h.go(&HaSys { alphabet: { let mut a = k.clone(); a.push(cd(10.1, 10.7, 9.3, 10.3, 1.7)); a.push(cd(1e-3, 1e3, 1e-3, 1e3, 1.0)); a } }, &Limits::depth(if thorough { 6 } else { 5 }), true);
	let sizes: Vec<V> = if IS_F32 { vec![0.0078125, 0.01, 0.1, 0.5] } else { vec![0.0078125, 0.01, 0.1, 0.5] };
	h.go(&RkSys { sizes, srcs: vec![Source::Close, Source::TP, Source::HL2], v0s: vec![100.0, 1.0, 123.456] }, &Limits::depth(if thorough { 5 } else { 4 }).wall_secs(600), true);
	h.go(&RjSys { adjusted: false }, &Limits::depth(1), false);
	h.go(&RjSys { adjusted: true }, &Limits::depth(1), false);
	if !h.is_replay() {
		let g = LENS_SEEN.lock().unwrap();
		if let Some(k) = (1..=1024).find(|&k| !g.get(k).copied().unwrap_or(false)) {
			h.run.machinery_error(format!("Renko/brick-counts-of-one-step: no step with exactly {k} bricks was produced"));
		}
	}
	h.finish();
}
