//! Lean transcript binary for C19 / C20: executes a deterministic program set against
//! THIS build of yata and prints one line per program:
//!   <block>\t<program id>\t<status>\t<digest>
//! status: ok | ctor-err | panic ; digest = 128-bit hash of every observable output bit.
//! Usage: transcript [--only <block-prefix>] [--small] [--skip <file with program ids>]

use checks::grid::*;
use checks::ind::*;
use checks::subj::*;
use checks::*;
use std::collections::HashSet;
use std::io::Write;
use yata::core::Window;

struct Cfg {
	only: Option<String>,
	small: bool,
	skip: HashSet<String>,
	wide: bool,
	/// digest only what the API returns (no Debug / JSON text of the instance): needed when builds differ in integer width
	outputs_only: bool,
}

fn emit(out: &mut Vec<String>, block: &str, id: &str, status: &str, text: &str) {
	out.push(format!("{block}\t{id}\t{status}\t{:032x}", hash128_str(text)));
}

fn window_block(cfg: &Cfg, out: &mut Vec<String>) {
	let block = "window";
	let mut ns: Vec<usize> = if cfg.small { (1..=8).collect() } else { (1..=32).collect() };
	ns.extend_from_slice(&[129, 200, 253, 254]);
	if cfg.wide && (PeriodType::MAX as u64) > 255 {
		ns.extend_from_slice(&[255, 256, 300, 1000]);
	}
	for n in ns {
		let id = format!("Window({n})");
		if cfg.skip.contains(&id) {
			continue;
		}
		let r = catch(|| {
			let mut t = String::new();
			let mut w: Window<u32> = Window::new(n as PeriodType, 0);
			for p in 1..=(2 * n + 2) as u32 {
				t.push_str(&format!("p{}", w.push(p)));
				t.push_str(&format!("n{}o{}l{}", w.newest(), w.oldest(), w.len()));
				let step = if cfg.small || n > 64 { (n / 7).max(1) } else { 1 };
				let mut i = 0;
				while i < n + 3 {
					t.push_str(&format!("g{:?}", w.get(i as PeriodType)));
					if i < n {
						t.push_str(&format!("i{}", w[i as PeriodType]));
					}
					i += step;
				}
				t.push_str(&format!("{:?}{:?}", w.iter().collect::<Vec<_>>(), w.iter_rev().collect::<Vec<_>>()));
				for k in [0, 1, n / 2, n.saturating_sub(1), n] {
					let mut a = w.iter();
					let mut b = w.iter_rev();
					for _ in 0..k {
						a.next();
						b.next();
					}
					t.push_str(&format!("{:?}{:?}{}{}", a.size_hint(), b.size_hint(), a.len(), b.len()));
					let (mut a2, mut b2) = (w.iter(), w.iter_rev());
					for _ in 0..k {
						a2.next();
						b2.next();
					}
					t.push_str(&format!("{:?}{:?}{}{}", a2.last(), b2.last(), a.count(), b.count()));
					// every consuming adaptor on an iterator that has already been advanced k times - on the
					// CONCRETE iterator types (a boxed `dyn Iterator` would fall back to the default methods
					// built on `next` and bypass the type's own overrides)
					macro_rules! adaptors {
						($mk:expr, $mk2:expr) => {{
							let adv = || {
								let mut i = $mk;
								for _ in 0..k {
									i.next();
								}
								i
							};
							let adv2 = || {
								let mut i = $mk2;
								for _ in 0..k {
									i.next();
								}
								i
							};
							t.push_str(&format!("f{}", adv().fold(7u64, |acc, x| acc.wrapping_mul(31).wrapping_add(*x as u64))));
							t.push_str(&format!("s{}", adv().map(|x| *x as u64).sum::<u64>()));
							t.push_str(&format!("S{}", adv().copied().sum::<u32>()));
							t.push_str(&format!("c{:?}", adv().collect::<Vec<_>>()));
							t.push_str(&format!("m{:?}{:?}{:?}", adv().max(), adv().min(), adv().reduce(|a, b| if a > b { a } else { b })));
							t.push_str(&format!("a{}{}{:?}{:?}", adv().any(|x| *x == 2), adv().all(|x| *x > 0), adv().position(|x| *x == 3), adv().find(|x| **x > 1)));
							t.push_str(&format!("n{:?}{:?}{:?}", adv().nth(1), adv().skip(1).step_by(2).collect::<Vec<_>>(), adv().skip(1).fold(0u64, |a, x| a * 3 + *x as u64)));
							let mut fe = vec![];
							adv().for_each(|x| fe.push(*x));
							t.push_str(&format!("e{fe:?}"));
							t.push_str(&format!("z{:?}", adv().zip(adv2()).map(|(x, y)| x + y).collect::<Vec<_>>()));
							t.push_str(&format!("x{:?}{:?}", adv().cloned().collect::<Vec<u32>>(), adv().enumerate().last()));
							// nth / skip at every distance class: inside, at the end, beyond, around the capacities of 8 and 16 bits
							for j in [0usize, 2, n / 2, n.saturating_sub(1), n, n + 1, 100, 127, 128, 129, 200, 254, 255, 256, 257, 300, 65535, 65536] {
								t.push_str(&format!("N{:?}K{:?}", adv().nth(j), adv().skip(j).next()));
							}
						}};
					}
					adaptors!(w.iter(), w.iter_rev());
					adaptors!(w.iter_rev(), w.iter());
				}
				t.push_str(&serde_json::to_string(&w).unwrap());
				let w2: Window<u32> = serde_json::from_str(&serde_json::to_string(&w).unwrap()).unwrap();
				t.push_str(&format!("{:?}", w2.iter().collect::<Vec<_>>()));
			}
			t
		});
		match r {
			Ok(t) => emit(out, block, &id, "ok", &t),
			Err(p) => emit(out, block, &id, "panic", &p.msg),
		}
	}
}

/// bit pattern of a value with every NaN mapped to one pattern: which NaN an operation returns (sign,
/// payload) is not specified - the compiler may commute the operands of an addition - so two builds of the
/// same source may legitimately differ there
fn nbits(f: ValueType) -> u64 {
	if f.is_nan() { u64::MAX } else { f.to_bits() as u64 }
}

// ---- element type with drop glue: every value has an id, the ledger knows whether it is alive
thread_local! { static LEDGER: std::cell::RefCell<(Vec<u8>, Vec<String>)> = const { std::cell::RefCell::new((Vec::new(), Vec::new())) }; }
#[derive(Debug)]
struct Tracked(usize);
impl Tracked {
	fn new() -> Self {
		LEDGER.with(|l| {
			let mut l = l.borrow_mut();
			l.0.push(1);
			Tracked(l.0.len() - 1)
		})
	}
	fn alive(&self) -> bool {
		LEDGER.with(|l| l.borrow().0.get(self.0).copied() == Some(1))
	}
}
impl Clone for Tracked {
	fn clone(&self) -> Self {
		if !self.alive() {
			LEDGER.with(|l| l.borrow_mut().1.push(format!("clone of dead #{}", self.0)));
		}
		Tracked::new()
	}
}
impl Drop for Tracked {
	fn drop(&mut self) {
		LEDGER.with(|l| {
			let mut l = l.borrow_mut();
			match l.0.get(self.0).copied() {
				Some(1) => l.0[self.0] = 0,
				_ => {
					let id = self.0;
					l.1.push(format!("drop of dead #{id}"));
				}
			}
		})
	}
}
fn ledger_state() -> String {
	LEDGER.with(|l| {
		let l = l.borrow();
		format!("alive={} errors={:?}", l.0.iter().filter(|x| **x == 1).count(), l.1)
	})
}

/// empty windows (every accessor) and windows of an element type with drop glue
fn window_edge_block(_cfg: &Cfg, out: &mut Vec<String>) {
	let block = "window";
	let r = catch(|| {
		let mut t = String::new();
		for (nm, w) in [("empty", Window::<u32>::empty()), ("default", Window::<u32>::default()), ("new0", Window::<u32>::new(0, 7)), ("deser", serde_json::from_str::<Window<u32>>(&serde_json::to_string(&Window::<u32>::empty()).unwrap()).unwrap())] {
			t.push_str(nm);
			for i in 0..4 {
				t.push_str(&format!("g{:?}", w.get(i)));
			}
			t.push_str(&format!("l{}e{}{:?}{:?}{:?}", w.len(), w.is_empty(), w.iter().collect::<Vec<_>>(), w.iter_rev().collect::<Vec<_>>(), w.as_slice()));
			t.push_str(&format!("{:?}{:?}", w.iter().last(), w.iter_rev().last()));
			let c = w.clone();
			t.push_str(&format!("c{:?}", c.get(0)));
		}
		t
	});
	match r {
		Ok(t) => emit(out, block, "Window(empty forms)", "ok", &t),
		Err(p) => emit(out, block, "Window(empty forms)", "panic", &p.msg),
	}
	for n in [1usize, 2, 3, 5] {
		let id = format!("Window<Tracked>({n})");
		let r = catch(|| {
			LEDGER.with(|l| *l.borrow_mut() = (Vec::new(), Vec::new()));
			let mut t = String::new();
			{
				let mut w: Window<Tracked> = Window::new(n as PeriodType, Tracked::new());
				t.push_str(&ledger_state());
				for k in 0..(2 * n + 3) {
					let old = w.push(Tracked::new());
					t.push_str(&format!("old-alive={} ", old.alive()));
					drop(old);
					t.push_str(&format!("all-alive={} newest-alive={} oldest-alive={} ", w.iter().all(Tracked::alive), w.newest().alive(), w.oldest().alive()));
					if k == n {
						let c = w.clone();
						t.push_str(&format!("clone-alive={} ", c.iter().all(Tracked::alive)));
						drop(c);
					}
					if k == n + 1 || k == 1 {
						// clone_from into a window of the same capacity (buffer re-used) and of another one, each with
						// live elements of its own: those must be dropped exactly once, the copies must be new values
						for m in [n, n + 1] {
							let mut d: Window<Tracked> = Window::new(m as PeriodType, Tracked::new());
							d.push(Tracked::new());
							d.clone_from(&w);
							t.push_str(&format!("clone_from({m}<-{n})-alive={} len={} ", d.iter().all(Tracked::alive), d.len()));
							t.push_str(&ledger_state());
							drop(d);
							t.push_str(&format!("source-alive-after={} ", w.iter().all(Tracked::alive)));
						}
					}
					t.push_str(&ledger_state());
				}
				let mut y = <yata::methods::Past<Tracked> as yata::core::Method>::new(n as PeriodType, &Tracked::new()).unwrap();
				for _ in 0..(n + 2) {
					let o = yata::core::Method::next(&mut y, &Tracked::new());
					t.push_str(&format!("past-alive={} ", o.alive()));
				}
				t.push_str(&ledger_state());
			}
			// everything created has been dropped exactly once
			t.push_str(&ledger_state());
			t
		});
		match r {
			Ok(t) => {
				let status = if t.contains("alive=false") || t.contains("errors=[\"") || !t.ends_with("alive=0 errors=[]") { "ledger-error" } else { "ok" };
				emit(out, block, &id, status, &t)
			}
			Err(p) => emit(out, block, &id, "panic", &p.msg),
		}
	}
}

fn seqs(al: &[In], d: usize) -> Vec<Vec<In>> {
	let mut layer: Vec<Vec<In>> = vec![vec![]];
	for _ in 0..d {
		let mut next = vec![];
		for s in &layer {
			for a in al {
				let mut t = s.clone();
				t.push(*a);
				next.push(t);
			}
		}
		layer = next;
	}
	layer
}

fn methods_block(cfg: &Cfg, out: &mut Vec<String>) {
	for sp in registry() {
		let block = format!("method/{}", sp.name);
		if let Some(o) = &cfg.only {
			if !block.starts_with(o.as_str()) {
				continue;
			}
		}
		let mut params = small_params(&sp);
		if !cfg.small {
			params.extend(edge_params(&sp));
		}
		if cfg.wide {
			// lengths beyond the default PeriodType (used by the C20 definitional runs as well)
			if sp.par == ParKind::N && (PeriodType::MAX as u64) > 255 {
				for n in [255u64, 256, 300] {
					params.push(Params::N(n as PeriodType));
				}
			}
		}
		let al = inputs(sp.input);
		let mut al3: Vec<In> = al[..3].to_vec();
		if sp.input == InKind::Value {
			al3.push(In::V(-0.0)); // both zeros: exercises SMM's sorted buffer
		}
		let d = if cfg.small { 3 } else { 4 };
		// second family: rounding-active values of mixed magnitudes (a different order of the same
		// floating-point operations shows in the last bit)
		let mx = checks::grid::mixed(sp.input);
		for p in params {
			let big = span(&p) > 16;
			for v0 in &al[..2] {
				let mut fam: Vec<(String, Vec<In>)> = seqs(&al3, if big { 2 } else { d }).into_iter().enumerate().map(|(si, s)| (format!("#{si}"), s)).collect();
				if big {
					// one long stream on which hardly two values are alike (order statistics, searches and rescans
					// of long windows get something to do): golden-ratio Weyl sequence on 1024 levels
					let n = 3 * span(&p) + 17;
					let w: Vec<In> = (1..=n as u64)
						.map(|k| {
							let v = ((k as f64 * 0.618_033_988_749_894_9).fract() * 1024.0).floor() / 16.0 - 32.0;
							match sp.input {
								InKind::Value => In::V(v as ValueType),
								InKind::Pair => In::P(v as ValueType, (1 + k % 4) as ValueType),
								InKind::Candle => In::C(alpha::candle(v + 40.0, v + 41.0, v + 39.5, v + 40.5, (1 + k % 4) as f64)),
							}
						})
						.collect();
					fam.push(("weyl".to_string(), w));
				}
				if !big {
					fam.extend(seqs(&mx[..3], d + 1).into_iter().enumerate().map(|(si, s)| (format!("mixed#{si}"), s)));
					// third family: the ends of the value range (sums and doublings overflow, halves underflow)
					if sp.input == InKind::Value {
						let ext: Vec<In> = [ValueType::MAX, -ValueType::MAX, ValueType::MAX * 0.75, ValueType::MIN_POSITIVE, 1.0].iter().map(|v| In::V(*v)).collect();
						fam.extend(seqs(&ext, 3).into_iter().enumerate().map(|(si, s)| (format!("extreme#{si}"), s)));
					}
				}
				for (si, s) in fam.iter() {
					let id = format!("{}({}) v0={} {si}", sp.name, p.show(), v0.show());
					if cfg.skip.contains(&id) {
						continue;
					}
					let ctor = catch(|| (sp.ctor)(&p, v0));
					let mut m = match ctor {
						Err(pn) => {
							emit(out, &block, &id, "panic", &pn.msg);
							continue;
						}
						Ok(Err(_)) => {
							emit(out, &block, &id, "ctor-err", "");
							continue;
						}
						Ok(Ok(m)) => m,
					};
					let r = catch(|| {
						let mut t = String::new();
						// long runs for large windows so that the ring wraps
						let reps = if big && si != "weyl" { span(&p) + 3 } else { 1 };
						for _ in 0..reps {
							for x in s {
								let o = m.next(x);
								t.push_str(&format!("{:?}", o.floats().iter().map(|f| nbits(*f)).collect::<Vec<_>>()));
								t.push_str(&o.show());
								if let Some(pk) = m.peek() {
									t.push_str(&pk.show());
								}
							}
						}
						if cfg.outputs_only {
							return t;
						}
						t.push_str(&m.debug_key());
						if let Ok(j) = m.to_json() {
							t.push_str(&j);
							if !(j.contains("null")) {
								if let Ok(mut m2) = m.from_json(&j) {
									for x in s {
										t.push_str(&m2.next(x).show());
									}
								}
							}
						}
						t
					});
					match r {
						Ok(t) => emit(out, &block, &id, "ok", &t),
						Err(pn) => emit(out, &block, &id, "panic", &pn.msg),
					}
				}
			}
		}
	}
}

fn small_cfg(c: &dyn IndCfg) -> Option<Box<dyn IndCfg>> {
	let keys = json_map(&c.to_json().ok()?);
	let mut small = c.boxed_clone();
	let mut k = 2;
	for (key, val) in &keys {
		if val.is_u64() {
			let mut t = small.boxed_clone();
			if t.set(key, format!("{}", k)).is_ok() && t.validate() {
				small = t;
				k = 2 + (k - 1) % 3;
			}
		} else if val.is_object() {
			let kind = val.as_object().unwrap().keys().next().unwrap().clone();
			let kind = if kind == "lin_reg" { "linreg".to_string() } else { kind };
			let mut t = small.boxed_clone();
			if t.set(key, format!("{kind}-{}", k + 1)).is_ok() && t.validate() {
				small = t;
				k = 2 + (k - 1) % 3;
			}
		}
	}
	if small.validate() {
		Some(small)
	} else {
		None
	}
}

fn indicators_block(cfg: &Cfg, out: &mut Vec<String>) {
	let ks = alpha::k_candles();
	for c in defaults() {
		let block = format!("indicator/{}", c.const_name());
		if let Some(o) = &cfg.only {
			if !block.starts_with(o.as_str()) {
				continue;
			}
		}
		let mut cfgs = vec![c.boxed_clone()];
		if let Some(s) = small_cfg(c.as_ref()) {
			cfgs.push(s);
		}
		// every MA kind in the first MA slot of the small config (SMM lives there)
		if let Some(s) = small_cfg(c.as_ref()) {
			let keys = json_map(&s.to_json().unwrap());
			if let Some((key, _)) = keys.iter().find(|(_, v)| v.is_object()) {
				for kind in ["smm", "swma", "hma", "linreg", "vidya"] {
					let mut t = s.boxed_clone();
					if t.set(key, format!("{kind}-3")).is_ok() && t.validate() {
						cfgs.push(t);
					}
				}
			}
		}
		let d = if cfg.small { 2 } else { 3 };
		for (ci, cf) in cfgs.iter().enumerate() {
			let mut idx = vec![0usize; d];
			loop {
				let id = format!("{} cfg#{ci} {:?}", c.const_name(), idx);
				if !cfg.skip.contains(&id) {
					match catch(|| cf.init(&ks[1])) {
						Err(p) => emit(out, &block, &id, "panic", &p.msg),
						Ok(Err(_)) => emit(out, &block, &id, "ctor-err", ""),
						Ok(Ok(mut i)) => {
							let r = catch(|| {
								let mut t = cf.to_json().unwrap_or_default();
								// a long tail so that every window wraps at least once for the default periods
								for rep in 0..(if ci == 0 { 12 } else { 3 }) {
									for k in &idx {
										let r = i.next(&ks[(*k + rep) % ks.len()]);
										t.push_str(&format!("{:?}{:?}", r.values().iter().map(|v| nbits(*v)).collect::<Vec<_>>(), r.signals()));
									}
								}
								if !cfg.outputs_only {
									t.push_str(&i.debug_key());
								}
								t
							});
							match r {
								Ok(t) => emit(out, &block, &id, "ok", &t),
								Err(p) => emit(out, &block, &id, "panic", &p.msg),
							}
						}
					}
				}
				let mut k = 0;
				while k < d {
					idx[k] += 1;
					if idx[k] < 4 {
						break;
					}
					idx[k] = 0;
					k += 1;
				}
				if k == d {
					break;
				}
			}
		}
	}
}

fn main() {
	mccore::panics::install_hook();
	let a: Vec<String> = std::env::args().collect();
	let mut cfg = Cfg { only: None, small: false, skip: HashSet::new(), wide: false, outputs_only: false };
	let mut i = 1;
	while i < a.len() {
		match a[i].as_str() {
			"--only" => {
				cfg.only = a.get(i + 1).cloned();
				i += 1;
			}
			"--small" => cfg.small = true,
			"--wide" => cfg.wide = true,
			"--outputs-only" => cfg.outputs_only = true,
			"--skip" => {
				if let Some(f) = a.get(i + 1) {
					if let Ok(t) = std::fs::read_to_string(f) {
						cfg.skip = t.lines().map(String::from).collect();
					}
				}
				i += 1;
			}
			_ => {}
		}
		i += 1;
	}
	let mut out = vec![];
	let want = |b: &str| cfg.only.as_ref().map(|o| b.starts_with(o.as_str()) || o.starts_with(b)).unwrap_or(true);
	if want("window") {
		window_block(&cfg, &mut out);
		window_edge_block(&cfg, &mut out);
	}
	if want("method") {
		methods_block(&cfg, &mut out);
	}
	if want("indicator") {
		indicators_block(&cfg, &mut out);
	}
	let stdout = std::io::stdout();
	let mut l = stdout.lock();
	for line in out {
		let _ = writeln!(l, "{line}");
	}
	let _ = writeln!(l, "END\tPeriodType=u{}\tValueType=f{}\tunsafe_performance={}", PERIOD_BITS, if IS_F32 { 32 } else { 64 }, cfg!(feature = "unsafe_performance"));
}
