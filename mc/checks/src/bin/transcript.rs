//! Lean transcript binary for C19 / C20: executes a deterministic program set against
//! THIS build of yata and prints one line per program:
//!   <block>\t<program id>\t<status>\t<digest>
//! status: ok | ctor-err | panic ; digest = 128-bit hash of every observable output bit.
//! Usage: transcript [--only <block-prefix>] [--small] [--skip <file with program ids>]

use checks::grid::*;
use checks::ind::*;
use checks::subj::*;
use checks::*;
use std::collections::HashSet;
use std::io::Write;
use yata::core::Window;

struct Cfg {
	only: Option<String>,
	small: bool,
	skip: HashSet<String>,
	wide: bool,
	/// digest only what the API returns (no Debug / JSON text of the instance): needed when builds differ in integer width
	outputs_only: bool,
}

fn emit(out: &mut Vec<String>, block: &str, id: &str, status: &str, text: &str) {
	out.push(format!("{block}\t{id}\t{status}\t{:032x}", hash128_str(text)));
}

fn window_block(cfg: &Cfg, out: &mut Vec<String>) {
	let block = "window";
	let mut ns: Vec<usize> = if cfg.small { (1..=8).collect() } else { (1..=32).collect() };
	ns.extend_from_slice(&[253, 254]);
	if cfg.wide && (PeriodType::MAX as u64) > 255 {
		ns.extend_from_slice(&[255, 256, 300, 1000]);
	}
	for n in ns {
		let id = format!("Window({n})");
		if cfg.skip.contains(&id) {
			continue;
		}
		let r = catch(|| {
			let mut t = String::new();
			let mut w: Window<u32> = Window::new(n as PeriodType, 0);
			for p in 1..=(2 * n + 2) as u32 {
				t.push_str(&format!("p{}", w.push(p)));
				t.push_str(&format!("n{}o{}l{}", w.newest(), w.oldest(), w.len()));
				let step = if cfg.small || n > 64 { (n / 7).max(1) } else { 1 };
				let mut i = 0;
				while i < n + 3 {
					t.push_str(&format!("g{:?}", w.get(i as PeriodType)));
					if i < n {
						t.push_str(&format!("i{}", w[i as PeriodType]));
					}
					i += step;
				}
				t.push_str(&format!("{:?}{:?}", w.iter().collect::<Vec<_>>(), w.iter_rev().collect::<Vec<_>>()));
				for k in [0, 1, n / 2, n.saturating_sub(1), n] {
					let mut a = w.iter();
					let mut b = w.iter_rev();
					for _ in 0..k {
						a.next();
						b.next();
					}
					t.push_str(&format!("{:?}{:?}{}{}", a.size_hint(), b.size_hint(), a.len(), b.len()));
					let (mut a2, mut b2) = (w.iter(), w.iter_rev());
					for _ in 0..k {
						a2.next();
						b2.next();
					}
					t.push_str(&format!("{:?}{:?}{}{}", a2.last(), b2.last(), a.count(), b.count()));
				}
				t.push_str(&serde_json::to_string(&w).unwrap());
				let w2: Window<u32> = serde_json::from_str(&serde_json::to_string(&w).unwrap()).unwrap();
				t.push_str(&format!("{:?}", w2.iter().collect::<Vec<_>>()));
			}
			t
		});
		match r {
			Ok(t) => emit(out, block, &id, "ok", &t),
			Err(p) => emit(out, block, &id, "panic", &p.msg),
		}
	}
}

fn seqs(al: &[In], d: usize) -> Vec<Vec<In>> {
	let mut layer: Vec<Vec<In>> = vec![vec![]];
	for _ in 0..d {
		let mut next = vec![];
		for s in &layer {
			for a in al {
				let mut t = s.clone();
				t.push(*a);
				next.push(t);
			}
		}
		layer = next;
	}
	layer
}

fn methods_block(cfg: &Cfg, out: &mut Vec<String>) {
	for sp in registry() {
		let block = format!("method/{}", sp.name);
		if let Some(o) = &cfg.only {
			if !block.starts_with(o.as_str()) {
				continue;
			}
		}
		let mut params = small_params(&sp);
		if !cfg.small {
			params.extend(edge_params(&sp));
		}
		if cfg.wide {
			// lengths beyond the default PeriodType (used by the C20 definitional runs as well)
			if sp.par == ParKind::N && (PeriodType::MAX as u64) > 255 {
				for n in [255u64, 256, 300] {
					params.push(Params::N(n as PeriodType));
				}
			}
		}
		let al = inputs(sp.input);
		let mut al3: Vec<In> = al[..3].to_vec();
		if sp.input == InKind::Value {
			al3.push(In::V(-0.0)); // both zeros: exercises SMM's sorted buffer
		}
		let d = if cfg.small { 3 } else { 4 };
		for p in params {
			let big = span(&p) > 16;
			for v0 in &al[..2] {
				for (si, s) in seqs(&al3, if big { 2 } else { d }).iter().enumerate() {
					let id = format!("{}({}) v0={} #{si}", sp.name, p.show(), v0.show());
					if cfg.skip.contains(&id) {
						continue;
					}
					let ctor = catch(|| (sp.ctor)(&p, v0));
					let mut m = match ctor {
						Err(pn) => {
							emit(out, &block, &id, "panic", &pn.msg);
							continue;
						}
						Ok(Err(_)) => {
							emit(out, &block, &id, "ctor-err", "");
							continue;
						}
						Ok(Ok(m)) => m,
					};
					let r = catch(|| {
						let mut t = String::new();
						// long runs for large windows so that the ring wraps
						let reps = if big { span(&p) + 3 } else { 1 };
						for _ in 0..reps {
							for x in s {
								let o = m.next(x);
								t.push_str(&format!("{:?}", o.floats().iter().map(|f| f.to_bits()).collect::<Vec<_>>()));
								t.push_str(&o.show());
								if let Some(pk) = m.peek() {
									t.push_str(&pk.show());
								}
							}
						}
						if cfg.outputs_only {
							return t;
						}
						t.push_str(&m.debug_key());
						if let Ok(j) = m.to_json() {
							t.push_str(&j);
							if !(j.contains("null")) {
								if let Ok(mut m2) = m.from_json(&j) {
									for x in s {
										t.push_str(&m2.next(x).show());
									}
								}
							}
						}
						t
					});
					match r {
						Ok(t) => emit(out, &block, &id, "ok", &t),
						Err(pn) => emit(out, &block, &id, "panic", &pn.msg),
					}
				}
			}
		}
	}
}

fn small_cfg(c: &dyn IndCfg) -> Option<Box<dyn IndCfg>> {
	let keys = json_map(&c.to_json().ok()?);
	let mut small = c.boxed_clone();
	let mut k = 2;
	for (key, val) in &keys {
		if val.is_u64() {
			let mut t = small.boxed_clone();
			if t.set(key, format!("{}", k)).is_ok() && t.validate() {
				small = t;
				k = 2 + (k - 1) % 3;
			}
		} else if val.is_object() {
			let kind = val.as_object().unwrap().keys().next().unwrap().clone();
			let kind = if kind == "lin_reg" { "linreg".to_string() } else { kind };
			let mut t = small.boxed_clone();
			if t.set(key, format!("{kind}-{}", k + 1)).is_ok() && t.validate() {
				small = t;
				k = 2 + (k - 1) % 3;
			}
		}
	}
	if small.validate() {
		Some(small)
	} else {
		None
	}
}

fn indicators_block(cfg: &Cfg, out: &mut Vec<String>) {
	let ks = alpha::k_candles();
	for c in defaults() {
		let block = format!("indicator/{}", c.const_name());
		if let Some(o) = &cfg.only {
			if !block.starts_with(o.as_str()) {
				continue;
			}
		}
		let mut cfgs = vec![c.boxed_clone()];
		if let Some(s) = small_cfg(c.as_ref()) {
			cfgs.push(s);
		}
		// every MA kind in the first MA slot of the small config (SMM lives there)
		if let Some(s) = small_cfg(c.as_ref()) {
			let keys = json_map(&s.to_json().unwrap());
			if let Some((key, _)) = keys.iter().find(|(_, v)| v.is_object()) {
				for kind in ["smm", "swma", "hma", "linreg", "vidya"] {
					let mut t = s.boxed_clone();
					if t.set(key, format!("{kind}-3")).is_ok() && t.validate() {
						cfgs.push(t);
					}
				}
			}
		}
		let d = if cfg.small { 2 } else { 3 };
		for (ci, cf) in cfgs.iter().enumerate() {
			let mut idx = vec![0usize; d];
			loop {
				let id = format!("{} cfg#{ci} {:?}", c.const_name(), idx);
				if !cfg.skip.contains(&id) {
					match catch(|| cf.init(&ks[1])) {
						Err(p) => emit(out, &block, &id, "panic", &p.msg),
						Ok(Err(_)) => emit(out, &block, &id, "ctor-err", ""),
						Ok(Ok(mut i)) => {
							let r = catch(|| {
								let mut t = cf.to_json().unwrap_or_default();
								// a long tail so that every window wraps at least once for the default periods
								for rep in 0..(if ci == 0 { 12 } else { 3 }) {
									for k in &idx {
										let r = i.next(&ks[(*k + rep) % ks.len()]);
										t.push_str(&format!("{:?}{:?}", r.values().iter().map(|v| v.to_bits()).collect::<Vec<_>>(), r.signals()));
									}
								}
								if !cfg.outputs_only {
									t.push_str(&i.debug_key());
								}
								t
							});
							match r {
								Ok(t) => emit(out, &block, &id, "ok", &t),
								Err(p) => emit(out, &block, &id, "panic", &p.msg),
							}
						}
					}
				}
				let mut k = 0;
				while k < d {
					idx[k] += 1;
					if idx[k] < 4 {
						break;
					}
					idx[k] = 0;
					k += 1;
				}
				if k == d {
					break;
				}
			}
		}
	}
}

fn main() {
	mccore::panics::install_hook();
	let a: Vec<String> = std::env::args().collect();
	let mut cfg = Cfg { only: None, small: false, skip: HashSet::new(), wide: false, outputs_only: false };
	let mut i = 1;
	while i < a.len() {
		match a[i].as_str() {
			"--only" => {
				cfg.only = a.get(i + 1).cloned();
				i += 1;
			}
			"--small" => cfg.small = true,
			"--wide" => cfg.wide = true,
			"--outputs-only" => cfg.outputs_only = true,
			"--skip" => {
				if let Some(f) = a.get(i + 1) {
					if let Ok(t) = std::fs::read_to_string(f) {
						cfg.skip = t.lines().map(String::from).collect();
					}
				}
				i += 1;
			}
			_ => {}
		}
		i += 1;
	}
	let mut out = vec![];
	let want = |b: &str| cfg.only.as_ref().map(|o| b.starts_with(o.as_str()) || o.starts_with(b)).unwrap_or(true);
	if want("window") {
		window_block(&cfg, &mut out);
	}
	if want("method") {
		methods_block(&cfg, &mut out);
	}
	if want("indicator") {
		indicators_block(&cfg, &mut out);
	}
	let stdout = std::io::stdout();
	let mut l = stdout.lock();
	for line in out {
		let _ = writeln!(l, "{line}");
	}
	let _ = writeln!(l, "END\tPeriodType=u{}\tValueType=f{}\tunsafe_performance={}", PERIOD_BITS, if IS_F32 { 32 } else { 64 }, cfg!(feature = "unsafe_performance"));
}
