//! C19 — the unsafe_performance feature changes nothing observable and stays in bounds.
//!
//! The same deterministic program set (every sequence up to a depth for every method and
//! indicator, window observers, iterator splits, serde) runs in the default build and in
//! the `unsafe_performance` build: per-program digests must be equal. Memory safety of the
//! feature build is observed on the same programs by std's `get_unchecked` precondition
//! checks (ubcheck profile) and by valgrind memcheck on the Window / SMM blocks.

use checks::xbuild::*;
use checks::*;

fn env(k: &str) -> Option<String> {
	std::env::var(k).ok()
}

fn main() {
	let mut h = H::start("C19");
	let thorough = h.thorough();
	h.enum_replay("Builds/default-vs-unsafe_performance", |_| None);
	if h.is_replay() {
		h.finish();
	}
	let (Some(base_bin), Some(unsafe_bin), Some(ub_bin)) = (env("VERIF_BIN_RELEASE_TRANSCRIPT"), env("VERIF_BIN_UNSAFE_TRANSCRIPT"), env("VERIF_BIN_UNSAFE_UBCHECK_TRANSCRIPT")) else {
		h.run.machinery_error("transcript binaries not provided (run through bin/check)");
		h.finish();
	};
	let args: Vec<&str> = if thorough { vec![] } else { vec![] };
	let base = run_transcript(&base_bin, &args, None);
	if !base.complete {
		h.run.machinery_error(format!("default-build transcript incomplete: {}", base.signal_or_error));
		h.finish();
	}
	if !base.end.contains("unsafe_performance=false") {
		h.run.machinery_error("the base transcript binary was built WITH unsafe_performance");
	}
	// programs on which the default build panics are excluded
	let skip: Vec<String> = base.lines.iter().filter(|(_, l)| l.status == "panic").map(|(k, _)| k.clone()).collect();
	let skipf = std::path::Path::new(&base_bin).parent().unwrap().join("c19-skip.txt");
	let _ = std::fs::write(&skipf, skip.join("\n"));
	let skip_arg = skipf.to_string_lossy().to_string();
	let mut a2: Vec<&str> = args.clone();
	a2.push("--skip");
	a2.push(&skip_arg);

	let sink = VioSink::new("Builds/default-vs-unsafe_performance");
	// element-lifetime ledger of the Window<Tracked> programs: an error in ANY build is a violation
	for (id, l) in base.lines.iter().filter(|(_, l)| l.status == "ledger-error") {
		sink.push(&format!("{}/element-dropped-twice-or-used-after-drop[default build]", l.block), id.clone(), "the drop ledger of the element type reports a dead element in use or a double drop".into());
	}
	// (1) bit-identical results
	let uns = run_transcript(&unsafe_bin, &a2, None);
	if !uns.end.contains("unsafe_performance=true") && uns.complete {
		h.run.machinery_error("the feature transcript binary was built WITHOUT unsafe_performance");
	}
	if !uns.complete {
		sink.push("unsafe-build/crashed", "whole transcript".into(), format!("the unsafe_performance build did not finish: {}", uns.signal_or_error));
	}
	for (id, l) in uns.lines.iter().filter(|(_, l)| l.status == "ledger-error") {
		sink.push(&format!("{}/element-dropped-twice-or-used-after-drop", l.block), id.clone(), "unsafe_performance build: the drop ledger of the element type reports a dead element in use or a double drop".into());
	}
	let c = compare(&base, &uns, false);
	for (block, id, what) in c.diffs.iter() {
		sink.push(&format!("{block}/results-differ"), id.clone(), what.clone());
	}
	if uns.complete && c.missing > 0 {
		h.run.machinery_error(format!("{} programs missing from the unsafe transcript", c.missing));
	}
	h.run.note("programs_compared", serde_json::json!(c.compared));
	h.run.note("programs_excluded_default_panics", serde_json::json!(c.excluded_base_panics));

	// (2a) unchecked indexing: std's precondition checks abort on an out-of-range get_unchecked
	let ub = run_transcript(&ub_bin, &a2, None);
	let mut ub_blocks = 0u64;
	if !ub.complete {
		// attribute the abort to a block
		let mut blocks: Vec<String> = base.lines.values().map(|l| l.block.clone()).collect();
		blocks.sort();
		blocks.dedup();
		let mut found = false;
		for b in &blocks {
			let r = run_transcript(&ub_bin, &["--only", b, "--skip", &skip_arg], None);
			ub_blocks += 1;
			if !r.complete {
				found = true;
				let msg: String = r.signal_or_error.lines().filter(|l| l.contains("unsafe precondition") || l.contains("panicked")).collect::<Vec<_>>().join(" | ");
				sink.push(&format!("{b}/invalid-access/unsafe-precondition-abort"), b.clone(), format!("the unsafe_performance + debug-assertions build aborts in this block: {} {}", msg, r.signal_or_error.chars().take(300).collect::<String>()));
			}
		}
		if !found {
			h.run.machinery_error(format!("ubcheck transcript incomplete but no block reproduces it: {}", ub.signal_or_error));
		}
	} else {
		let c2 = compare(&base, &ub, false);
		for (block, id, what) in c2.diffs.iter() {
			// an unwinding panic of a debug assertion inside yata is C10's business, not an invalid access
			if what.starts_with("status") && what.ends_with("vs panic") {
				continue;
			}
			sink.push(&format!("{block}/results-differ[ubcheck]"), id.clone(), what.clone());
		}
	}
	// (2b) raw pointer copies have no such check: valgrind memcheck on the Window and SMM blocks
	let mut vg_runs = 0u64;
	let have_valgrind = std::process::Command::new("valgrind").arg("--version").output().map(|o| o.status.success()).unwrap_or(false);
	if !have_valgrind {
		h.run.machinery_error("valgrind not found");
	} else {
		let mut blocks = vec!["window", "method/SMM", "method/MedianAbsDev"];
		if thorough {
			blocks.extend_from_slice(&["method/SMA", "method/Highest", "method/HighestIndex", "method/UpperReversalSignal", "method/Conv", "indicator/MACD", "indicator/DonchianChannel", "indicator/BollingerBands", "method/MAInstance"]);
		}
		for b in blocks {
			let mut va: Vec<&str> = vec!["--only", b, "--skip", &skip_arg];
			if !thorough {
				va.push("--small");
			}
			let r = run_transcript(&unsafe_bin, &va, Some(&["valgrind", "-q", "--error-exitcode=97", "--errors-for-leak-kinds=none", "--leak-check=no"]));
			vg_runs += 1;
			if r.exit == Some(97) {
				let first: String = r.signal_or_error.lines().filter(|l| l.contains("Invalid") || l.contains("uninitialised")).take(3).collect::<Vec<_>>().join(" | ");
				sink.push(&format!("{b}/invalid-access/valgrind"), b.to_string(), format!("memcheck reports: {first}"));
			} else if !r.complete {
				// the subject itself faults (the plain runs above crash too): a verdict, not a machinery problem
				if !uns.complete || !ub.complete {
					sink.push(&format!("{b}/invalid-access/crash-under-valgrind"), b.to_string(), format!("the unsafe_performance build faults in this block: {}", r.signal_or_error.chars().take(400).collect::<String>()));
				} else {
					h.run.machinery_error(format!("valgrind run of block {b} did not complete: {}", r.signal_or_error.chars().take(400).collect::<String>()));
				}
			} else {
				// same digests under valgrind
				for (id, l) in &r.lines {
					if let Some(bl) = base.lines.get(id) {
						if bl.status != "panic" && bl.digest != l.digest && !va.contains(&"--small") {
							sink.push(&format!("{b}/results-differ[valgrind]"), id.clone(), String::new());
						}
					}
				}
			}
		}
	}
	h.run.note("ubcheck_block_reruns", serde_json::json!(ub_blocks));
	h.run.note("valgrind_runs", serde_json::json!(vg_runs));
	let n = base.lines.len() as u64;
	let sample = base.lines.iter().nth(base.lines.len() / 2).map(|(k, v)| serde_json::json!({"program": k, "status": v.status, "digest": v.digest})).unwrap_or_default();
	h.run.enum_block("programs run in 3 builds (default, unsafe_performance, unsafe_performance+ub_checks) + valgrind blocks", n * 3, c.compared.max(2), true, sample, sink.into_violations());
	h.run.assume("std's debug-assertion precondition checks catch every out-of-range get_unchecked; valgrind memcheck catches heap accesses that leave their allocation; in-bounds wrong copies would show as digest differences (instance Debug text is part of every digest)");
	h.finish();
}
