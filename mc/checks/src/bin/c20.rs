//! C20 — PeriodType width and ValueType precision are only capacity and precision choices.
//!
//! Oracle 1: per-program transcript digests of the wide-period builds equal the default
//! build's for all programs whose parameters fit the default type and whose construction
//! succeeds there (f32 builds are compared among themselves).
//! Oracle 2: the definitional checks (C01, C02, C04, C14; C02/C03/C04/C15 for f32) are
//! re-run INSIDE the feature builds, with window lengths beyond 255 for the wide types and
//! eps = 2^-23 for f32.

use checks::xbuild::*;
use checks::*;

fn env(k: &str) -> Option<String> {
	std::env::var(k).ok()
}

fn main() {
	let mut h = H::start("C20");
	let thorough = h.thorough();
	h.enum_replay("Builds/period-and-value-types", |_| None);
	if h.is_replay() {
		h.finish();
	}
	let sink = VioSink::new("Builds/period-and-value-types");
	let Some(base_bin) = env("VERIF_BIN_RELEASE_TRANSCRIPT") else {
		h.run.machinery_error("transcript binaries not provided (run through bin/check)");
		h.finish();
	};
	let base = run_transcript(&base_bin, &["--outputs-only"], None);
	if !base.complete {
		h.run.machinery_error(format!("default transcript incomplete: {}", base.signal_or_error));
		h.finish();
	}
	let mut compared = 0u64;
	let mut capacity = 0u64;
	let mut builds = vec!["default".to_string()];
	// oracle 1: wide period types against the default build
	let mut wide = vec![("u16", "VERIF_BIN_U16_TRANSCRIPT")];
	if thorough {
		wide.push(("u32", "VERIF_BIN_U32_TRANSCRIPT"));
		wide.push(("u64", "VERIF_BIN_U64_TRANSCRIPT"));
		wide.push(("u16+unsafe_performance", "VERIF_BIN_U16_UNSAFE_TRANSCRIPT"));
	}
	for (name, var) in wide {
		let Some(bin) = env(var) else {
			h.run.machinery_error(format!("{var} not set"));
			continue;
		};
		let t = run_transcript(&bin, &["--outputs-only"], None);
		builds.push(name.to_string());
		if !t.complete {
			sink.push(&format!("{name}/build-crashed"), name.into(), t.signal_or_error.chars().take(400).collect());
			continue;
		}
		if !t.end.contains(&format!("PeriodType={}", &name[..3])) {
			h.run.machinery_error(format!("{name} transcript binary reports {}", t.end));
		}
		let c = compare(&base, &t, true);
		compared += c.compared;
		capacity += c.excluded_capacity;
		for (block, id, what) in c.diffs {
			sink.push(&format!("{name}/{block}/results-differ-from-default"), id, what);
		}
	}
	// wide programs (lengths beyond 255) exist in no default-build transcript: the unsafe_performance build of the
	// u16 period type is compared with the plain u16 build on them
	if thorough {
		if let (Some(a), Some(b)) = (env("VERIF_BIN_U16_TRANSCRIPT"), env("VERIF_BIN_U16_UNSAFE_TRANSCRIPT")) {
			let ta = run_transcript(&a, &["--outputs-only", "--wide", "--only", "method"], None);
			let tb = run_transcript(&b, &["--outputs-only", "--wide", "--only", "method"], None);
			if !ta.complete || !tb.complete {
				sink.push("u16-wide/build-crashed", "u16 vs u16+unsafe_performance, wide programs".into(), format!("{} {}", ta.signal_or_error, tb.signal_or_error).chars().take(400).collect());
			} else {
				let c = compare(&ta, &tb, false);
				compared += c.compared;
				for (block, id, what) in c.diffs {
					sink.push(&format!("u16+unsafe_performance/{block}/results-differ-from-u16[wide programs]"), id, what);
				}
			}
		}
	}
	// f32 builds among themselves
	if let Some(f32bin) = env("VERIF_BIN_F32_TRANSCRIPT") {
		let fb = run_transcript(&f32bin, &["--outputs-only"], None);
		builds.push("f32".into());
		if !fb.complete {
			sink.push("f32/build-crashed", "f32".into(), fb.signal_or_error.chars().take(400).collect());
		} else {
			if !fb.end.contains("ValueType=f32") {
				h.run.machinery_error(format!("f32 transcript binary reports {}", fb.end));
			}
			let panics = fb.lines.values().filter(|l| l.status == "panic").count();
			if panics > 0 {
				let ex = fb.lines.iter().find(|(_, l)| l.status == "panic").map(|(k, _)| k.clone()).unwrap_or_default();
				sink.push("f32/program-panics", ex, format!("{panics} programs panic in the f32 build"));
			}
			// construction outcomes do not depend on precision
			for (id, b) in &base.lines {
				if let Some(o) = fb.lines.get(id) {
					if (b.status == "ctor-err") != (o.status == "ctor-err") {
						sink.push(&format!("f32/{}/constructor-outcome-differs", b.block), id.clone(), format!("default {} vs f32 {}", b.status, o.status));
					}
				}
			}
			if thorough {
				for (name, var, cap) in [("f32+unsafe_performance", "VERIF_BIN_F32_UNSAFE_TRANSCRIPT", false), ("f32+u16", "VERIF_BIN_F32_U16_TRANSCRIPT", true)] {
					let Some(bin) = env(var) else {
						h.run.machinery_error(format!("{var} not set"));
						continue;
					};
					let t = run_transcript(&bin, &["--outputs-only"], None);
					builds.push(name.to_string());
					if !t.complete {
						sink.push(&format!("{name}/build-crashed"), name.into(), t.signal_or_error.chars().take(400).collect());
						continue;
					}
					let c = compare(&fb, &t, cap);
					compared += c.compared;
					capacity += c.excluded_capacity;
					for (block, id, what) in c.diffs {
						sink.push(&format!("{name}/{block}/results-differ-from-f32"), id, what);
					}
				}
			}
		}
	} else {
		h.run.machinery_error("VERIF_BIN_F32_TRANSCRIPT not set");
	}
	h.run.note("builds", serde_json::json!(builds));
	h.run.note("programs_compared_bitwise", serde_json::json!(compared));
	h.run.note("programs_excluded_capacity_difference", serde_json::json!(capacity));
	h.run.enum_block("transcripts across feature builds", compared.max(1), (base.lines.len() as u64).max(2), true, serde_json::json!(base.end), sink.into_violations());

	// oracle 2: definitional checks inside the feature builds
	let sink2 = VioSink::new("Builds/definitional-checks-inside-feature-builds");
	let mut subs: Vec<(&str, &str, &str)> = vec![
		("u16", "C01", "VERIF_BIN_U16_C01"),
		("u16", "C02", "VERIF_BIN_U16_C02"),
		("u16", "C04", "VERIF_BIN_U16_C04"),
		("u16", "C14", "VERIF_BIN_U16_C14"),
		("u32", "C15", "VERIF_BIN_U32_C15"),
		("u32", "C07", "VERIF_BIN_U32_C07"),
		("u16", "C05", "VERIF_BIN_U16_C05"),
		("u16", "C06", "VERIF_BIN_U16_C06"),
		("u16", "C09", "VERIF_BIN_U16_C09"),
		("u16", "C03", "VERIF_BIN_U16_C03"),
		("f32", "C02", "VERIF_BIN_F32_C02"),
		("f32", "C03", "VERIF_BIN_F32_C03"),
		("f32", "C04", "VERIF_BIN_F32_C04"),
	];
	if thorough {
		subs.push(("f32", "C15", "VERIF_BIN_F32_C15"));
		subs.push(("u32", "C04", "VERIF_BIN_U32_C04"));
		subs.push(("u64", "C01", "VERIF_BIN_U64_C01"));
		subs.push(("u64", "C03", "VERIF_BIN_U64_C03"));
	}
	let scratch_root = std::path::Path::new(&base_bin).parent().unwrap().parent().unwrap().parent().unwrap().join("c20-scratch");
	let mut sub_states = 0u64;
	let mut sub_trans = 0u64;
	let mut sub_runs = vec![];
	// the sub-runs are independent processes: run them side by side
	let mut jobs = vec![];
	for (variant, prop, var) in subs {
		let Some(bin) = env(var) else {
			h.run.machinery_error(format!("{var} not set"));
			continue;
		};
		let dir = scratch_root.join(format!("{variant}-{prop}"));
		let _ = std::fs::create_dir_all(&dir);
		let _ = std::fs::copy(mccore::evidence::verif_dir().join("known_findings.json"), dir.join("known_findings.json"));
		jobs.push((variant, prop, bin, dir));
	}
	let outs: Vec<_> = std::thread::scope(|sc| {
		let hs: Vec<_> = jobs
			.iter()
			.map(|(_, _, bin, dir)| sc.spawn(move || std::process::Command::new("timeout").arg("-k").arg("5").arg("1500").arg(bin).arg("quick").env("VERIF_DIR", dir).env("VERIF_WIDE", if thorough { "2" } else { "1" }).env("RAYON_NUM_THREADS", "6").output()))
			.collect();
		hs.into_iter().map(|h| h.join().unwrap()).collect()
	});
	for ((variant, prop, bin, _), out) in jobs.iter().zip(outs) {
		let (variant, prop) = (*variant, *prop);
		match out {
			Err(e) => h.run.machinery_error(format!("cannot run {bin}: {e}")),
			Ok(o) => {
				let text = String::from_utf8_lossy(&o.stdout).to_string();
				let code = o.status.code();
				let mut last = String::new();
				for l in text.lines() {
					if l.starts_with("  ") && l.contains(" :: ") {
						let f: Vec<&str> = l.trim().splitn(3, " :: ").collect();
						if f.len() == 3 {
							sink2.push(&format!("{variant}/{prop}/{}", f[1]), f[0].to_string(), f[2].chars().take(300).collect());
						}
					}
					if l.starts_with(prop) {
						last = l.to_string();
					}
				}
				match code {
					Some(0) | Some(1) => {}
					c => h.run.machinery_error(format!("{variant}/{prop} sub-check exited with {c:?}: {}", String::from_utf8_lossy(&o.stderr).chars().take(600).collect::<String>())),
				}
				// counts from the sub-run's summary line
				for tok in last.split_whitespace() {
					if let Some(v) = tok.strip_prefix("states=") {
						sub_states += v.parse::<u64>().unwrap_or(0);
					}
					if let Some(v) = tok.strip_prefix("transitions=") {
						sub_trans += v.parse::<u64>().unwrap_or(0);
					}
				}
				sub_runs.push(serde_json::json!({"build": variant, "check": prop, "exit": code, "summary": last}));
			}
		}
	}
	h.run.note("definitional_sub_runs", serde_json::json!(sub_runs));
	h.run.enum_block("definitional checks re-run inside feature builds (states+transitions of the sub-runs)", (sub_states + sub_trans).max(1), sub_states.max(2), false, serde_json::json!("see definitional_sub_runs"), sink2.into_violations());
	h.run.assume("Debug/JSON text of instances does not depend on the integer width, so digests are comparable across period types; f32 builds are only compared among themselves and checked definitionally");
	h.finish();
}
