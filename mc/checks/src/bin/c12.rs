//! C12 — documented value ranges and ordering invariants hold on every valid stream.
//! Reference-free monitors evaluated on every transition of exhaustive explorations that
//! contain the regime "volatile -> exactly flat (>= 2 periods) -> volatile" over a
//! rounding-active (non-dyadic) candle alphabet, zero-volume bars and trends.

use checks::ind::*;
use checks::indcheck::indicator_configs;
use checks::subj::*;
use checks::*;
use yata::core::{Candle, OHLCV};

type V = ValueType;
const TOL: f64 = 1e-9; // rounding is ~1e-16..1e-13 here; residue-driven range escapes are O(1)

fn r_candles() -> Vec<Candle> {
	let c = alpha::candle;
	vec![c(1.0, 1.1, 0.9, 1.0, 1.3), c(1.0, 1.7, 0.7, 1.3, 0.7), c(1.3, 1.3, 0.7, 0.9, 2.1), c(0.9, 1.7, 0.9, 1.7, 0.9), c(1.7, 1.7, 1.7, 1.7, 1.1), c(1.1, 1.3, 1.0, 1.1, 0.0)]
}

/// valid candles whose high-low spread is 1..3 units in the last place (quotients by the spread must
/// stay in range however the spread is formed)
fn ulp_candles() -> Vec<Candle> {
	let up = |x: ValueType, k: u8| {
		let mut y = x;
		for _ in 0..k {
			y = ValueType::from_bits(y.to_bits() + 1);
		}
		y
	};
	let l: ValueType = 1.25;
	vec![
		Candle { open: l, high: up(l, 3), low: l, close: l, volume: 1.0 },
		Candle { open: up(l, 1), high: up(l, 1), low: l, close: up(l, 1), volume: 2.0 },
		Candle { open: up(l, 1), high: up(l, 2), low: l, close: up(l, 1), volume: 1.0 },
		Candle { open: l, high: l, low: l, close: l, volume: 1.0 },
		alpha::candle(1.0, 1.7, 0.7, 1.3, 0.7),
		// neighbours of the first one in a single field: sums h+l+c one unit apart that may divide to the same typical price
		Candle { open: l, high: up(l, 3), low: l, close: up(l, 1), volume: 2.0 },
		Candle { open: l, high: up(l, 3), low: l, close: up(l, 2), volume: 3.0 },
		Candle { open: l, high: up(l, 3), low: l, close: up(l, 3), volume: 1.0 },
	]
}
/// the same idea at a price level where the sum h+l+c lies in the upper half of its binade (450 in [256, 512)):
/// closes two units apart give sums one unit apart that divide to the same typical price
fn ulp_candles_150() -> Vec<Candle> {
	let up = |x: ValueType, k: u8| {
		let mut y = x;
		for _ in 0..k {
			y = ValueType::from_bits(y.to_bits() + 1);
		}
		y
	};
	vec![
		Candle { open: 150.0, high: 150.5, low: 149.5, close: 150.25, volume: 10.0 },
		Candle { open: 150.0, high: 150.5, low: 149.5, close: 150.0, volume: 10.0 },
		Candle { open: 150.0, high: 150.5, low: 149.5, close: up(150.0, 2), volume: 5.0 },
		Candle { open: 150.0, high: 150.5, low: 149.5, close: up(150.0, 4), volume: 5.0 },
		Candle { open: 150.0, high: 150.5, low: 149.5, close: up(150.0, 6), volume: 2.0 },
		Candle { open: 150.0, high: 150.5, low: 149.5, close: 149.9, volume: 10.0 },
	]
}

fn span_of(c: &dyn IndCfg) -> usize {
	let mut n = 1usize;
	for (_, v) in json_map(&c.to_json().unwrap_or_default()) {
		if let Some(u) = v.as_u64() {
			n = n.max(u as usize);
		}
		if let Some(o) = v.as_object() {
			if let Some(u) = o.values().next().and_then(|x| x.as_u64()) {
				n = n.max(u as usize);
			}
		}
	}
	n
}
fn ma_kinds_of(c: &dyn IndCfg) -> Vec<String> {
	json_map(&c.to_json().unwrap_or_default()).values().filter_map(|v| v.as_object().and_then(|o| o.keys().next().cloned())).collect()
}
fn kinds_have_vidya(c: &dyn IndCfg) -> bool {
	ma_kinds_of(c).iter().any(|k| k == "vidya")
}
fn overshooting(kinds: &[String]) -> bool {
	kinds.iter().any(|k| matches!(k.as_str(), "hma" | "lin_reg" | "dema" | "tema"))
}

#[derive(Clone)]
struct St {
	imp: Box<dyn IndInst>,
	cfg: usize,
	hist: Vec<Candle>,
	phase: u8,
	steps_in_phase: u32,
	was_flat: bool,
}
struct RangeSys {
	name: String,
	cfgs: Vec<Box<dyn IndCfg>>,
	spans: Vec<usize>,
	alphabet: Vec<Candle>,
	d1: u32,
	d3: u32,
}
#[derive(Clone, Debug)]
enum Act {
	C(usize),
	Up,
	Down,
	/// macro-step: repeat the last candle for 2*span+2 steps
	Flat,
}
impl System for RangeSys {
	type State = St;
	type Act = Act;
	fn name(&self) -> String {
		self.name.clone()
	}
	fn inits(&self) -> Vec<(St, String)> {
		let mut v = vec![];
		for (i, c) in self.cfgs.iter().enumerate() {
			for c0 in &self.alphabet[..2] {
				if let Ok(Ok(imp)) = catch(|| c.init(c0)) {
					v.push((St { imp, cfg: i, hist: vec![*c0], phase: 1, steps_in_phase: 0, was_flat: false }, format!("{} {} c0={}", c.const_name(), c.to_json().unwrap_or_default(), In::C(*c0).show())));
				}
			}
		}
		v
	}
	fn actions(&self, s: &St, _: u32) -> Vec<(Act, u8)> {
		let mut v = vec![];
		let free = |v: &mut Vec<(Act, u8)>| {
			for i in 0..self.alphabet.len() {
				v.push((Act::C(i), 0));
			}
			v.push((Act::Up, 0));
			if s.hist.last().map(|c| c.low > 0.3).unwrap_or(false) {
				v.push((Act::Down, 0));
			}
		};
		match s.phase {
			1 => {
				if s.steps_in_phase < self.d1 {
					free(&mut v);
				}
				if s.steps_in_phase >= 2 {
					v.push((Act::Flat, 0));
				}
			}
			_ => {
				if s.steps_in_phase < self.d3 {
					free(&mut v);
				}
			}
		}
		v
	}
	fn show_act(&self, a: &Act) -> String {
		match a {
			Act::C(i) => In::C(self.alphabet[*i]).show(),
			Act::Up => "prev+0.1".into(),
			Act::Down => "prev-0.1".into(),
			Act::Flat => "flat x (2*period+2)".into(),
		}
	}
	fn step(&self, s: &St, a: &Act) -> Step<St> {
		let mut n = s.clone();
		let last = *s.hist.last().unwrap();
		let shift = |c: &Candle, d: V| Candle { open: c.open + d, high: c.high + d, low: c.low + d, close: c.close + d, volume: c.volume };
		let (cands, flat): (Vec<Candle>, bool) = match a {
			Act::C(i) => (vec![self.alphabet[*i]], false),
			Act::Up => (vec![shift(&last, 0.1)], false),
			Act::Down => (vec![shift(&last, -0.1)], false),
			Act::Flat => (vec![last; 2 * self.spans[s.cfg] + 2], true),
		};
		if flat {
			n.phase = 3;
			n.steps_in_phase = 0;
			n.was_flat = true;
		} else {
			n.steps_in_phase += 1;
		}
		let cfg = &self.cfgs[s.cfg];
		let name = cfg.const_name();
		let span = self.spans[s.cfg];
		let mut exempt = false;
		for (j, c) in cands.iter().enumerate() {
			let r = match catch(|| n.imp.next(c)) {
				Ok(r) => r,
				Err(_) => return Step::Prune,
			};
			n.hist.push(*c);
			if n.hist.len() > 2 * span + 8 {
				n.hist.remove(0);
			}
			let vid = if kinds_have_vidya(cfg.as_ref()) { "/with-vidya" } else { "" };
			let class = format!("{}{vid}", if n.was_flat { "after-flat-stretch" } else { "volatile" });
			if let Err((what, d)) = monitor(name, cfg.as_ref(), &r.values().iter().map(|v| *v as f64).collect::<Vec<_>>(), &n.hist, span) {
				if what == "exempt" {
					exempt = true;
					continue;
				}
				return Step::Violation(Failure::new(format!("{name}/{what}/{class}"), format!("inner step {j}: {d}")));
			}
		}
		if exempt {
			Step::Exempt(n, "formula undefined (zero volume / zero variance)")
		} else {
			Step::Next(n)
		}
	}
}

// ---------------------------------------------------------------- long streams

/// One long deterministic stream per configuration, fed in blocks of 256 candles (one transition each);
/// the monitors run after every candle. Volume bursts (x100, closing on the high or on the low) arrive on
/// every 64th candle and at irregular places in between, so that whatever an instance does every 2^k steps
/// (rebasing a counter, refreshing a running sum) coincides with a value that dominates its window.
#[derive(Clone)]
struct LSt {
	imp: Box<dyn IndInst>,
	cfg: usize,
	stream: u8,
	hist: Vec<Candle>,
	t: u32,
}
struct LongRangeSys {
	name: String,
	cfgs: Vec<Box<dyn IndCfg>>,
	spans: Vec<usize>,
	blocks: u32,
}
fn long_candle(stream: u8, t: u32, prev_close: f64) -> Candle {
	const PHI: f64 = 0.618_033_988_749_894_9;
	let burst = t % 64 == 0 || (t as f64 * PHI * 7.0).fract() < 0.02;
	let mut c = if stream == 0 {
		checks::indcheck::volatile_candle(t, prev_close)
	} else {
		let tri = |t: u32, p: u32| -> f64 {
			let x = (t % p) as f64 / p as f64;
			if x < 0.5 { 4.0 * x - 1.0 } else { 3.0 - 4.0 * x }
		};
		let amp = 1.0 + 6.0 * (tri(t, 113) + 1.0) / 2.0;
		let cl = 100.0 + 0.003 * t as f64 + amp * tri(t, 17);
		let o = prev_close;
		Candle { open: o as V, high: (o.max(cl) + 0.25 * (t % 3) as f64) as V, low: (o.min(cl) - 0.25 * (t % 4) as f64) as V, close: cl as V, volume: (1 + (t * 5) % 7) as V }
	};
	if burst {
		c.volume *= 100.0;
		if (t / 64) % 2 == 0 {
			c.close = c.high;
		} else {
			c.close = c.low;
		}
	}
	c
}
impl System for LongRangeSys {
	type State = LSt;
	type Act = ();
	fn name(&self) -> String {
		self.name.clone()
	}
	fn inits(&self) -> Vec<(LSt, String)> {
		let mut v = vec![];
		for (i, c) in self.cfgs.iter().enumerate() {
			for stream in [0u8, 1] {
				let c0 = long_candle(stream, 0, if stream == 0 { 10.0 } else { 100.0 });
				if let Ok(Ok(imp)) = catch(|| c.init(&c0)) {
					v.push((LSt { imp, cfg: i, stream, hist: vec![c0], t: 1 }, format!("{} {} stream={}", c.const_name(), c.to_json().unwrap_or_default(), if stream == 0 { "volatile-with-volume-bursts" } else { "swelling-triangle-wave-with-volume-bursts" })));
				}
			}
		}
		v
	}
	fn actions(&self, s: &LSt, _: u32) -> Vec<((), u8)> {
		if s.t < self.blocks * 256 { vec![((), 0)] } else { vec![] }
	}
	fn show_act(&self, _: &()) -> String {
		"the next 256 candles of the stream".into()
	}
	fn step(&self, s: &LSt, _: &()) -> Step<LSt> {
		let mut n = s.clone();
		let cfg = &self.cfgs[s.cfg];
		let name = cfg.const_name();
		let span = self.spans[s.cfg];
		let vid = if kinds_have_vidya(cfg.as_ref()) { "/with-vidya" } else { "" };
		let mut exempt = false;
		for _ in 0..256 {
			let c = long_candle(n.stream, n.t, n.hist.last().unwrap().close as f64);
			let r = match catch(|| n.imp.next(&c)) {
				Ok(r) => r,
				Err(_) => return Step::Prune,
			};
			n.hist.push(c);
			if n.hist.len() > 2 * span + 8 {
				n.hist.remove(0);
			}
			if let Err((what, d)) = monitor(name, cfg.as_ref(), &r.values().iter().map(|v| *v as f64).collect::<Vec<_>>(), &n.hist, span) {
				if what == "exempt" {
					exempt = true;
				} else {
					return Step::Violation(Failure::new(format!("{name}/{what}/long-stream{vid}"), format!("candle {} of the stream: {d}", n.t)));
				}
			}
			n.t += 1;
		}
		if exempt {
			Step::Exempt(n, "formula undefined (zero volume / zero variance)")
		} else {
			Step::Next(n)
		}
	}
}

fn window<'a>(h: &'a [Candle], n: usize) -> &'a [Candle] {
	&h[h.len().saturating_sub(n)..]
}

/// Err(("exempt", _)) = formula undefined on this step
fn monitor(name: &str, cfg: &dyn IndCfg, v: &[f64], hist: &[Candle], span: usize) -> Result<(), (String, String)> {
	let c = hist.last().unwrap();
	let kinds = ma_kinds_of(cfg);
	let fail = |w: &str, d: String| Err((w.to_string(), d));
	let in_range = |i: usize, lo: f64, hi: f64| -> Result<(), (String, String)> {
		if v[i].is_nan() || v[i] < lo - TOL || v[i] > hi + TOL {
			return Err((format!("value#{i}/outside-[{lo},{hi}]"), format!("value #{i} = {:?}", v[i])));
		}
		Ok(())
	};
	let params = json_map(&cfg.to_json().unwrap_or_default());
	let period = |k: &str| params.get(k).and_then(|x| x.as_u64()).unwrap_or(span as u64) as usize;
	let zero_vol_window = |n: usize| window(hist, n).iter().map(|c| c.volume as f64).sum::<f64>() == 0.0;
	// finiteness wherever the formula is defined
	let volume_normalised = matches!(name, "ChaikinMoneyFlow" | "EaseOfMovement" | "MoneyFlowIndex");
	let any_zero_volume = window(hist, 2 * span + 2).iter().any(|c| c.volume == 0.0);
	for (i, x) in v.iter().enumerate() {
		if !x.is_finite() {
			if volume_normalised && any_zero_volume {
				return fail("exempt", String::new());
			}
			if name == "TrendStrengthIndex" {
				// correlation of a window without any variance is 0/0: formula undefined
				let src = params.get("source").and_then(|x| x.as_str()).unwrap_or("close").to_string();
				let val = |c: &Candle| -> f64 {
					(match src.as_str() {
						"open" => c.open,
						"high" => c.high,
						"low" => c.low,
						"hl2" => c.hl2(),
						"tp" => c.tp(),
						"volume" => c.volume,
						"volumed_price" => c.volumed_price(),
						_ => c.close,
					}) as f64
				};
				let n = period("period");
				let w = window(hist, n);
				if hist.len() <= n || w.iter().all(|c| val(c) == val(&w[0])) {
					return fail("exempt", String::new());
				}
				let (mx, mn) = (w.iter().map(|c| val(c)).fold(f64::NEG_INFINITY, f64::max), w.iter().map(|c| val(c)).fold(f64::INFINITY, f64::min));
				if mx - mn < 1e-9 * mx.abs().max(1.0) {
					return fail(&format!("value#{i}/not-finite/near-constant-window"), format!("value #{i} = {x:?} on a window spanning only {:e}", mx - mn));
				}
			}
			if name == "RelativeStrengthIndex" && overshooting(&kinds) {
				return fail("exempt", String::new());
			}
			return fail(&format!("value#{i}/not-finite"), format!("value #{i} = {x:?}"));
		}
	}
	match name {
		"Aroon" => {
			in_range(0, 0.0, 1.0)?;
			in_range(1, 0.0, 1.0)?;
		}
		"RelativeStrengthIndex" => {
			if !overshooting(&kinds) {
				in_range(0, 0.0, 1.0)?;
			}
		}
		"MoneyFlowIndex" => {
			in_range(1, 0.0, 1.0)?;
		}
		"StochasticOscillator" => {
			if !overshooting(&kinds) {
				in_range(0, 0.0, 1.0)?;
				in_range(1, 0.0, 1.0)?;
			}
		}
		"ChandeMomentumOscillator" => in_range(0, -1.0, 1.0)?,
		"ChaikinMoneyFlow" => {
			if zero_vol_window(period("size")) {
				return fail("exempt", String::new());
			}
			in_range(0, -1.0, 1.0)?;
		}
		"TrueStrengthIndex" => in_range(0, -1.0, 1.0)?,
		"SMIErgodicIndicator" => in_range(0, -1.0, 1.0)?,
		"TrendStrengthIndex" => in_range(0, -1.0, 1.0)?,
		"BollingerBands" => {
			// upper >= middle >= lower
			let m = v[1].abs().max(1.0);
			if !(v[0] >= v[1] - TOL * m && v[1] >= v[2] - TOL * m) {
				return fail("bands/order", format!("upper {:?} middle {:?} lower {:?}", v[0], v[1], v[2]));
			}
		}
		"KeltnerChannel" => {
			// values: source, upper, lower
			let m = v[0].abs().max(1.0);
			if !(v[1] >= v[2] - TOL * m) {
				return fail("bands/order", format!("upper {:?} lower {:?}", v[1], v[2]));
			}
		}
		"Envelopes" => {
			let m = v[0].abs().max(1.0);
			if !(v[0] >= v[1] - TOL * m) {
				return fail("bands/order", format!("upper {:?} lower {:?}", v[0], v[1]));
			}
		}
		"PriceChannelStrategy" => {
			let m = v[0].abs().max(1.0);
			if !(v[0] >= v[1] - TOL * m) {
				return fail("bands/order", format!("upper {:?} lower {:?}", v[0], v[1]));
			}
		}
		"DonchianChannel" => {
			// values: lower, middle, upper — the channel contains the highs and lows it is built from
			let n = period("period");
			let w = window(hist, n);
			let hh = w.iter().map(|c| c.high as f64).fold(f64::NEG_INFINITY, f64::max);
			let ll = w.iter().map(|c| c.low as f64).fold(f64::INFINITY, f64::min);
			// prehistory = first candle (already inside hist[0] while the window is not yet full)
			if hist.len() >= n && !(v[2] >= hh && v[0] <= ll && v[0] <= v[1] && v[1] <= v[2]) {
				return fail("channel/does-not-contain-window", format!("channel [{:?}, {:?}, {:?}] window highs up to {hh:?}, lows down to {ll:?}", v[0], v[1], v[2]));
			}
		}
		"ParabolicSAR" => {
			// values: SAR, trend — the SAR stays on the side of the price opposite to its trend
			let (sar, trend) = (v[0], v[1]);
			let m = sar.abs().max(1.0);
			if trend > 0.0 && sar > c.low as f64 + TOL * m {
				return fail("sar/wrong-side", format!("trend {trend} but SAR {sar:?} above the low {:?}", c.low));
			}
			if trend < 0.0 && sar < c.high as f64 - TOL * m {
				return fail("sar/wrong-side", format!("trend {trend} but SAR {sar:?} below the high {:?}", c.high));
			}
		}
		_ => {}
	}
	Ok(())
}

// ------------------------------------------------------------------ methods: dispersion measures are never negative

#[derive(Clone)]
struct MSt {
	imp: Box<dyn Subject>,
	last: In,
	n: usize,
	phase: u8,
	k: u32,
	mag: f64,
}
struct DispSys {
	spec_name: &'static str,
	ns: Vec<usize>,
	alphabet: Vec<In>,
	d1: u32,
	d3: u32,
}
impl System for DispSys {
	type State = MSt;
	type Act = Option<In>;
	fn name(&self) -> String {
		format!("{}/non-negative", self.spec_name)
	}
	fn inits(&self) -> Vec<(MSt, String)> {
		let sp = spec(self.spec_name);
		let mut v = vec![];
		for &n in &self.ns {
			let p = if sp.par == ParKind::Unit { Params::Unit } else { Params::N(n as PeriodType) };
			for v0 in &self.alphabet[..2] {
				if let Ok(Ok(imp)) = catch(|| (sp.ctor)(&p, v0)) {
					v.push((MSt { imp, last: *v0, n, phase: 1, k: 0, mag: 0.0 }, format!("{}({n}) v0={}", self.spec_name, v0.show())));
				}
			}
		}
		v
	}
	fn actions(&self, s: &MSt, _: u32) -> Vec<(Option<In>, u8)> {
		let mut v = vec![];
		let lim = if s.phase == 1 { self.d1 } else { self.d3 };
		if s.k < lim {
			v.extend(self.alphabet.iter().map(|a| (Some(*a), 0)));
		}
		if s.phase == 1 && s.k >= 2 {
			v.push((None, 0));
		}
		v
	}
	fn show_act(&self, a: &Option<In>) -> String {
		a.map(|i| i.show()).unwrap_or_else(|| "flat x (2n+2)".into())
	}
	fn step(&self, s: &MSt, a: &Option<In>) -> Step<MSt> {
		let mut n = s.clone();
		let xs: Vec<In> = match a {
			Some(x) => vec![*x],
			None => vec![s.last; 2 * s.n + 2],
		};
		if a.is_none() {
			n.phase = 3;
			n.k = 0;
		} else {
			n.k += 1;
		}
		for x in xs {
			n.last = x;
			n.mag = n.mag.max(match x {
				In::V(v) => (v as f64).abs(),
				In::C(c) => c.high as f64,
				In::P(a, _) => (a as f64).abs(),
			});
			let o = match catch(|| n.imp.next(&x)) {
				Ok(Out::V(o)) => o as f64,
				_ => return Step::Prune,
			};
			// the radius of a running sum of absolute changes over the history so far
			let r = 16.0 * eps() * (600.0 + s.n as f64) * 2.0 * n.mag.max(1.0);
			if o.is_nan() {
				return Step::Violation(Failure::new(format!("{}/not-finite", self.spec_name), format!("{o:?}")));
			}
			if o < -r {
				return Step::Violation(Failure::new(format!("{}/negative", self.spec_name), format!("output {o:?} < 0 beyond the radius {r:.3e}")));
			}
			if o < 0.0 {
				return Step::Exempt(n, "negative within the rounding radius");
			}
		}
		Step::Next(n)
	}
}

fn main() {
	let mut h = H::start("C12");
	let thorough = h.thorough();
	let only = std::env::var("VERIF_ONLY").ok();
	let monitored = ["Aroon", "RelativeStrengthIndex", "MoneyFlowIndex", "StochasticOscillator", "ChandeMomentumOscillator", "ChaikinMoneyFlow", "TrueStrengthIndex", "SMIErgodicIndicator", "TrendStrengthIndex", "BollingerBands", "KeltnerChannel", "Envelopes", "PriceChannelStrategy", "DonchianChannel", "ParabolicSAR"];
	for c in defaults() {
		let name = c.const_name();
		if let Some(o) = &only {
			if o != name {
				continue;
			}
		}
		let is_mon = monitored.contains(&name);
		// small-period + default configurations; monitored indicators additionally with every MA kind
		let mut cfgs = indicator_configs(Some(name), is_mon);
		// a period-3/4/5 variant of every integer parameter (running-sum residue needs a window of >= 3)
		for p in [3u64, 4, 5] {
			let mut t = c.boxed_clone();
			let mut changed = false;
			for (k, v) in json_map(&c.to_json().unwrap()) {
				if v.is_u64() {
					let mut u = t.boxed_clone();
					if u.set(&k, p.to_string()).is_ok() && u.validate() {
						t = u;
						changed = true;
					}
				}
			}
			if changed && t.validate() {
				cfgs.push(t);
			}
		}
		let spans: Vec<usize> = cfgs.iter().map(|c| span_of(c.as_ref()).min(60)).collect();
		for (tag, al) in [("rounding-active", r_candles()), ("dyadic", alpha::k_candles()), ("ulp-spreads", ulp_candles()), ("ulp-spreads-150", ulp_candles_150())] {
			let few = cfgs.len() <= 14;
			// (thorough used 5 / 3 everywhere at first: more than an hour, with 600 s caps hit)
			let d1 = if tag.starts_with("ulp-spreads") {
				if thorough && is_mon { 3 } else { 2 }
			} else if is_mon {
				if thorough { if few { 5 } else { 4 } } else if few && tag == "rounding-active" { 4 } else if few || tag == "rounding-active" { 3 } else { 2 }
			} else if thorough {
				3
			} else {
				2
			};
			let sys = RangeSys { name: format!("{name}/regimes/{tag}"), cfgs: cfgs.iter().map(|c| c.boxed_clone()).collect(), spans: spans.clone(), alphabet: al, d1, d3: if thorough && few && !tag.starts_with("ulp-spreads") { 3 } else { 2 } };
			h.go(&sys, &Limits::depth(20).wall_secs(600), true);
		}
		// long streams: 4 608 candles (70 144 in the thorough tier, beyond a 16-bit counter)
		let sys = LongRangeSys { name: format!("{name}/long-stream"), cfgs: cfgs.iter().map(|c| c.boxed_clone()).collect(), spans: spans.clone(), blocks: if thorough { 274 } else { 18 } };
		h.go(&sys, &Limits::depth(400).wall_secs(600), true);
	}
	if only.is_none() {
		let vr: Vec<In> = alpha::v_round().into_iter().map(In::V).collect();
		for nm in ["LinearVolatility", "StDev", "MeanAbsDev", "MedianAbsDev", "HighestLowestDelta"] {
			let sys = DispSys { spec_name: nm, ns: vec![2, 3, 4, 5], alphabet: vr.clone(), d1: if thorough { 7 } else { 6 }, d3: 2 };
			h.go(&sys, &Limits::depth(20).wall_secs(300), true);
		}
		let cs: Vec<In> = r_candles().into_iter().map(In::C).collect();
		let sys = DispSys { spec_name: "TR", ns: vec![1], alphabet: cs, d1: 5, d3: 2 };
		h.go(&sys, &Limits::depth(20).wall_secs(300), true);
	}
	h.run.note("tolerance", serde_json::json!("bounded oscillators and orderings: 1e-9 (rounding is <= 1e-13 at these magnitudes; residue-driven escapes are O(1)); dispersion measures: running-sum radius"));
	h.finish();
}
