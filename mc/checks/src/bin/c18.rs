//! C18 — candle helpers satisfy their textbook identities; text forms round-trip.
//! Total enumeration of a 12-value field grid and of string families.

use checks::*;
use rayon::prelude::*;
use std::convert::TryFrom;
use std::str::FromStr;
use yata::core::{Candle, Sequence, Source, OHLCV};
use yata::helpers::MA;

type V = ValueType;
const SYS: &str = "Candle/enum";

fn grid() -> Vec<V> {
	let tiny: V = if IS_F32 { 1e-45 } else { 5e-324 };
	let huge: V = if IS_F32 { 1e30 } else { 1e300 };
	vec![V::NAN, V::NEG_INFINITY, -1.0, -0.0, 0.0, tiny, 0.5, 1.0, 2.0, 3.0, huge, V::INFINITY]
}
fn show(c: &Candle) -> String {
	format!("{:e},{:e},{:e},{:e},{:e}", c.open, c.high, c.low, c.close, c.volume)
}
fn parse_candle(s: &str) -> Option<(Candle, Option<V>)> {
	let mut it = s.split(';');
	let c: Vec<V> = it.next()?.split(',').filter_map(|x| x.trim().parse().ok()).collect();
	if c.len() != 5 {
		return None;
	}
	let pc = it.next().and_then(|x| x.trim().parse().ok());
	Some((Candle { open: c[0], high: c[1], low: c[2], close: c[3], volume: c[4] }, pc))
}
fn close_to(a: V, b: f64, tol: f64) -> bool {
	let a = a as f64;
	if a.is_nan() || b.is_nan() {
		return a.is_nan() && b.is_nan();
	}
	if a.is_infinite() || b.is_infinite() {
		return a == b;
	}
	(a - b).abs() <= tol
}
fn sameval(a: V, b: V) -> bool {
	(a.is_nan() && b.is_nan()) || a == b
}

/// independent validity predicate, written from the documentation:
/// ordered (low <= open, close <= high), positive, finite prices; volume non-negative or absent (NaN)
fn valid_model(c: &Candle) -> bool {
	let prices = [c.open, c.high, c.low, c.close];
	prices.iter().all(|p| p.is_finite() && *p > 0.0)
		&& c.low <= c.high
		&& c.low <= c.close
		&& c.close <= c.high
		&& c.low <= c.open
		&& c.open <= c.high
		&& (c.volume.is_nan() || c.volume >= 0.0)
}

/// A user's candle type with its own typical and median price (last trade / opening price): the provided
/// methods that are documented in terms of other methods must go through the user's overrides.
struct OwnPrices(Candle);
impl OHLCV for OwnPrices {
	fn open(&self) -> V {
		self.0.open
	}
	fn high(&self) -> V {
		self.0.high
	}
	fn low(&self) -> V {
		self.0.low
	}
	fn close(&self) -> V {
		self.0.close
	}
	fn volume(&self) -> V {
		self.0.volume
	}
	fn tp(&self) -> V {
		self.0.close
	}
	fn hl2(&self) -> V {
		self.0.open
	}
}
/// ... and one with its own volumed price (turnover reported by the exchange)
struct OwnTurnover(Candle);
impl OHLCV for OwnTurnover {
	fn open(&self) -> V {
		self.0.open
	}
	fn high(&self) -> V {
		self.0.high
	}
	fn low(&self) -> V {
		self.0.low
	}
	fn close(&self) -> V {
		self.0.close
	}
	fn volume(&self) -> V {
		self.0.volume
	}
	fn volumed_price(&self) -> V {
		self.0.open * self.0.volume
	}
}
fn check_user_types(c: &Candle, f: &mut Vec<(String, String)>) {
	let u = OwnPrices(*c);
	let same = |a: V, b: V| a.to_bits() == b.to_bits() || (a.is_nan() && b.is_nan());
	if !same(u.volumed_price(), u.tp() * u.volume()) {
		f.push(("user-type/volumed_price-is-not-tp-times-volume".into(), format!("tp() = {:e}, volume() = {:e}, volumed_price() = {:e}", u.tp(), u.volume(), u.volumed_price())));
	}
	for (kind, want) in [(Source::TP, u.tp()), (Source::HL2, u.hl2()), (Source::VolumedPrice, u.volumed_price()), (Source::Close, u.close()), (Source::Open, u.open()), (Source::High, u.high()), (Source::Low, u.low()), (Source::Volume, u.volume())] {
		if !same(u.source(kind), want) {
			f.push((format!("user-type/source({kind:?})-bypasses-the-method"), format!("source = {:e}, method = {want:e}", u.source(kind))));
		}
	}
	let t = OwnTurnover(*c);
	if !same(t.source(Source::VolumedPrice), t.volumed_price()) {
		f.push(("user-type/source(VolumedPrice)-bypasses-the-method".into(), format!("source = {:e}, method = {:e}", t.source(Source::VolumedPrice), t.volumed_price())));
	}
	// through dynamic dispatch as well
	let d: &dyn OHLCV = &u;
	if !same(d.volumed_price(), u.tp() * u.volume()) || !same(d.source(Source::TP), u.tp()) {
		f.push(("user-type/dyn-dispatch-differs".into(), String::new()));
	}
}

fn check_candle(c: &Candle, pcs: &[V]) -> Vec<(String, String)> {
	let mut f = vec![];
	check_user_types(c, &mut f);
	let e = eps();
	let (o, h, l, cl, v) = (c.open as f64, c.high as f64, c.low as f64, c.close as f64, c.volume as f64);
	let tinyabs = if IS_F32 { 3e-45 } else { 1e-323 };
	let finite3 = h.is_finite() && l.is_finite() && cl.is_finite();
	// views
	let t = (c.open, c.high, c.low, c.close, c.volume);
	let a = [c.open, c.high, c.low, c.close, c.volume];
	let fields = |x: &dyn OHLCV| [x.open(), x.high(), x.low(), x.close(), x.volume()];
	for (nm, got) in [("tuple", fields(&t)), ("array", fields(&a)), ("candle", fields(c)), ("Candle::from(tuple)", fields(&Candle::from(&t))), ("From<5-tuple>", fields(&<Candle as From<(V, V, V, V, V)>>::from(t)))] {
		for (i, g) in got.iter().enumerate() {
			if g.to_bits() != a[i].to_bits() {
				f.push((format!("views/{nm}"), format!("field {i}: {g:e} != {:e}", a[i])));
			}
		}
	}
	let c4 = <Candle as From<(V, V, V, V)>>::from((c.open, c.high, c.low, c.close));
	if !(c4.volume.is_nan() && c4.open.to_bits() == c.open.to_bits() && c4.close.to_bits() == c.close.to_bits() && c4.high.to_bits() == c.high.to_bits() && c4.low.to_bits() == c.low.to_bits()) {
		f.push(("views/From<4-tuple>".into(), show(&c4)));
	}
	if finite3 {
		let mag = h.abs() + l.abs() + cl.abs();
		if !close_to(c.tp(), (h + l + cl) / 3.0, 4.0 * e * mag + tinyabs) {
			f.push(("tp/formula".into(), format!("tp = {:e}", c.tp())));
		}
		if !close_to(c.hl2(), (h + l) / 2.0, 4.0 * e * (h.abs() + l.abs()) + tinyabs) {
			f.push(("hl2/formula".into(), format!("hl2 = {:e}", c.hl2())));
		}
		if o.is_finite() && !close_to(c.ohlc4(), (o + h + l + cl) / 4.0, 4.0 * e * (mag + o.abs()) + tinyabs) {
			f.push(("ohlc4/formula".into(), format!("ohlc4 = {:e}", c.ohlc4())));
		}
		if v.is_finite() {
			let want = (h + l + cl) / 3.0 * v;
			if !close_to(c.volumed_price(), want, 8.0 * e * (mag * v.abs()) + tinyabs + want.abs() * 4.0 * e) && want.abs() < 1e300 {
				f.push(("volumed_price/formula".into(), format!("volumed_price = {:e}, expected {want:e}", c.volumed_price())));
			}
		}
		// clv
		let got = c.clv();
		if h == l {
			if got != 0.0 {
				f.push(("clv/zero-range".into(), format!("clv = {got:e} on high == low")));
			}
		} else {
			let want = ((cl - l) - (h - cl)) / (h - l);
			let tol = 8.0 * e * (2.0 * cl.abs() + l.abs() + h.abs()) / (h - l).abs() + 8.0 * e * want.abs() + tinyabs;
			if want.is_finite() && !close_to(got, want, tol) {
				f.push(("clv/formula".into(), format!("clv = {got:e}, expected {want:e}")));
			}
			if l <= cl && cl <= h && h > l && want.is_finite() && !((got as f64) >= -1.0 - tol && (got as f64) <= 1.0 + tol) {
				f.push(("clv/range".into(), format!("clv = {got:e} outside [-1,1]")));
			}
		}
	}
	// sources
	let want_src: [(Source, V); 8] = [
		(Source::Close, c.close),
		(Source::Open, c.open),
		(Source::High, c.high),
		(Source::Low, c.low),
		(Source::HL2, c.hl2()),
		(Source::TP, c.tp()),
		(Source::Volume, c.volume),
		(Source::VolumedPrice, c.volumed_price()),
	];
	for (s, w) in want_src {
		let g = c.source(s);
		if !sameval(g, w) {
			f.push((format!("source/{s:?}"), format!("source({s:?}) = {g:e}, expected {w:e}")));
		}
	}
	// true range
	if h >= l {
		for &pc in pcs {
			let p = pc as f64;
			if !p.is_finite() || !h.is_finite() || !l.is_finite() {
				continue;
			}
			let want = (h - l).max((h - p).abs()).max((l - p).abs());
			let got = c.tr_close(pc) as f64;
			if !(got == want || (IS_F32 && close_to(got as V, want, 4.0 * e * want.abs()))) {
				f.push(("tr_close/formula".into(), format!("tr_close({p:e}) = {got:e}, expected {want:e}")));
			}
			let prev = Candle { close: pc, ..*c };
			if !sameval(c.tr(&prev), c.tr_close(pc)) {
				f.push(("tr/vs-tr_close".into(), String::new()));
			}
			if got < 0.0 {
				f.push(("tr_close/negative".into(), format!("{got:e}")));
			}
		}
	}
	// validate
	let got = c.validate();
	let want = valid_model(c);
	if got != want {
		let class = if got {
			if !(c.low <= c.open && c.open <= c.high) && valid_model(&Candle { open: c.close, ..*c }) { "accepts/open-outside-range" } else { "accepts/other" }
		} else {
			"rejects-valid"
		};
		f.push((format!("validate/{class}"), format!("validate() = {got}, predicate says {want}")));
	}
	if OHLCV::validate(&t) != got || OHLCV::validate(&a) != got {
		f.push(("validate/views-disagree".into(), String::new()));
	}
	if c.is_rising() != (c.close > c.open) || c.is_falling() != (c.close < c.open) {
		f.push(("is_rising/is_falling".into(), String::new()));
	}
	f
}

fn candle_grid(h: &mut H) {
	let g = grid();
	let sink = VioSink::new(SYS);
	let n = g.len();
	let valid_count = std::sync::atomic::AtomicU64::new(0);
	(0..n * n).into_par_iter().for_each(|oh| {
		let (o, hi) = (g[oh / n], g[oh % n]);
		for &l in &g {
			for &cl in &g {
				for &v in &g {
					let c = Candle { open: o, high: hi, low: l, close: cl, volume: v };
					if c.validate() {
						valid_count.fetch_add(1, std::sync::atomic::Ordering::Relaxed);
					}
					for (s, d) in check_candle(&c, &g) {
						sink.push(&s, show(&c), d);
					}
				}
			}
		}
	});
	let total = (n as u64).pow(5);
	h.run.note("grid_candles_valid", serde_json::json!(valid_count.load(std::sync::atomic::Ordering::Relaxed)));
	h.run.enum_block("Candle/grid 12^5 x prev_close 12", total * n as u64, total, true, serde_json::json!("0.5,3,0.5,2,1 ; prev_close 2"), sink.into_violations());
}

/// candles whose high, low and close are a few units in the last place apart, at several price levels:
/// every difference of the documented formulas is then exact, so the helpers must return the correctly
/// rounded quotient (a re-associated formula that rounds at the price level is off by the whole spread)
fn narrow_candles(h: &mut H) {
	let sink = VioSink::new(SYS);
	let up = |x: V, k: u32| {
		let mut y = x;
		for _ in 0..k {
			y = V::from_bits(y.to_bits() + 1);
		}
		y
	};
	let offs: [u32; 7] = [0, 1, 2, 3, 7, 64, 1001];
	let mut cases = 0u64;
	for base in [1.25 as V, 100.1, 3.0e5, 0.001, 1.0, 2.0, 16777215.0] {
		for &lo in &offs {
			for &hi in &offs {
				for &cl in &offs {
					for &op in &[lo, hi] {
						if !(lo <= cl && cl <= hi && lo <= op && op <= hi) {
							continue;
						}
						cases += 1;
						let c = Candle { open: up(base, op), high: up(base, hi), low: up(base, lo), close: up(base, cl), volume: 3.0 };
						let (hh, ll, cc) = (c.high as f64, c.low as f64, c.close as f64);
						let got = c.clv() as f64;
						let want = if hh == ll { 0.0 } else { ((cc - ll) - (hh - cc)) / (hh - ll) };
						if (got - want).abs() > 4.0 * eps() * want.abs() + 1e-300 || !(-1.0..=1.0).contains(&got) {
							sink.push("clv/narrow-candle", show(&c), format!("clv = {got:e}, the exactly evaluated formula gives {want:e}"));
						}
						if !c.validate() {
							sink.push("validate/narrow-candle", show(&c), "a valid candle is rejected".into());
						}
						let tp = c.tp() as f64;
						if !(ll - 2.0 * eps() * ll <= tp && tp <= hh + 2.0 * eps() * hh) {
							sink.push("tp/narrow-candle", show(&c), format!("tp = {tp:e} outside [low, high]"));
						}
						let prev = up(base, cl);
						let tr = c.tr_close(prev) as f64;
						if (tr - (hh - ll)).abs() > 4.0 * eps() * (hh - ll) {
							sink.push("tr/narrow-candle", show(&c), format!("tr = {tr:e}, high - low = {:e}", hh - ll));
						}
					}
				}
			}
		}
	}
	h.run.enum_block("Candle/narrow candles (ulp spreads at 7 price levels)", cases, cases, true, serde_json::json!("1.25, 1.25+3ulp, 1.25, 1.25"), sink.into_violations());
}

fn zeq(a: V, b: V) -> bool {
	(a.is_nan() && b.is_nan()) || a == b
}

fn add_assoc(h: &mut H, thorough: bool) {
	let sink = VioSink::new(SYS);
	let g = grid();
	let mut cases = 0u64;
	// per field: all 12^3 triples, other fields fixed
	let base = Candle { open: 1.0, high: 2.0, low: 0.5, close: 1.0, volume: 1.0 };
	let set = |c: &Candle, f: usize, v: V| {
		let mut c = *c;
		match f {
			0 => c.open = v,
			1 => c.high = v,
			2 => c.low = v,
			3 => c.close = v,
			_ => c.volume = v,
		}
		c
	};
	let cmp = |x: &Candle, y: &Candle, a: &Candle, b: &Candle, c: &Candle| -> Option<String> {
		let volmag = (a.volume.abs() + b.volume.abs() + c.volume.abs()) as f64;
		let vol_ok = zeq(x.volume, y.volume) || ((x.volume as f64 - y.volume as f64).abs() <= 4.0 * eps() * volmag && volmag.is_finite());
		// max/min ignore NaN operands unless all are NaN; sign of zero is unspecified
		if zeq(x.open, y.open) && zeq(x.high, y.high) && zeq(x.low, y.low) && zeq(x.close, y.close) && vol_ok {
			None
		} else {
			Some(format!("(a+b)+c = {} but a+(b+c) = {}", show(x), show(y)))
		}
	};
	for f in 0..5 {
		for &x in &g {
			for &y in &g {
				for &z in &g {
					cases += 1;
					let (a, b, c) = (set(&base, f, x), set(&base, f, y), set(&base, f, z));
					let l = (a + b) + c;
					let r = a + (b + c);
					if let Some(d) = cmp(&l, &r, &a, &b, &c) {
						sink.push(&format!("add/associativity/field{f}"), format!("{} | {} | {}", show(&a), show(&b), show(&c)), d);
					}
					// aggregation semantics: first open, max high, min low, last close, summed volume
					let agg = (a + b) + c;
					let fin = |v: V| !v.is_nan();
					let hs: Vec<V> = [a.high, b.high, c.high].iter().copied().filter(|v| fin(*v)).collect();
					let ls: Vec<V> = [a.low, b.low, c.low].iter().copied().filter(|v| fin(*v)).collect();
					let wh = hs.iter().copied().fold(V::NEG_INFINITY, V::max);
					let wl = ls.iter().copied().fold(V::INFINITY, V::min);
					if agg.open.to_bits() != a.open.to_bits() || agg.close.to_bits() != c.close.to_bits() || (!hs.is_empty() && !zeq(agg.high, wh)) || (!ls.is_empty() && !zeq(agg.low, wl)) {
						sink.push(&format!("add/aggregate/field{f}"), format!("{} | {} | {}", show(&a), show(&b), show(&c)), show(&agg));
					}
				}
			}
		}
	}
	// cross-field: all triples of candles over a small grid per field
	let small: Vec<V> = if thorough { vec![V::NAN, 0.5, 1.0, 3.0] } else { vec![0.5, 1.0, 3.0] };
	let mut cs = vec![];
	for &o in &small {
		for &hi in &small {
			for &l in &small {
				for &cl in &small {
					for &v in &small {
						cs.push(Candle { open: o, high: hi, low: l, close: cl, volume: v });
					}
				}
			}
		}
	}
	let m = cs.len();
	(0..m).into_par_iter().for_each(|i| {
		for j in 0..m {
			let ab = cs[i] + cs[j];
			for k in 0..m {
				let l = ab + cs[k];
				let r = cs[i] + (cs[j] + cs[k]);
				if !(zeq(l.open, r.open) && zeq(l.high, r.high) && zeq(l.low, r.low) && zeq(l.close, r.close) && zeq(l.volume, r.volume)) {
					sink.push("add/associativity/cross-field", format!("{} | {} | {}", show(&cs[i]), show(&cs[j]), show(&cs[k])), format!("{} vs {}", show(&l), show(&r)));
				}
			}
		}
	});
	cases += (m * m * m) as u64;
	h.run.enum_block("Candle/add-associativity", cases, (5 * g.len().pow(3) + m) as u64, true, serde_json::json!({"per_field": "all 12^3 triples per field", "cross_field_candles": m}), sink.into_violations());
}

fn candle_eq(h: &mut H) {
	let sink = VioSink::new(SYS);
	let g = grid();
	let base = Candle { open: 1.0, high: 2.0, low: 0.5, close: 1.0, volume: 1.0 };
	let mut cases = 0;
	for f in 0..5 {
		for &x in &g {
			for &y in &g {
				cases += 1;
				let mut a = base;
				let mut b = base;
				match f {
					0 => { a.open = x; b.open = y }
					1 => { a.high = x; b.high = y }
					2 => { a.low = x; b.low = y }
					3 => { a.close = x; b.close = y }
					_ => { a.volume = x; b.volume = y }
				}
				let want = x.to_bits() == y.to_bits();
				if (a == b) != want || (b == a) != want {
					sink.push("eq/by-bits", format!("{} | {}", show(&a), show(&b)), format!("== is {}", a == b));
				}
			}
		}
	}
	// Sequence::validate on all sequences of <= 3 grid values and of <= 3 candles from a small set
	let mut seqs = 0u64;
	let mut vs: Vec<Vec<V>> = vec![vec![]];
	for &a in &g {
		vs.push(vec![a]);
		for &b in &g {
			vs.push(vec![a, b]);
			for &c in &g {
				vs.push(vec![a, b, c]);
			}
		}
	}
	// finite values whose (partial) sums overflow
	let ext: [V; 6] = [V::MAX, V::MIN, 0.75 * V::MAX, 1.0, V::NAN, V::INFINITY];
	for &a in &ext {
		for &b in &ext {
			vs.push(vec![a, b]);
			for &c in &ext {
				vs.push(vec![a, b, c]);
				for &d in &ext {
					vs.push(vec![a, b, c, d]);
				}
			}
		}
	}
	// long sequences: any number of invalid elements, in particular multiples of 256 and 65 536
	for len in [255usize, 256, 257, 511, 512, 65535, 65536, 65537] {
		vs.push(vec![V::NAN; len]);
		vs.push(vec![1.0; len]);
		let mut one_bad = vec![1.0; len];
		one_bad[len / 2] = V::INFINITY;
		vs.push(one_bad);
		let mut all_but_one = vec![V::NAN; len];
		all_but_one[0] = 1.0;
		vs.push(all_but_one);
		let mut n256 = vec![1.0; len];
		for x in n256.iter_mut().take(256) {
			*x = V::NAN;
		}
		vs.push(n256);
	}
	for s in &vs {
		seqs += 1;
		let want = s.iter().all(|x| x.is_finite());
		if Sequence::<V>::validate(s) != want || Sequence::<V>::validate(&s.as_slice()) != want {
			sink.push("sequence-validate/values", format!("{s:?}"), String::new());
		}
	}
	let cset: Vec<Candle> = vec![
		Candle { open: 1.0, high: 2.0, low: 0.5, close: 1.0, volume: 1.0 },
		Candle { open: 1.0, high: 2.0, low: 0.5, close: 3.0, volume: 1.0 },
		Candle { open: 1.0, high: 2.0, low: 0.5, close: 1.0, volume: V::NAN },
		Candle { open: 1.0, high: 2.0, low: 0.5, close: 1.0, volume: -1.0 },
		Candle { open: 1.0, high: V::INFINITY, low: 0.5, close: 1.0, volume: 0.0 },
		Candle { open: 0.0, high: 2.0, low: 0.0, close: 1.0, volume: 0.0 },
	];
	let mut css: Vec<Vec<Candle>> = vec![vec![]];
	for a in &cset {
		css.push(vec![*a]);
		for b in &cset {
			css.push(vec![*a, *b]);
			for c in &cset {
				css.push(vec![*a, *b, *c]);
			}
		}
	}
	for len in [255usize, 256, 257, 512, 65536] {
		css.push(vec![cset[3]; len]);
		css.push(vec![cset[0]; len]);
		let mut m = vec![cset[0]; len];
		for x in m.iter_mut().take(256) {
			*x = cset[4];
		}
		css.push(m);
	}
	for s in &css {
		seqs += 1;
		let want = s.iter().all(valid_model);
		if Sequence::<Candle>::validate(s) != want {
			sink.push("sequence-validate/candles", format!("{:?}", s.iter().map(show).collect::<Vec<_>>()), String::new());
		}
	}
	h.run.enum_block("Candle/eq-by-bits + Sequence::validate", cases + seqs, cases + seqs, true, serde_json::json!("[1, NaN, 2] -> false"), sink.into_violations());
}

// ---------------------------------------------------------------- text forms

const SOURCES: [(&str, Source); 9] = [
	("close", Source::Close),
	("open", Source::Open),
	("high", Source::High),
	("low", Source::Low),
	("hl2", Source::HL2),
	("tp", Source::TP),
	("hlc3", Source::TP),
	("volume", Source::Volume),
	("volumed_price", Source::VolumedPrice),
];

/// independent grammar: surrounding whitespace ignored, ASCII case-insensitive name
fn source_model(s: &str) -> Option<Source> {
	let t = s.trim_matches(|c: char| c.is_whitespace());
	SOURCES.iter().find(|(n, _)| n.len() == t.len() && n.bytes().zip(t.bytes()).all(|(a, b)| a == b.to_ascii_lowercase())).map(|x| x.1)
}

fn edit1(s: &str, alphabet: &[char]) -> Vec<String> {
	let cs: Vec<char> = s.chars().collect();
	let mut out = vec![];
	for i in 0..=cs.len() {
		for &a in alphabet {
			let mut v = cs.clone();
			v.insert(i, a);
			out.push(v.iter().collect());
		}
	}
	for i in 0..cs.len() {
		let mut v = cs.clone();
		v.remove(i);
		out.push(v.iter().collect());
		for &a in alphabet {
			let mut v = cs.clone();
			v[i] = a;
			out.push(v.iter().collect());
		}
		if i + 1 < cs.len() {
			let mut v = cs.clone();
			v.swap(i, i + 1);
			out.push(v.iter().collect());
		}
	}
	out
}

/// every string obtained by flipping one bit of one byte of `s` (kept when it is still UTF-8): byte-level
/// tricks (case folding by masks, table lookups) show up on the neighbours that are not letters
fn bitflips(s: &str) -> Vec<String> {
	let b = s.as_bytes();
	let mut out = vec![];
	for i in 0..b.len() {
		for k in 0..8 {
			let mut v = b.to_vec();
			v[i] ^= 1 << k;
			if let Ok(t) = String::from_utf8(v) {
				out.push(t);
			}
		}
	}
	out
}

fn check_source_text(s: &str) -> Option<(String, String)> {
	let want = source_model(s);
	let got = catch(|| Source::from_str(s));
	let got = match got {
		Err(p) => return Some(("source-parse/panic".into(), format!("{s:?}: {}", p.msg))),
		Ok(g) => g.ok(),
	};
	if got != want {
		let class = if want.is_some() { "rejected-valid" } else { "accepted-invalid" };
		return Some((format!("source-parse/{class}"), format!("{s:?} -> {got:?}, grammar says {want:?}")));
	}
	if Source::try_from(s).ok() != want || Source::try_from(s.to_string()).ok() != want {
		return Some(("source-parse/try_from-disagrees".into(), format!("{s:?}")));
	}
	None
}

fn text_sources(h: &mut H) {
	let sink = VioSink::new("Text/enum");
	let mut cases = 0u64;
	let mut accepted = 0u64;
	let mut strings: Vec<String> = vec![];
	let ws = ["", " ", "\t", "\n", "  ", "\r\n", "\u{a0}", "\u{2003}", "\u{0b}"];
	for (name, _) in SOURCES {
		// every case mask
		let n = name.len();
		for mask in 0u32..(1 << n) {
			let s: String = name.chars().enumerate().map(|(i, c)| if mask >> i & 1 == 1 { c.to_ascii_uppercase() } else { c }).collect();
			strings.push(s);
		}
		for p in ws {
			for q in ws {
				strings.push(format!("{p}{name}{q}"));
				strings.push(format!("{p}{}{q}", name.to_uppercase()));
			}
		}
		// fixed-width fields: long runs of padding on either side
		for pad in [8usize, 31, 32, 33, 64, 300] {
			strings.push(format!("{}{name}", " ".repeat(pad)));
			strings.push(format!("{name}{}", " ".repeat(pad)));
			strings.push(format!("{}{name}{}", "\t".repeat(pad / 2), " ".repeat(pad)));
		}
		let mid = name.len() / 2;
		strings.push(format!("{} {}", &name[..mid], &name[mid..]));
		let alphabet: Vec<char> = "abcdefghijklmnopqrstuvwxyz0123456789_- ABCHLOPTV".chars().collect();
		strings.extend(edit1(name, &alphabet));
		strings.extend(bitflips(name));
		strings.extend(bitflips(&name.to_uppercase()));
	}
	for s in ["", " ", "İ", "ſ", "clo\u{17f}e", "hl２", "ｔｐ", "close\0", "volumed price", "volumed-price", "volumedprice", "VOLUMED_PRICE", "Tp", "tP", "hlc", "ohlc4", "K"] {
		strings.push(s.to_string());
	}
	strings.sort();
	strings.dedup();
	for s in &strings {
		cases += 1;
		if source_model(s).is_some() {
			accepted += 1;
		}
		if let Some((sig, d)) = check_source_text(s) {
			sink.push(&sig, format!("source:{s:?}"), d);
		}
	}
	// canonical forms round trip
	for (_, src) in SOURCES {
		let a: &'static str = src.into();
		let b: String = src.into();
		if a != b || Source::from_str(a).ok() != Some(src) || Source::try_from(b.clone()).ok() != Some(src) {
			sink.push("source-text/roundtrip", format!("source:{a:?}"), String::new());
		}
		let j = serde_json::to_string(&src).unwrap();
		if serde_json::from_str::<Source>(&j).ok() != Some(src) || j != format!("\"{a}\"") {
			sink.push("source-serde/roundtrip", format!("source:{a:?}"), j);
		}
	}
	h.run.note("source_strings_accepted_by_grammar", serde_json::json!(accepted));
	h.run.enum_block("Text/Source::from_str", cases, accepted.max(2), true, serde_json::json!(" vOlUmEd_PrIcE\t"), sink.into_violations());
}

const MAS: [&str; 15] = ["sma", "wma", "hma", "rma", "ema", "dma", "dema", "tma", "tema", "wsma", "smm", "swma", "trima", "linreg", "vidya"];

fn ma_kind_name(m: &MA) -> &'static str {
	match m {
		MA::SMA(_) => "sma",
		MA::WMA(_) => "wma",
		MA::HMA(_) => "hma",
		MA::RMA(_) => "rma",
		MA::EMA(_) => "ema",
		MA::DMA(_) => "dma",
		MA::DEMA(_) => "dema",
		MA::TMA(_) => "tma",
		MA::TEMA(_) => "tema",
		MA::WSMA(_) => "wsma",
		MA::SMM(_) => "smm",
		MA::SWMA(_) => "swma",
		MA::TRIMA(_) => "trima",
		MA::LinReg(_) => "linreg",
		MA::Vidya(_) => "vidya",
		_ => "?",
	}
}

/// independent grammar: kind '-' <unsigned integer as Rust parses it: optional '+', ASCII digits, <= MAX>
fn ma_model(s: &str) -> Option<(&'static str, u64)> {
	let i = s.find('-')?;
	let (k, p) = (&s[..i], &s[i + 1..]);
	let kind = MAS.iter().find(|m| **m == k)?;
	let digits = p.strip_prefix('+').unwrap_or(p);
	if digits.is_empty() || !digits.bytes().all(|b| b.is_ascii_digit()) {
		return None;
	}
	let mut v: u128 = 0;
	for b in digits.bytes() {
		v = v * 10 + (b - b'0') as u128;
		if v > PeriodType::MAX as u128 {
			return None;
		}
	}
	Some((kind, v as u64))
}

fn check_ma_text(s: &str) -> Option<(String, String)> {
	use yata::core::MovingAverageConstructor;
	let want = ma_model(s);
	let got = match catch(|| MA::from_str(s)) {
		Err(p) => return Some(("ma-parse/panic".into(), format!("{s:?}: {}", p.msg))),
		Ok(g) => g.ok(),
	};
	let got_m = got.map(|m| (ma_kind_name(&m), m.ma_period() as u64));
	if got_m != want {
		let class = if want.is_some() { "rejected-valid-or-wrong-value" } else { "accepted-invalid" };
		return Some((format!("ma-parse/{class}"), format!("{s:?} -> {got:?}, grammar says {want:?}")));
	}
	None
}

fn text_ma(h: &mut H, thorough: bool) {
	use yata::core::MovingAverageConstructor;
	let sink = VioSink::new("Text/enum");
	let mut strings: Vec<String> = vec![];
	let maxp = PeriodType::MAX as u64;
	let mut lens: Vec<u64> = (0..=255u64).collect();
	if maxp > 255 {
		lens.extend_from_slice(&[256, 1000, 65534, 65535, 65536, maxp - 1, maxp]);
	}
	lens.push(maxp.wrapping_add(1));
	let mut accepted = 0u64;
	for k in MAS {
		for &l in &lens {
			strings.push(format!("{k}-{l}"));
		}
		let alphabet: Vec<char> = "abcdeghilmnrstvwy0123456789_-+ ".chars().collect();
		let bases: Vec<String> = if thorough { vec![format!("{k}-5"), format!("{k}-25"), format!("{k}-254")] } else { vec![format!("{k}-5"), format!("{k}-25")] };
		for b in bases {
			strings.extend(edit1(&b, &alphabet));
			strings.extend(bitflips(&b));
			strings.extend(bitflips(&b.to_uppercase()));
		}
		for s in [format!("{k}"), format!("{k}-"), format!("{k}--5"), format!("{k}-+5"), format!("{k}-+"), format!("{k}- 5"), format!("{k}-5 "), format!(" {k}-5"), format!("{k}-５"), format!("{k}-5.0"), format!("{k}-0x5"), format!("{k}-256"), format!("{k}-1e1"), format!("{k}-99999999999999999999999999"), format!("{k}-005"), format!("{}-5", k.to_uppercase()), format!("{k}_5"), format!("{k}-5-5"), format!("-{k}-5")] {
			strings.push(s);
		}
	}
	for s in ["", "-", "-5", "lin_reg-5", "LinReg-5", "ma-5", "sma", "5-sma"] {
		strings.push(s.to_string());
	}
	strings.sort();
	strings.dedup();
	let cases = strings.len() as u64;
	for s in &strings {
		if ma_model(s).is_some() {
			accepted += 1;
		}
		if let Some((sig, d)) = check_ma_text(s) {
			sink.push(&sig, format!("ma:{s:?}"), d);
		}
	}
	// serde round trip of every kind x length that fits
	let mut rt = 0u64;
	for k in MAS {
		for &l in &lens {
			if l > maxp {
				continue;
			}
			rt += 1;
			let m = MA::from_str(&format!("{k}-{l}")).ok();
			let Some(m) = m else { continue };
			let j = serde_json::to_string(&m).unwrap();
			let back: Option<MA> = serde_json::from_str(&j).ok();
			if back != Some(m) || m.ma_period() as u64 != l {
				sink.push("ma-serde/roundtrip", format!("ma:\"{k}-{l}\""), j);
			}
		}
	}
	h.run.note("ma_strings_accepted_by_grammar", serde_json::json!(accepted));
	h.run.enum_block("Text/MA::from_str + serde", cases + rt, accepted.max(2), true, serde_json::json!("linreg-+25"), sink.into_violations());
}

fn main() {
	let mut h = H::start("C18");
	let thorough = h.thorough();
	let g = grid();
	h.enum_replay(SYS, |case| {
		let (c, _) = parse_candle(case.split('|').next()?)?;
		check_candle(&c, &g).into_iter().next().map(|(s, d)| Failure::new(s, d))
	});
	h.enum_replay("Text/enum", |case| {
		let (kind, rest) = case.split_once(':')?;
		let s: String = serde_json::from_str(rest).ok()?;
		let r = if kind == "source" { check_source_text(&s) } else { check_ma_text(&s) };
		r.map(|(s, d)| Failure::new(s, d))
	});
	if h.is_replay() {
		h.finish();
	}
	candle_grid(&mut h);
	narrow_candles(&mut h);
	add_assoc(&mut h, thorough);
	candle_eq(&mut h);
	text_sources(&mut h);
	text_ma(&mut h, thorough);
	h.run.assume("value identities are judged on finite operands; non-finite fields are enumerated for validate/equality/no-panic");
	h.finish();
}
