//! C13 — serialized snapshots restore behaviourally identical instances.
//!
//! At EVERY explored state (all rotation phases, warm-up, windowless variants,
//! even/odd lengths) the instance is serialized and deserialized; original and restored
//! instance are then explored together over all continuations of depth 3 and must
//! produce bit-identical outputs.

use checks::grid::*;
use checks::ind::*;
use checks::subj::*;
use checks::*;
use yata::core::{Candle, IndicatorResult};

const TWIN_DEPTH: u32 = 3;

#[derive(Clone)]
struct St {
	a: Box<dyn Subject>,
	b: Option<Box<dyn Subject>>,
	age: u32,
}
#[derive(Clone, Debug)]
enum Act {
	In(In),
	Snapshot,
}
struct SnapSys {
	name: String,
	spec_name: &'static str,
	params: Vec<Params>,
	pre_depth: fn(&Params) -> u32,
	alphabet: Vec<In>,
}
fn nonfinite(k: &str) -> bool {
	k.contains("NaN") || k.contains("inf")
}
impl System for SnapSys {
	type State = (St, u32);
	type Act = Act;
	fn name(&self) -> String {
		self.name.clone()
	}
	fn inits(&self) -> Vec<((St, u32), String)> {
		let sp = spec(self.spec_name);
		let mut v = vec![];
		for p in &self.params {
			for v0 in &self.alphabet[..2] {
				if let Ok(Ok(a)) = catch(|| (sp.ctor)(p, v0)) {
					v.push(((St { a, b: None, age: 0 }, (self.pre_depth)(p)), format!("{}({}) v0={}", self.spec_name, p.show(), v0.show())));
				}
			}
		}
		v
	}
	fn actions(&self, s: &(St, u32), depth: u32) -> Vec<(Act, u8)> {
		let (st, pre) = s;
		if st.b.is_some() {
			if st.age >= TWIN_DEPTH {
				return vec![];
			}
			return self.alphabet.iter().map(|i| (Act::In(*i), 0)).collect();
		}
		let mut v = vec![(Act::Snapshot, 0)];
		if depth < *pre {
			v.extend(self.alphabet.iter().map(|i| (Act::In(*i), 0)));
		}
		v
	}
	fn show_act(&self, a: &Act) -> String {
		match a {
			Act::In(i) => i.show(),
			Act::Snapshot => "snapshot+restore".into(),
		}
	}
	fn step(&self, s: &(St, u32), a: &Act) -> Step<(St, u32)> {
		let name = self.spec_name;
		let mut n = s.clone();
		match a {
			Act::Snapshot => {
				// the lossless token format, positional (bincode-like) and named: the restored instance must be in
				// the very same state (Debug text), also when the state holds NaN / infinities
				for positional in [true, false] {
					let fl = if positional { "positional" } else { "named" };
					match catch(|| n.0.a.via_tokens(positional)) {
						Ok(Ok(c)) => {
							// the same state text is the usual case; a restored instance that is REPRESENTED differently
							// (a ring buffer written in canonical rotation, say) is judged by what it does: every
							// continuation of up to 3 inputs, outputs compared bit for bit
							if c.debug_key() != n.0.a.debug_key() {
								let mut layer: Vec<(Box<dyn Subject>, Box<dyn Subject>)> = vec![(n.0.a.boxed_clone(), c)];
								for d in 0..3 {
									let mut next = vec![];
									for (x, y) in &layer {
										for i in &self.alphabet {
											let (mut x2, mut y2) = (x.boxed_clone(), y.boxed_clone());
											let (Ok(ox), oy) = (catch(|| x2.next(i)), catch(|| y2.next(i))) else { continue };
											match oy {
												Ok(oy) if oy.same_bits(&ox) => next.push((x2, y2)),
												Ok(oy) => return Step::Violation(Failure::new(format!("{name}/restore/behaviour-differs[{fl}-format]"), format!("original {} restored differently; {} steps later: original {} vs restored {}", n.0.a.debug_key(), d + 1, ox.show(), oy.show()))),
												Err(p) => return Step::Violation(Failure::new(format!("{name}/restored/panic[{fl}-format]"), p.msg)),
											}
										}
									}
									layer = next;
								}
							}
						}
						Ok(Err(e)) => return Step::Violation(Failure::new(format!("{name}/restore/rejected[{fl}-format]"), format!("own snapshot rejected: {e}"))),
						Err(p) => return Step::Violation(Failure::new(format!("{name}/restore/panic[{fl}-format]"), p.msg)),
					}
				}
				let j = match catch(|| n.0.a.to_json()) {
					Ok(Ok(j)) => j,
					Ok(Err(e)) => return Step::Violation(Failure::new(format!("{name}/serialize/error"), e)),
					Err(p) => return Step::Violation(Failure::new(format!("{name}/serialize/panic"), p.msg)),
				};
				if nonfinite(&n.0.a.debug_key()) {
					return Step::Exempt(n, "state holds a non-finite float (JSON cannot carry it)");
				}
				let class = if j.contains("\"buf\":[]") { "empty-window" } else { "plain" };
				match catch(|| n.0.a.from_json(&j)) {
					Ok(Ok(b)) => {
						n.0.b = Some(b);
						Step::Next(n)
					}
					Ok(Err(e)) => Step::Violation(Failure::new(format!("{name}/restore/rejected/{class}"), format!("own snapshot {j} rejected: {e}"))),
					Err(p) => Step::Violation(Failure::new(format!("{name}/restore/panic/{class}"), format!("{j}: {}", p.msg))),
				}
			}
			Act::In(i) => {
				let oa = match catch(|| n.0.a.next(i)) {
					Ok(o) => o,
					Err(_) => return Step::Prune, // panics of `next` are C10's business
				};
				if let Some(b) = n.0.b.as_mut() {
					let ob = match catch(|| b.next(i)) {
						Ok(o) => o,
						Err(p) => return Step::Violation(Failure::new(format!("{name}/restored/panic"), format!("restored instance panicked: {}", p.msg))),
					};
					n.0.age += 1;
					if !oa.same_bits(&ob) {
						return Step::Violation(Failure::new(format!("{name}/restored/output-differs"), format!("original {} vs restored {} ({} steps after the snapshot)", oa.show(), ob.show(), n.0.age)));
					}
				}
				Step::Next(n)
			}
		}
	}
}

// ---------------------------------------------------------------- indicators

#[derive(Clone)]
struct ISt {
	a: Box<dyn IndInst>,
	b: Option<Box<dyn IndInst>>,
	age: u32,
}
struct ISnapSys {
	cfgs: Vec<Box<dyn IndCfg>>,
	alphabet: Vec<Candle>,
	pre: u32,
	tag: String,
}
fn rbits(r: &IndicatorResult) -> String {
	format!("{:?}|{:?}", r.values().iter().map(|v| v.to_bits()).collect::<Vec<_>>(), r.signals().iter().map(|a| format!("{a:?}")).collect::<Vec<_>>())
}
impl System for ISnapSys {
	type State = (ISt, usize);
	type Act = Option<usize>;
	fn name(&self) -> String {
		format!("Indicators/snapshot/{}", self.tag)
	}
	fn inits(&self) -> Vec<((ISt, usize), String)> {
		let mut v = vec![];
		for (i, c) in self.cfgs.iter().enumerate() {
			for c0 in &self.alphabet[..2] {
				if let Ok(Ok(a)) = catch(|| c.init(c0)) {
					v.push(((ISt { a, b: None, age: 0 }, i), format!("{} {} c0={}", c.const_name(), c.to_json().unwrap_or_default(), In::C(*c0).show())));
				}
			}
		}
		v
	}
	fn actions(&self, s: &(ISt, usize), depth: u32) -> Vec<(Option<usize>, u8)> {
		if s.0.b.is_some() {
			if s.0.age >= TWIN_DEPTH {
				return vec![];
			}
			return (0..self.alphabet.len()).map(|i| (Some(i), 0)).collect();
		}
		let mut v = vec![(None, 0)];
		if depth < self.pre {
			v.extend((0..self.alphabet.len()).map(|i| (Some(i), 0)));
		}
		v
	}
	fn show_act(&self, a: &Option<usize>) -> String {
		match a {
			Some(i) => In::C(self.alphabet[*i]).show(),
			None => "snapshot+restore".into(),
		}
	}
	fn step(&self, s: &(ISt, usize), a: &Option<usize>) -> Step<(ISt, usize)> {
		let name = self.cfgs[s.1].const_name();
		let mut n = s.clone();
		match a {
			None => {
				// the lossless token format, positional (bincode-like) and named: the restored instance must be in
				// the very same state (Debug text), also when the state holds NaN / infinities
				for positional in [true, false] {
					let fl = if positional { "positional" } else { "named" };
					match catch(|| n.0.a.via_tokens(positional)) {
						Ok(Ok(c)) => {
							// (as for the methods: a different representation is judged by behaviour)
							if c.debug_key() != n.0.a.debug_key() {
								let mut layer: Vec<(Box<dyn IndInst>, Box<dyn IndInst>)> = vec![(n.0.a.boxed_clone(), c)];
								for d in 0..3 {
									let mut next = vec![];
									for (x, y) in &layer {
										for i in &self.alphabet {
											let (mut x2, mut y2) = (x.boxed_clone(), y.boxed_clone());
											let (Ok(ox), oy) = (catch(|| x2.next(i)), catch(|| y2.next(i))) else { continue };
											match oy {
												Ok(oy) if rbits(&oy) == rbits(&ox) => next.push((x2, y2)),
												Ok(oy) => return Step::Violation(Failure::new(format!("{name}/restore/behaviour-differs[{fl}-format]"), format!("restored differently; {} steps later: original {ox:?} vs restored {oy:?}", d + 1))),
												Err(p) => return Step::Violation(Failure::new(format!("{name}/restored/panic[{fl}-format]"), p.msg)),
											}
										}
									}
									layer = next;
								}
							}
						}
						Ok(Err(e)) => return Step::Violation(Failure::new(format!("{name}/restore/rejected[{fl}-format]"), format!("own snapshot rejected: {e}"))),
						Err(p) => return Step::Violation(Failure::new(format!("{name}/restore/panic[{fl}-format]"), p.msg)),
					}
				}
				let j = match catch(|| n.0.a.to_json()) {
					Ok(Ok(j)) => j,
					Ok(Err(e)) => return Step::Violation(Failure::new(format!("{name}/serialize/error"), e)),
					Err(p) => return Step::Violation(Failure::new(format!("{name}/serialize/panic"), p.msg)),
				};
				if nonfinite(&n.0.a.debug_key()) {
					return Step::Exempt(n, "state holds a non-finite float (JSON cannot carry it)");
				}
				let class = if j.contains("\"buf\":[]") { "empty-window" } else { "plain" };
				match catch(|| n.0.a.from_json(&j)) {
					Ok(Ok(b)) => {
						n.0.b = Some(b);
						Step::Next(n)
					}
					Ok(Err(e)) => Step::Violation(Failure::new(format!("{name}/restore/rejected/{class}"), format!("own snapshot rejected: {e}"))),
					Err(p) => Step::Violation(Failure::new(format!("{name}/restore/panic/{class}"), p.msg)),
				}
			}
			Some(i) => {
				let c = self.alphabet[*i];
				let oa = match catch(|| n.0.a.next(&c)) {
					Ok(o) => o,
					Err(_) => return Step::Prune,
				};
				if let Some(b) = n.0.b.as_mut() {
					let ob = match catch(|| b.next(&c)) {
						Ok(o) => o,
						Err(p) => return Step::Violation(Failure::new(format!("{name}/restored/panic"), p.msg)),
					};
					n.0.age += 1;
					if rbits(&oa) != rbits(&ob) {
						return Step::Violation(Failure::new(format!("{name}/restored/output-differs"), format!("original {oa:?} vs restored {ob:?}")));
					}
				}
				Step::Next(n)
			}
		}
	}
}

// ---------------------------------------------------------------- snapshots far into a stream

/// One long deterministic stream per instance; the single deviation is the snapshot, taken after ANY number
/// of steps (counters and cursors far beyond 255, full rotations of the largest windows); original and
/// restored instance then follow the same stream for `tail` more steps.
#[derive(Clone)]
struct LSt {
	a: Box<dyn Subject>,
	b: Option<Box<dyn Subject>>,
	t: u32,
	age: u32,
	len: u32,
	tail: u32,
}
struct LongSnapSys {
	name: String,
	spec_name: &'static str,
	/// (parameters, stream length, steps after the snapshot)
	params: Vec<(Params, u32, u32)>,
	alphabet: Vec<In>,
	/// inputs of the stream fed before the exploration starts (one long history, snapshots only after it)
	pre: u32,
}
fn pick(t: u32, n: usize) -> usize {
	((t as usize) * 7 + (t as usize) / 5 + (t as usize) / 64) % n
}
impl System for LongSnapSys {
	type State = LSt;
	type Act = bool;
	fn name(&self) -> String {
		self.name.clone()
	}
	fn inits(&self) -> Vec<(LSt, String)> {
		let sp = spec(self.spec_name);
		let mut v = vec![];
		for (p, len, tail) in &self.params {
			if let Ok(Ok(mut a)) = catch(|| (sp.ctor)(p, &self.alphabet[0])) {
				let fed = catch(|| {
					for t in 0..self.pre {
						a.next(&self.alphabet[pick(t, self.alphabet.len())]);
					}
					a
				});
				if let Ok(a) = fed {
					v.push((LSt { a, b: None, t: self.pre, age: 0, len: self.pre + *len, tail: *tail }, format!("{}({}) v0={} after {} inputs of the stream", self.spec_name, p.show(), self.alphabet[0].show(), self.pre)));
				}
			}
		}
		v
	}
	fn actions(&self, s: &LSt, _: u32) -> Vec<(bool, u8)> {
		if s.b.is_some() {
			return if s.age >= s.tail { vec![] } else { vec![(false, 0)] };
		}
		if s.t >= s.len { vec![(true, 1)] } else { vec![(false, 0), (true, 1)] }
	}
	fn show_act(&self, a: &bool) -> String {
		if *a { "snapshot+restore".into() } else { "next-of-the-stream".into() }
	}
	fn step(&self, s: &LSt, a: &bool) -> Step<LSt> {
		let name = self.spec_name;
		let mut n = s.clone();
		if *a {
			let j = match catch(|| n.a.to_json()) {
				Ok(Ok(j)) => j,
				Ok(Err(e)) => return Step::Violation(Failure::new(format!("{name}/serialize/error"), e)),
				Err(p) => return Step::Violation(Failure::new(format!("{name}/serialize/panic"), p.msg)),
			};
			if nonfinite(&n.a.debug_key()) {
				return Step::Exempt(n, "state holds a non-finite float (JSON cannot carry it)");
			}
			return match catch(|| n.a.from_json(&j)) {
				Ok(Ok(b)) => {
					n.b = Some(b);
					Step::Next(n)
				}
				Ok(Err(e)) => Step::Violation(Failure::new(format!("{name}/restore/rejected/far-into-the-stream"), format!("own snapshot after {} steps rejected: {e}", s.t))),
				Err(p) => Step::Violation(Failure::new(format!("{name}/restore/panic/far-into-the-stream"), format!("after {} steps: {}", s.t, p.msg))),
			};
		}
		let i = self.alphabet[pick(n.t, self.alphabet.len())];
		n.t += 1;
		let oa = match catch(|| n.a.next(&i)) {
			Ok(o) => o,
			Err(_) => return Step::Prune,
		};
		if let Some(b) = n.b.as_mut() {
			let ob = match catch(|| b.next(&i)) {
				Ok(o) => o,
				Err(p) => return Step::Violation(Failure::new(format!("{name}/restored/panic"), format!("restored instance panicked: {}", p.msg))),
			};
			n.age += 1;
			if !oa.same_bits(&ob) {
				return Step::Violation(Failure::new(format!("{name}/restored/output-differs/far-into-the-stream"), format!("snapshot after {} steps; {} steps later: original {} vs restored {}", n.t - n.age, n.age, oa.show(), ob.show())));
			}
		}
		Step::Next(n)
	}
}

#[derive(Clone)]
struct ILSt {
	a: Box<dyn IndInst>,
	b: Option<Box<dyn IndInst>>,
	cfg: usize,
	stream: u8,
	t: u32,
	age: u32,
	prev_close: f64,
}
struct ILongSnapSys {
	name: String,
	cfgs: Vec<Box<dyn IndCfg>>,
	len: u32,
	tail: u32,
	pre: u32,
}
/// stream 0: volatile (every step a new value); stream 1: a triangle wave (period 17) whose amplitude
/// itself swells and fades (period 113) on a slow drift - rallies, ranges and converging triangles
fn long_candle(stream: u8, t: u32, prev_close: f64) -> Candle {
	if stream == 0 {
		return checks::indcheck::volatile_candle(t, prev_close);
	}
	if stream == 2 {
		// an unbroken rally: every candle a new high, for as long as the stream lasts (counters of new
		// extremes run beyond 255)
		let c = 100.0 + 0.5 * t as f64 + 0.125 * (t % 3) as f64;
		let o = prev_close;
		type V = yata::core::ValueType;
		return Candle { open: o as V, high: (o.max(c) + 0.25) as V, low: (o.min(c) - 0.125) as V, close: c as V, volume: (1 + (t * 5) % 7) as V };
	}
	let tri = |t: u32, p: u32| -> f64 {
		let x = (t % p) as f64 / p as f64;
		if x < 0.5 { 4.0 * x - 1.0 } else { 3.0 - 4.0 * x }
	};
	let amp = 1.0 + 6.0 * (tri(t, 113) + 1.0) / 2.0;
	let c = 100.0 + 0.03 * t as f64 + amp * tri(t, 17);
	let o = prev_close;
	type V = yata::core::ValueType;
	Candle { open: o as V, high: (o.max(c) + 0.25 * (t % 3) as f64) as V, low: (o.min(c) - 0.25 * (t % 4) as f64) as V, close: c as V, volume: (1 + (t * 5) % 7) as V }
}
impl System for ILongSnapSys {
	type State = ILSt;
	type Act = bool;
	fn name(&self) -> String {
		self.name.clone()
	}
	fn inits(&self) -> Vec<(ILSt, String)> {
		let mut v = vec![];
		for (i, c) in self.cfgs.iter().enumerate() {
			for stream in [0u8, 1, 2] {
				let c0 = long_candle(stream, 0, if stream == 0 { 10.0 } else { 100.0 });
				if let Ok(Ok(mut a)) = catch(|| c.init(&c0)) {
					let mut prev_close = c0.close as f64;
					let fed = catch(|| {
						for t in 1..=self.pre {
							let c = long_candle(stream, t, prev_close);
							prev_close = c.close as f64;
							a.next(&c);
						}
						(a, prev_close)
					});
					if let Ok((a, prev_close)) = fed {
						v.push((ILSt { a, b: None, cfg: i, stream, t: 1 + self.pre, age: 0, prev_close }, format!("{} {} stream={} after {} candles", c.const_name(), c.to_json().unwrap_or_default(), match stream { 0 => "volatile", 1 => "swelling-triangle-wave", _ => "unbroken-rally" }, self.pre)));
					}
				}
			}
		}
		v
	}
	fn actions(&self, s: &ILSt, _: u32) -> Vec<(bool, u8)> {
		if s.b.is_some() {
			return if s.age >= self.tail { vec![] } else { vec![(false, 0)] };
		}
		if s.t >= self.pre + self.len { vec![(true, 1)] } else { vec![(false, 0), (true, 1)] }
	}
	fn show_act(&self, a: &bool) -> String {
		if *a { "snapshot+restore".into() } else { "next-of-the-stream".into() }
	}
	fn step(&self, s: &ILSt, a: &bool) -> Step<ILSt> {
		let name = self.cfgs[s.cfg].const_name();
		let mut n = s.clone();
		if *a {
			let j = match catch(|| n.a.to_json()) {
				Ok(Ok(j)) => j,
				Ok(Err(e)) => return Step::Violation(Failure::new(format!("{name}/serialize/error"), e)),
				Err(p) => return Step::Violation(Failure::new(format!("{name}/serialize/panic"), p.msg)),
			};
			if nonfinite(&n.a.debug_key()) {
				return Step::Exempt(n, "state holds a non-finite float (JSON cannot carry it)");
			}
			return match catch(|| n.a.from_json(&j)) {
				Ok(Ok(b)) => {
					n.b = Some(b);
					Step::Next(n)
				}
				Ok(Err(e)) => Step::Violation(Failure::new(format!("{name}/restore/rejected/far-into-the-stream"), format!("own snapshot after {} steps rejected: {e}", s.t))),
				Err(p) => Step::Violation(Failure::new(format!("{name}/restore/panic/far-into-the-stream"), format!("after {} steps: {}", s.t, p.msg))),
			};
		}
		let c = long_candle(n.stream, n.t, n.prev_close);
		n.t += 1;
		n.prev_close = c.close as f64;
		let oa = match catch(|| n.a.next(&c)) {
			Ok(o) => o,
			Err(_) => return Step::Prune,
		};
		if let Some(b) = n.b.as_mut() {
			let ob = match catch(|| b.next(&c)) {
				Ok(o) => o,
				Err(p) => return Step::Violation(Failure::new(format!("{name}/restored/panic"), p.msg)),
			};
			n.age += 1;
			if rbits(&oa) != rbits(&ob) {
				return Step::Violation(Failure::new(format!("{name}/restored/output-differs/far-into-the-stream"), format!("snapshot after {} steps; {} steps later: original {oa:?} vs restored {ob:?}", n.t - n.age, n.age)));
			}
		}
		Step::Next(n)
	}
}

fn adversarial(h: &mut H) {
	use yata::methods::SMM;
	let sink = VioSink::new("Serde/adversarial");
	let mut n = 0u64;
	let maxp = PeriodType::MAX as u64;
	for (text, what) in [
		("{\"window\":{\"buf\":[],\"index\":0}}".to_string(), "empty window"),
		("{\"window\":{\"buf\":[1.0,null,2.0],\"index\":0}}".to_string(), "null element"),
		("{\"window\":{\"buf\":[1.0,2.0],\"index\":2}}".to_string(), "index == len"),
		("{\"window\":{\"buf\":[1.0,2.0],\"index\":255}}".to_string(), "index 255"),
		(format!("{{\"window\":{{\"buf\":{:?},\"index\":0}}}}", vec![1.0f64; maxp as usize]), "oversized buffer"),
		("{}".to_string(), "missing field"),
	] {
		n += 1;
		if maxp > 255 && what == "oversized buffer" && maxp > 100_000 {
			continue;
		}
		match catch(|| serde_json::from_str::<SMM>(&text)) {
			Err(p) => sink.push("SMM/deserialize/adversarial/panic", what.into(), p.msg),
			Ok(Ok(_)) => sink.push("SMM/deserialize/adversarial/accepted-invalid", what.into(), "an inconsistent SMM was built".into()),
			Ok(Err(_)) => {}
		}
	}
	// a valid SMM form restores and the sorted buffer is rebuilt: median of the restored instance is right
	for (buf, idx, med) in [(vec![3.0, 1.0, 2.0], 1, 2.0), (vec![4.0, 1.0, 2.0, 3.0], 2, 2.5), (vec![5.0], 0, 5.0)] {
		n += 1;
		let text = format!("{{\"window\":{{\"buf\":{buf:?},\"index\":{idx}}}}}");
		match catch(|| serde_json::from_str::<SMM>(&text)) {
			Ok(Ok(s)) => {
				use yata::helpers::Peekable;
				if s.peek() as f64 != med {
					sink.push("SMM/deserialize/median", text.clone(), format!("peek {} expected {med}", s.peek()));
				}
			}
			_ => sink.push("SMM/deserialize/rejected-valid", text.clone(), String::new()),
		}
	}
	h.run.enum_block("Serde/adversarial SMM forms", n, n, true, serde_json::json!("{\"window\":{\"buf\":[],\"index\":0}}"), sink.into_violations());
}

fn configs_roundtrip(h: &mut H) {
	let sink = VioSink::new("Serde/configs");
	let mut n = 0u64;
	let mut all = indicator_configs(true);
	all.extend(float17_configs());
	for c in all {
		n += 1;
		let name = c.const_name();
		let j = c.to_json().unwrap_or_default();
		match c.from_json(&j) {
			Ok(c2) => {
				// the restored configuration itself (Debug prints every float with its shortest exact form), not
				// only what it serializes to
				if c2.debug_key() != c.debug_key() {
					sink.push(&format!("{name}/config/roundtrip-changes-a-field"), j.clone(), format!("{} became {}", c.debug_key(), c2.debug_key()));
				}
				if c2.to_json().unwrap_or_default() != j {
					sink.push(&format!("{name}/config/roundtrip-differs"), j.clone(), c2.to_json().unwrap_or_default());
				}
				if c2.validate() != c.validate() || c2.size() != c.size() {
					sink.push(&format!("{name}/config/roundtrip-behaviour"), j.clone(), String::new());
				}
			}
			Err(e) => sink.push(&format!("{name}/config/rejected"), j.clone(), e),
		}
	}
	h.run.enum_block("Serde/indicator configs round trip", n, n, true, serde_json::json!("default + small-period + MA-kind variants of every indicator"), sink.into_violations());
}

/// every float parameter at values whose shortest decimal form needs 17 significant digits
pub fn float17_configs() -> Vec<Box<dyn IndCfg>> {
	let mut v = vec![];
	for c in defaults() {
		// (a float parameter is recognised by what `set` does with a float text, not by the JSON type of the
		// field: a serializer that writes floats as text must not hide them from this check)
		for (key, _) in json_map(&c.to_json().unwrap()) {
			for t in ["0.30000000000000004", "1.4142135623730951", "0.1234567890123456", "1.2100000000000002", "0.07000000000000001"] {
				let mut x = c.boxed_clone();
				if x.set(&key, t.to_string()).is_ok() && x.validate() && x.debug_key().contains(t) {
					v.push(x);
				}
			}
		}
	}
	v
}

/// default config, a small-period config and MA-kind variants of every indicator
pub fn indicator_configs(with_kinds: bool) -> Vec<Box<dyn IndCfg>> {
	let mut v = vec![];
	for c in defaults() {
		v.push(c.boxed_clone());
		// small periods: every integer parameter -> 2..4 (kept only if the config still validates)
		let keys = json_map(&c.to_json().unwrap());
		let mut small = c.boxed_clone();
		let mut k = 2;
		for (key, val) in &keys {
			if val.is_u64() {
				let mut t = small.boxed_clone();
				if t.set(key, format!("{}", k)).is_ok() && t.validate() {
					small = t;
					k = 2 + (k - 1) % 3;
				}
			} else if val.is_object() {
				let kind = val.as_object().unwrap().keys().next().unwrap().clone();
				let kind = if kind == "lin_reg" { "linreg".to_string() } else { kind };
				let mut t = small.boxed_clone();
				if t.set(key, format!("{kind}-{}", k + 1)).is_ok() && t.validate() {
					small = t;
					k = 2 + (k - 1) % 3;
				}
			}
		}
		if small.validate() && small.to_json().ok() != c.to_json().ok() {
			v.push(small.boxed_clone());
		}
		if with_kinds {
			for (key, val) in &keys {
				if val.is_object() {
					for kind in MA_KINDS {
						let mut t = small.boxed_clone();
						let cur = json_map(&t.to_json().unwrap());
						let len = cur[key].as_object().and_then(|o| o.values().next().and_then(|x| x.as_u64())).unwrap_or(3);
						if t.set(key, format!("{kind}-{len}")).is_ok() && t.validate() {
							v.push(t);
						}
					}
				}
			}
		}
	}
	v
}

fn main() {
	let mut h = H::start("C13");
	let thorough = h.thorough();
	for sp in registry() {
		let mut params = small_params(&sp);
		let name: &'static str = sp.name;
		let alphabet = inputs(sp.input);
		let sys = SnapSys {
			name: format!("{name}/snapshot-at-every-state"),
			spec_name: name,
			params,
			pre_depth: if thorough { |p| (2 * span(p) as u32 + 2).min(8) } else { |p| (2 * span(p) as u32 + 2).min(6) },
			alphabet: alphabet[..alphabet.len().min(if thorough { 4 } else { 3 })].to_vec(),
		};
		h.go(&sys, &Limits::depth(20).wall_secs(300), true);
		// rounding-active values of mixed magnitudes: a restored instance that sums the same window in
		// another order differs in the last bit
		let sys = SnapSys {
			name: format!("{name}/snapshot-at-every-state/mixed-magnitudes"),
			spec_name: name,
			params: small_params(&sp),
			pre_depth: if thorough { |p| (2 * span(p) as u32 + 2).min(7) } else { |p| (2 * span(p) as u32 + 2).min(5) },
			alphabet: checks::grid::mixed(sp.input)[..3].to_vec(),
		};
		h.go(&sys, &Limits::depth(20).wall_secs(300), true);
	}
	// both zeros: an order-statistics buffer that is rebuilt on restore must give medians / extrema of the same sign
	for sp in registry() {
		if sp.input != InKind::Value {
			continue;
		}
		let name: &'static str = sp.name;
		let sys = SnapSys {
			name: format!("{name}/snapshot-at-every-state/signed-zeros"),
			spec_name: name,
			params: small_params(&sp),
			pre_depth: if thorough { |p| (2 * span(p) as u32 + 2).min(7) } else { |p| (2 * span(p) as u32 + 2).min(6) },
			alphabet: vec![In::V(0.0), In::V(-0.0), In::V(1.0)],
		};
		h.go(&sys, &Limits::depth(20).wall_secs(300), true);
	}
	// boundary parameters (largest legal windows): one snapshot after a short stream, in both tiers
	for sp in registry() {
		let name: &'static str = sp.name;
		let params = edge_params(&sp);
		if params.is_empty() {
			continue;
		}
		let alphabet = inputs(sp.input);
		let sys = SnapSys { name: format!("{name}/snapshot-at-every-state/boundary-parameters"), spec_name: name, params, pre_depth: |_| 2, alphabet: alphabet[..2].to_vec() };
		h.go(&sys, &Limits::depth(20).wall_secs(300), true);
	}
	let ks = alpha::k_candles();
	h.go(&ISnapSys { cfgs: indicator_configs(false), alphabet: ks[..4].to_vec(), pre: if thorough { 5 } else { 3 }, tag: "default+small".into() }, &Limits::depth(20).wall_secs(600), true);
	h.go(&ISnapSys { cfgs: indicator_configs(false), alphabet: checks::grid::mixed_candles(), pre: if thorough { 5 } else { 3 }, tag: "default+small/mixed-magnitudes".into() }, &Limits::depth(20).wall_secs(600), true);
	h.go(&ISnapSys { cfgs: float17_configs(), alphabet: ks[..3].to_vec(), pre: 2, tag: "float-parameters-with-17-digits".into() }, &Limits::depth(20).wall_secs(600), true);
	if thorough {
		h.go(&ISnapSys { cfgs: indicator_configs(true), alphabet: ks[..3].to_vec(), pre: 3, tag: "ma-kinds".into() }, &Limits::depth(20).wall_secs(900), true);
	}
	// snapshots far into a stream: every method (small and boundary parameters), CollapseTimeframe with
	// periods beyond 256, every indicator (default, small, every float parameter small / large)
	for sp in registry() {
		let name: &'static str = sp.name;
		let mut params: Vec<(Params, u32, u32)> = small_params(&sp).into_iter().chain(edge_params(&sp)).map(|p| (p, if thorough { 1100 } else { 560 }, 24)).collect();
		if name == "CollapseTimeframe" {
			for p in [257usize, 300, 1000] {
				params.push((Params::U(p), p as u32 + 8, p as u32 + 4));
			}
		}
		let mut alphabet = inputs(sp.input);
		alphabet.truncate(5);
		h.go(&LongSnapSys { name: format!("{name}/snapshot-far-into-a-stream"), spec_name: name, params: params.clone(), alphabet: alphabet.clone(), pre: 0 }, &Limits::deviation(1, 4000).wall_secs(300), true);
		// ... and around the 65 536-th step (a history of 65 520 inputs is fed first)
		let mut late: Vec<(Params, u32, u32)> = params.into_iter().map(|(p, _, tail)| (p, 32, tail.min(40))).collect();
		if name == "CollapseTimeframe" {
			late.push((Params::U(70_000), 32, 4_600));
		}
		h.go(&LongSnapSys { name: format!("{name}/snapshot-around-step-65536"), spec_name: name, params: late, alphabet, pre: 65_520 }, &Limits::deviation(1, 6000).wall_secs(300), true);
	}
	for c in defaults() {
		let name = c.const_name();
		let mut cfgs = checks::indcheck::indicator_configs_small3(name);
		let base: Vec<Box<dyn IndCfg>> = cfgs.iter().map(|c| c.boxed_clone()).collect();
		for b in &base {
			for (key, val) in json_map(&b.to_json().unwrap()) {
				if val.is_f64() {
					for t in ["0.0002", "0.01", "0.03", "0.07", "0.09", "0.13", "0.3", "0.45", "0.9", "2.5"] {
						let mut x = b.boxed_clone();
						if x.set(&key, t.to_string()).is_ok() && x.validate() {
							cfgs.push(x);
						}
					}
				}
			}
		}
		let few: Vec<Box<dyn IndCfg>> = checks::indcheck::indicator_configs_small3(name);
		h.go(&ILongSnapSys { name: format!("{name}/snapshot-far-into-a-stream"), cfgs, len: if thorough { 700 } else { 330 }, tail: 24, pre: 0 }, &Limits::deviation(1, 4000).wall_secs(300), true);
		h.go(&ILongSnapSys { name: format!("{name}/snapshot-around-step-65536"), cfgs: few, len: 32, tail: 24, pre: 65_520 }, &Limits::deviation(1, 4000).wall_secs(300), true);
	}
	if !h.is_replay() {
		adversarial(&mut h);
		configs_roundtrip(&mut h);
	}
	h.run.assume("serde_json as the self-describing format (its float printing round-trips f64 exactly); states holding NaN/inf are exempt because JSON cannot carry them (counted as exempt steps)");
	h.finish();
}
