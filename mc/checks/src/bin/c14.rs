//! C14 — crossing and reversal detectors are definitional for any stream length.

use checks::mvr::*;
use checks::subj::*;
use checks::*;
use refmodel::methods as rm;
use yata::core::{Action, Method};
use yata::methods::{Cross, CrossAbove, CrossUnder};

type V = ValueType;

// ------------------------------------------------------------ crossing family (concrete types)

#[derive(Clone)]
struct CrossState {
	above: CrossAbove,
	under: CrossUnder,
	cross: Cross,
	swapped: Cross,
	above_b: CrossAbove,
	under_b: CrossUnder,
	prev_delta: f64,
}
struct CrossSys {
	alphabet: Vec<(V, V)>,
}
fn act(a: Action) -> i32 {
	match a {
		Action::None => 0,
		Action::Buy(v) => v as i32,
		Action::Sell(v) => -(v as i32),
	}
}
impl System for CrossSys {
	type State = CrossState;
	type Act = (V, V);
	fn name(&self) -> String {
		"Cross-family/closure".into()
	}
	fn inits(&self) -> Vec<(CrossState, String)> {
		self.alphabet
			.iter()
			.map(|p| {
				(
					CrossState {
						above: CrossAbove::new((), p).unwrap(),
						under: CrossUnder::new((), p).unwrap(),
						cross: Cross::new((), p).unwrap(),
						swapped: Cross::new((), &(p.1, p.0)).unwrap(),
						above_b: CrossAbove::new((), p).unwrap(),
						under_b: CrossUnder::new((), p).unwrap(),
						prev_delta: (p.0 - p.1) as f64,
					},
					format!("v0=({:?},{:?})", p.0, p.1),
				)
			})
			.collect()
	}
	fn actions(&self, _: &CrossState, _: u32) -> Vec<((V, V), u8)> {
		self.alphabet.iter().map(|p| (*p, 0)).collect()
	}
	fn key(&self, s: &CrossState) -> Option<u128> {
		Some(hash128_str(&format!("{:?}{:?}{:?}{:?}{:?}{:?}{:?}", s.above, s.under, s.cross, s.swapped, s.above_b, s.under_b, s.prev_delta.to_bits())))
	}
	fn step(&self, s: &CrossState, a: &(V, V)) -> Step<CrossState> {
		let mut n = s.clone();
		let cur = (a.0 - a.1) as f64;
		let up = rm::cross_above(s.prev_delta, cur);
		let dn = rm::cross_under(s.prev_delta, cur);
		n.prev_delta = cur;
		let touch = if cur == 0.0 || s.prev_delta == 0.0 { "touch" } else { "plain" };
		let f = |who: &str, got: i32, want: i32| Failure::new(format!("{who}/next/exact/{touch}"), format!("previous difference {:?}, current {:?}: output strength {got}, definition {want}", s.prev_delta, cur));
		let g = act(n.above.next(a));
		if g != if up { 255 } else { 0 } {
			return Step::Violation(f("CrossAbove", g, up as i32 * 255));
		}
		let g = act(n.under.next(a));
		if g != if dn { 255 } else { 0 } {
			return Step::Violation(f("CrossUnder", g, dn as i32 * 255));
		}
		let want = (up as i32 - dn as i32) * 255;
		let g = act(n.cross.next(a));
		if g != want {
			return Step::Violation(f("Cross", g, want));
		}
		let gs = act(n.swapped.next(&(a.1, a.0)));
		if gs != -want {
			return Step::Violation(f("Cross(swapped)", gs, -want));
		}
		if n.above_b.binary(a.0, a.1) != up {
			return Step::Violation(f("CrossAbove::binary", !up as i32, up as i32));
		}
		if n.under_b.binary(a.0, a.1) != dn {
			return Step::Violation(f("CrossUnder::binary", !dn as i32, dn as i32));
		}
		Step::Next(n)
	}
}

// ------------------------------------------------------------ reversal family

#[derive(Clone, Copy, PartialEq)]
enum RK {
	Upper,
	Lower,
	Both,
}
#[derive(Clone)]
struct RevRef {
	r: rm::Reversal,
	k: RK,
	t: u64,
}
impl RefAny for RevRef {
	fn next(&mut self, i: &In) -> (Expect, &'static str) {
		self.r.push(i.v() as f64);
		self.t += 1;
		let (u, l) = (self.r.upper(), self.r.lower());
		let a = match self.k {
			RK::Upper => Action::from(u as i8),
			RK::Lower => Action::from(l as i8),
			// ReversalSignal = lower - upper
			RK::Both => Action::from(l as i8 - u as i8),
		};
		let win = (self.r.left + self.r.right + 1) as u64;
		let class = if self.t + win > PeriodType::MAX as u64 { "position-counter-at-capacity" } else { "plain" };
		(Expect::Exact(Out::A(a)), class)
	}
	fn box_clone(&self) -> Box<dyn RefAny> {
		Box::new(self.clone())
	}
	fn key(&self) -> String {
		let w = self.r.left + self.r.right + 1;
		let cap = (PeriodType::MAX as u64).saturating_add(2);
		format!("{:?}|{}", self.r.input.last_n(w).iter().map(|q| q.v.to_bits()).collect::<Vec<_>>(), self.t.min(cap))
	}
}
fn mk_ref(name: &'static str) -> fn(&Params, &In) -> Box<dyn RefAny> {
	macro_rules! k {
		($k:expr) => {
			|p: &Params, i: &In| {
				let Params::NN(l, r) = p else { unreachable!() };
				Box::new(RevRef { r: rm::Reversal::new(*l as usize, *r as usize, i.v() as f64), k: $k, t: 0 }) as Box<dyn RefAny>
			}
		};
	}
	match name {
		"UpperReversalSignal" => k!(RK::Upper),
		"LowerReversalSignal" => k!(RK::Lower),
		"ReversalSignal" => k!(RK::Both),
		_ => panic!(),
	}
}
fn span(p: &Params) -> usize {
	match p {
		Params::NN(a, b) => *a as usize + *b as usize + 1,
		_ => 1,
	}
}
fn vals(v: &[V]) -> Vec<In> {
	v.iter().map(|x| In::V(*x)).collect()
}

fn main() {
	refmodel::set_eps(eps());
	refmodel::set_floor(ValueType::MIN_POSITIVE as f64);
	let mut h = H::start("C14");
	let thorough = h.thorough();
	// crossing family
	{
		let tiny: V = if IS_F32 { 1e-45 } else { 5e-324 };
		let xs: [V; 6] = [-1.0, -0.0, 0.0, tiny, 1.0, 2.0];
		let mut al = vec![];
		for a in xs {
			for b in xs {
				al.push((a, b));
			}
		}
		h.go(&CrossSys { alphabet: al }, &Limits::closure(), false);
	}
	// reversal family: closure over a 3-symbol alphabet - runs through the whole range of the position counter
	let narrow = PeriodType::MAX as u64 == 255;
	for name in ["UpperReversalSignal", "LowerReversalSignal", "ReversalSignal"] {
		let lrs: Vec<(PeriodType, PeriodType)> = if thorough { vec![(1, 1), (1, 2), (2, 1), (2, 2), (1, 3), (3, 1), (2, 3), (3, 2)] } else { vec![(1, 1), (1, 2), (2, 1), (2, 2)] };
		for (l, r) in lrs {
			let syms: Vec<V> = vec![0.0, 1.0, 2.0];
			let sys = MSys {
				name: format!("{name}/closure/({l},{r})"),
				spec: spec(name),
				params: vec![Params::NN(l, r)],
				// first input = construction value (the API's prescribed use): explore from every v0 with the first action forced by Flat? no - Free, but v0 in the alphabet and the oracle's prehistory is v0
				v0s: vals(&syms),
				alphabet: vals(&syms),
				mk_ref: mk_ref(name),
				shape: Shape::Free,
				span,
				keyed: true,
				positions: None,
				check_peek: false,
				extra: None,
			};
			let lim = if narrow { Limits::closure().states(if thorough { 60_000_000 } else { 6_000_000 }).wall_secs(if thorough { 900 } else { 25 }) } else { Limits::depth(12) };
			h.go(&FirstIsV0(sys), &lim, false);
		}
		// neighbouring floats: a retest one ulp below / above an extreme is a different value, not a tie
		for (tag, x) in [("1.0", 1.0 as V), ("150.0", 150.0 as V)] {
			let up = V::from_bits(x.to_bits() + 1);
			let dn = V::from_bits(x.to_bits() - 1);
			let syms: Vec<V> = vec![x, up, dn, x / 2.0, x * 2.0];
			let sys = MSys {
				name: format!("{name}/depth/ulp-neighbours-of-{tag}"),
				spec: spec(name),
				params: vec![Params::NN(1, 1), Params::NN(1, 2), Params::NN(2, 1), Params::NN(2, 2)],
				v0s: vals(&syms[..4]),
				alphabet: vals(&syms),
				mk_ref: mk_ref(name),
				shape: Shape::Free,
				span,
				keyed: false,
				positions: None,
				check_peek: false,
				extra: None,
			};
			h.go(&FirstIsV0(sys), &Limits::depth(if thorough { 9 } else { 7 }).wall_secs(300), true);
		}
		// many (left, right) pairs, flat base with deviations, streams longer than 2 * 255
		let maxp = (PeriodType::MAX as usize).min(255);
		let mut pairs = vec![];
		let edge: Vec<usize> = vec![1, 2, 3, 126, 127, 128, 250, 251, 252];
		if thorough {
			for l in 1..maxp {
				for r in 1..maxp {
					if l + r + 1 <= maxp && (l <= 4 || r <= 4 || (l + r) % 16 == 0 || l + r + 1 >= maxp - 1 || edge.contains(&l) || edge.contains(&r)) {
						pairs.push(Params::NN(l as PeriodType, r as PeriodType));
					}
				}
			}
		} else {
			for &l in &edge {
				for &r in &edge {
					if l + r + 1 <= maxp {
						pairs.push(Params::NN(l as PeriodType, r as PeriodType));
					}
				}
			}
		}
		if (PeriodType::MAX as u64) > 255 {
			// wide period types (C20): windows beyond 255 values
			for (l, r) in [(250usize, 4usize), (4, 250), (127, 128), (200, 99), (500, 499), (1, 1000)] {
				pairs.push(Params::NN(l as PeriodType, r as PeriodType));
			}
		}
		let sys = Flat(MSys {
			name: format!("{name}/deviation/{}-pairs", pairs.len()),
			spec: spec(name),
			params: pairs,
			v0s: vals(&[1.0]),
			alphabet: vals(&[1.0, 2.0, 0.0]),
			mk_ref: mk_ref(name),
			shape: Shape::Flat,
			span,
			keyed: false,
			positions: Some(|w| {
				let w = w as u32;
				vec![1, 2, 3, w - 1, w, w + 1, 200, 240] // never position 0: the first input is the construction value (prescribed use)
			}),
			check_peek: false,
			extra: None,
		});
		h.go(&sys, &Limits::deviation(if thorough { 2 } else { 1 }, if (PeriodType::MAX as u64) > 255 { 2200 } else { 600 }).wall_secs(900).states(400_000_000), true);
	}
	h.run.assume("reversal definition stated for the prescribed use: first input equals the construction value");
	h.finish();
}

/// restricts the first action to the construction value (the API's prescribed use)
struct FirstIsV0(MSys);
impl System for FirstIsV0 {
	type State = MState;
	type Act = In;
	fn name(&self) -> String {
		self.0.name()
	}
	fn inits(&self) -> Vec<(MState, String)> {
		self.0.inits()
	}
	fn actions(&self, s: &MState, depth: u32) -> Vec<(In, u8)> {
		if depth == 0 {
			vec![(s.prev, 0)]
		} else {
			self.0.actions(s, depth)
		}
	}
	fn show_act(&self, a: &In) -> String {
		a.show()
	}
	fn key(&self, s: &MState) -> Option<u128> {
		self.0.key(s)
	}
	fn step(&self, s: &MState, a: &In) -> Step<MState> {
		self.0.step(s, a)
	}
}
