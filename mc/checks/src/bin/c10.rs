//! C10 — invalid parameters are rejected with an error; accepted instances never panic.
//!
//! The same grid is run in two builds of the same tree: `release` and `ubcheck`
//! (optimised + overflow-checks + debug-assertions, where an arithmetic overflow or a
//! debug assertion is observable as a panic). The driver (release) spawns the ubcheck
//! worker and merges its findings.

use checks::grid::*;
use checks::ind::*;
use checks::subj::*;
use checks::*;
use rayon::prelude::*;
use std::str::FromStr;
use yata::core::{Candle, Source};

type V = ValueType;

fn build_name() -> &'static str {
	if cfg!(debug_assertions) {
		"ubcheck"
	} else {
		"release"
	}
}
fn sanitize(msg: &str) -> String {
	// strip run-specific numbers so that the signature is stable
	let mut s = String::new();
	let mut last_digit = false;
	for c in msg.chars() {
		if c.is_ascii_digit() {
			if !last_digit {
				s.push('#');
			}
			last_digit = true;
		} else {
			last_digit = false;
			s.push(c);
		}
	}
	s.chars().take(80).collect()
}
/// is a window of exactly PeriodType::MAX elements implied by the parameters? (one of the integers in
/// their textual form is MAX, or two of them are the `left`/`right` of a pivot window: a + b + 1 == MAX)
fn max_class_of(nums: &[u64]) -> &'static str {
	let m = PeriodType::MAX as u64;
	let mut has = nums.iter().any(|x| *x == m);
	for i in 0..nums.len() {
		for j in 0..nums.len() {
			if i != j && nums[i] + nums[j] + 1 == m {
				has = true;
			}
		}
	}
	if has {
		"/a-window-length-is-PeriodType::MAX"
	} else {
		"/no-window-length-is-PeriodType::MAX"
	}
}
fn max_class(text: &str) -> &'static str {
	let nums: Vec<u64> = text.split(|c: char| !c.is_ascii_digit()).filter_map(|tok| tok.parse().ok()).collect();
	max_class_of(&nums)
}
fn max_class_p(p: &Params) -> &'static str {
	match p {
		Params::W(w) => max_class_of(&[w.len() as u64]),
		o => max_class(&o.show()),
	}
}
fn psig(p: &PanicInfo) -> String {
	format!("{}@{}", sanitize(&p.msg), p.file_short())
}

struct Tally {
	cases: std::sync::atomic::AtomicU64,
	ok: std::sync::atomic::AtomicU64,
	err: std::sync::atomic::AtomicU64,
	steps: std::sync::atomic::AtomicU64,
}
impl Tally {
	fn new() -> Self {
		Self { cases: 0.into(), ok: 0.into(), err: 0.into(), steps: 0.into() }
	}
	fn add(a: &std::sync::atomic::AtomicU64, n: u64) {
		a.fetch_add(n, std::sync::atomic::Ordering::Relaxed);
	}
}

/// streams for an accepted instance: every sequence of depth `d` over the alphabet, and flat
/// streams of `h` steps with at most one deviation at a few positions
fn streams(al: &[In], d: usize, h: usize, span: usize) -> Vec<Vec<In>> {
	let mut v: Vec<Vec<In>> = vec![];
	let mut layer: Vec<Vec<In>> = vec![vec![]];
	for _ in 0..d {
		let mut next = vec![];
		for s in &layer {
			for a in al {
				let mut t = s.clone();
				t.push(*a);
				next.push(t);
			}
		}
		layer = next;
	}
	v.extend(layer);
	if h > 0 {
		let base = al[0];
		v.push(vec![base; h]);
		let mut pos = vec![0usize, 1, span.saturating_sub(1), span, span + 1, 254, 255, 256, h - 1];
		pos.retain(|p| *p < h);
		pos.sort_unstable();
		pos.dedup();
		for a in &al[1..] {
			for &p in &pos {
				let mut s = vec![base; h];
				s[p] = *a;
				v.push(s);
			}
		}
	}
	v
}

fn run_streams(name: &str, what: &str, pshow: &str, mk: &dyn Fn() -> Option<Box<dyn Subject>>, ss: &[Vec<In>], sink: &VioSink, t: &Tally) {
	for s in ss {
		let Some(mut m) = mk() else { return };
		for (i, x) in s.iter().enumerate() {
			Tally::add(&t.steps, 1);
			if let Err(p) = catch(|| m.next(x)) {
				// methods that document a panic on NaN inputs are never fed NaN here; every panic counts
				sink.push(&format!("{name}/next/panic:{}", psig(&p)), format!("{name}({pshow}) {what} stream step {i} of {}", s.len()), format!("panicked at {}: {}", p.at(), p.msg));
				break;
			}
		}
	}
}

fn methods_block(thorough: bool) -> (VioSink, Tally) {
	let sink = VioSink::new(&format!("Methods/params[{}]", build_name()));
	let t = Tally::new();
	let maxp = PeriodType::MAX as u64;
	let all_n: Vec<PeriodType> = if maxp == 255 { (0..=255u64).map(|x| x as PeriodType).collect() } else { let mut v: Vec<u64> = (0..=300).collect(); v.extend_from_slice(&[maxp / 2 - 1, maxp / 2, maxp / 2 + 1, maxp - 2, maxp - 1, maxp]); v.into_iter().map(|x| x as PeriodType).collect() };
	let specs = registry();
	specs.par_iter().for_each(|sp| {
		let name = sp.name;
		let al = inputs(sp.input);
		let v0 = al[0];
		let check_ctor = |p: &Params, too_small: bool| -> Option<Box<dyn Subject>> {
			Tally::add(&t.cases, 1);
			match catch(|| (sp.ctor)(p, &v0)) {
				Err(pn) => {
					sink.push(&format!("{name}/new/panic:{}{}", psig(&pn), max_class_p(p)), format!("{name}::new({})", p.show()), format!("panicked at {}: {}", pn.at(), pn.msg));
					None
				}
				Ok(Err(_)) => {
					Tally::add(&t.err, 1);
					// every other check explores "every length": a constructor that rejects a plainly valid length
					// (documented minimum .. 126, below every documented maximum) would silently shrink them all
					if let Params::N(n) = p {
						if !too_small && (*n as u64) >= 1 && (*n as u64) <= 126 {
							sink.push(&format!("{name}/new/rejected-valid-length"), format!("{name}::new({})", p.show()), "the constructor returned Err for a length inside every documented range".into());
						}
					}
					None
				}
				Ok(Ok(m)) => {
					Tally::add(&t.ok, 1);
					if too_small {
						sink.push(&format!("{name}/new/accepted-too-small-length"), format!("{name}::new({})", p.show()), "the documentation demands a larger length, the constructor returned Ok".into());
					}
					Some(m)
				}
			}
		};
		match sp.par {
			ParKind::N => {
				for &n in &all_n {
					let p = Params::N(n);
					let too_small = (n as u32) < sp.min_len;
					if check_ctor(&p, too_small).is_some() {
						let small = (n as u64) <= 5 || [127u64, 128, maxp - 2, maxp - 1, maxp].contains(&(n as u64));
						let ss = streams(&al[..3], if small { 4 } else { 2 }, if thorough || small { 600 } else { 0 }, n as usize);
						run_streams(name, "valid-input", &p.show(), &|| (sp.ctor)(&p, &v0).ok(), &ss, &sink, &t);
					}
				}
			}
			ParKind::NN => {
				let ns: Vec<PeriodType> = if maxp == 255 { all_n.clone() } else { [0u64, 1, 2, 3, 127, 128, 254, 255, 256, maxp - 1, maxp].iter().map(|x| *x as PeriodType).collect() };
				let edge: Vec<u64> = vec![1, 2, 3, 126, 127, 128, 251, 252, 253, 254];
				for &a in &ns {
					for &b in &ns {
						let p = Params::NN(a, b);
						let too_small = a == 0 || b == 0;
						if check_ctor(&p, too_small).is_some() {
							let is_edge = edge.contains(&(a as u64)) && edge.contains(&(b as u64));
							let is_small = a <= 3 && b <= 3;
							if is_small || is_edge || thorough {
								let ss = streams(&al[..3], if is_small { 4 } else { 1 }, if is_small || is_edge { 600 } else { 300 }, a as usize + b as usize + 1);
								run_streams(name, "valid-input", &p.show(), &|| (sp.ctor)(&p, &v0).ok(), &ss, &sink, &t);
							} else {
								let ss = vec![vec![al[0], al[1], al[2], al[1], al[0], al[0], al[2], al[2]]];
								run_streams(name, "valid-input", &p.show(), &|| (sp.ctor)(&p, &v0).ok(), &ss, &sink, &t);
							}
						}
					}
				}
			}
			ParKind::Weights => {
				for len in [0usize, 1, 2, 3, 254, 255, 256, 257] {
					if len as u64 > maxp.saturating_add(2) {
						continue;
					}
					for w in [vec![1.0 as V; len], (0..len).map(|i| (i % 3) as V - 1.0).collect::<Vec<V>>(), vec![0.0 as V; len]] {
						let p = Params::W(w);
						if check_ctor(&p, len == 0).is_some() {
							let ss = streams(&al[..3], 2, 600, len);
							run_streams(name, "valid-input", &format!("{len} weights"), &|| (sp.ctor)(&p, &v0).ok(), &ss, &sink, &t);
						}
					}
				}
			}
			ParKind::Usize => {
				for n in [0usize, 1, 2, 3, 255, 256, 257, 65536, usize::MAX] {
					let p = Params::U(n);
					if check_ctor(&p, n == 0).is_some() {
						let ss = streams(&al[..3], 3, 600, n.min(300));
						run_streams(name, "valid-input", &p.show(), &|| (sp.ctor)(&p, &v0).ok(), &ss, &sink, &t);
					}
				}
			}
			ParKind::Renko => {
				let sizes: Vec<V> = vec![V::NAN, V::INFINITY, V::NEG_INFINITY, 0.0, -0.0, V::MIN_POSITIVE, V::EPSILON, V::EPSILON / 2.0, 0.0078125, 0.01, 0.5, 1.0 - V::EPSILON, 1.0, 2.0, V::MAX, -0.5];
				for s in sizes {
					for src in [Source::Close, Source::Open, Source::High, Source::Low, Source::HL2, Source::TP, Source::Volume, Source::VolumedPrice] {
						let p = Params::Renko(s, src);
						let valid_size = s > 0.0 && s < 1.0;
						Tally::add(&t.cases, 1);
						match catch(|| (sp.ctor)(&p, &v0)) {
							Err(pn) => sink.push(&format!("{name}/new/panic:{}", psig(&pn)), format!("Renko::new({})", p.show()), pn.msg),
							Ok(Err(_)) => Tally::add(&t.err, 1),
							Ok(Ok(_)) => {
								Tally::add(&t.ok, 1);
								if !valid_size {
									sink.push("Renko/new/accepted-size-outside-(0,1)", format!("Renko::new({})", p.show()), "documented: size must be in (0.0; 1.0)".into());
								}
								let ss = streams(&al[..4], 3, 300, 1);
								run_streams(name, "valid-input", &p.show(), &|| (sp.ctor)(&p, &v0).ok(), &ss, &sink, &t);
							}
						}
					}
				}
			}
			ParKind::Ma => {
				for kind in MA_KINDS {
					for &n in &all_n {
						let p = Params::Ma(ma_of(kind, n));
						let min = checks::refs::ma_min_len(kind) as u32;
						if check_ctor(&p, (n as u32) < min).is_some() {
							let small = (n as u64) <= 4 || [127u64, 128, maxp - 1, maxp].contains(&(n as u64));
							let ss = streams(&al[..3], if small { 3 } else { 1 }, if thorough || small { 600 } else { 0 }, n as usize);
							run_streams(name, "valid-input", &p.show(), &|| (sp.ctor)(&p, &v0).ok(), &ss, &sink, &t);
						}
					}
				}
			}
			ParKind::Unit => {
				let p = Params::Unit;
				for v in v0s(sp.input) {
					Tally::add(&t.cases, 1);
					match catch(|| (sp.ctor)(&p, &v)) {
						Err(pn) => sink.push(&format!("{name}/new/panic:{}", psig(&pn)), format!("{name}::new((), {})", v.show()), pn.msg),
						Ok(_) => Tally::add(&t.ok, 1),
					}
				}
				let ss = streams(&al, 4, 600, 1);
				run_streams(name, "valid-input", "()", &|| (sp.ctor)(&p, &v0).ok(), &ss, &sink, &t);
			}
		}
	});
	(sink, t)
}

fn float_texts() -> Vec<&'static str> {
	vec!["NaN", "inf", "-inf", "0", "-0", "5e-324", "2.220446049250313e-16", "1e-6", "0.001", "0.5", "0.9999999999999999", "1", "2", "1e300", "-1", "-0.5", "100"]
}

fn indicators_block(thorough: bool) -> (VioSink, Tally) {
	let sink = VioSink::new(&format!("Indicators/params[{}]", build_name()));
	let t = Tally::new();
	let ks = alpha::k_candles();
	let doc_min = documented_minimums();
	let cfgs = defaults();
	let maxp = PeriodType::MAX as u64;
	let edge: Vec<u64> = vec![0, 1, 2, 3, 127, 128, maxp - 2, maxp - 1, maxp];
	cfgs.par_iter().for_each(|c0| {
		let name = c0.const_name();
		let keys = json_map(&c0.to_json().unwrap());
		// candidate configurations: one field varied at a time, pairs of integer/MA fields over the edge set
		let mut cands: Vec<(Box<dyn IndCfg>, String)> = vec![(c0.boxed_clone(), "default".into())];
		let mut int_like: Vec<(String, bool)> = vec![];
		for (k, v) in &keys {
			let mut texts: Vec<String> = vec![];
			if v.is_u64() {
				texts = (0..=255u64).map(|x| x.to_string()).collect();
				if maxp > 255 {
					texts.extend([256u64, 1000, maxp / 2, maxp - 1, maxp].iter().map(|x| x.to_string()));
				}
				int_like.push((k.clone(), false));
			} else if v.is_f64() {
				texts = float_texts().into_iter().map(String::from).collect();
			} else if v.is_object() {
				for kind in MA_KINDS {
					for n in &edge {
						texts.push(format!("{kind}-{n}"));
					}
				}
				int_like.push((k.clone(), true));
			} else if v.is_string() {
				texts = ["close", "open", "high", "low", "hl2", "tp", "volume", "volumed_price"].iter().map(|s| s.to_string()).collect();
			} else if v.is_boolean() {
				texts = vec!["true".into(), "false".into()];
			}
			for tx in texts {
				let mut c = c0.boxed_clone();
				if let Ok(Ok(())) = catch(|| c.set(k, tx.clone())) {
					cands.push((c, format!("{k}={tx}")));
				}
			}
		}
		// coupled fields: all pairs over the edge set
		for i in 0..int_like.len() {
			for j in (i + 1)..int_like.len() {
				for a in &edge {
					for b in &edge {
						let mut c = c0.boxed_clone();
						let ta = if int_like[i].1 { format!("sma-{a}") } else { a.to_string() };
						let tb = if int_like[j].1 { format!("ema-{b}") } else { b.to_string() };
						if c.set(&int_like[i].0, ta.clone()).is_ok() && c.set(&int_like[j].0, tb.clone()).is_ok() {
							cands.push((c, format!("{}={ta},{}={tb}", int_like[i].0, int_like[j].0)));
						}
					}
				}
			}
		}
		// two MA slots at once: an overshooting kind (its outputs change sign after an impulse) in one slot, the
		// moving median (which refuses NaN) in another - every ordered pair of slots
		{
			let ma_keys: Vec<&String> = keys.iter().filter(|(_, v)| v.is_object()).map(|(k, _)| k).collect();
			for ka in &ma_keys {
				for kb in &ma_keys {
					if ka == kb {
						continue;
					}
					for kind in ["linreg", "hma", "dema", "tema"] {
						for n in [6, 7, 8] {
							let mut c = c0.boxed_clone();
							if c.set(ka, format!("{kind}-{n}")).is_ok() && c.set(kb, "smm-3".to_string()).is_ok() {
								cands.push((c, format!("pair:{ka}={kind}-{n},{kb}=smm-3")));
							}
						}
					}
				}
			}
		}
		for (c, what) in &cands {
			Tally::add(&t.cases, 1);
			let valid = match catch(|| c.validate()) {
				Ok(v) => v,
				Err(p) => {
					sink.push(&format!("{name}/validate/panic:{}", psig(&p)), format!("{name} {what}"), p.msg);
					continue;
				}
			};
			let case = format!("{name} {{{what}}}");
			// "Err whenever a length is given that the constructor documents as too small": every integer parameter
			// / MA period of this configuration against the literal lower bound of its doc comment
			let below: Option<String> = json_map(&c.to_json().unwrap_or_default()).iter().find_map(|(k, v)| {
				let val = v.as_u64().or_else(|| v.as_object().and_then(|o| o.values().next().and_then(|x| x.as_u64())))?;
				let min = *doc_min.get(&(name.to_string(), k.clone()))?;
				if val < min {
					Some(format!("{k} = {val}, documented minimum {min}"))
				} else {
					None
				}
			});
			match catch(|| c.init(&ks[1])) {
				Err(p) => sink.push(&format!("{name}/init/panic:{}{}", psig(&p), max_class(&c.to_json().unwrap_or_default())), case, format!("validate() = {valid}; init panicked at {}: {}", p.at(), p.msg)),
				Ok(Err(_)) => Tally::add(&t.err, 1),
				Ok(Ok(inst)) => {
					Tally::add(&t.ok, 1);
					if let Some(b) = &below {
						let field = b.split(' ').next().unwrap_or("");
						sink.push(&format!("{name}/init/accepted-below-documented-minimum/{field}"), case.clone(), format!("init returned Ok although {b}"));
					}
					if !valid {
						sink.push(&format!("{name}/init/accepted-although-validate-false"), case.clone(), "validate() is false but init returned Ok".into());
					}
					// accepted: streams of valid candles
					let mut ss: Vec<Vec<Candle>> = vec![];
					for a in 0..3 {
						for b in 0..3 {
							for d in 0..3 {
								ss.push(vec![ks[a], ks[b], ks[d]]);
							}
						}
					}
					let h = if thorough || what == "default" { 600 } else { 300 };
					ss.push(vec![ks[1]; h]);
					for dev in [ks[2], ks[3], ks[0]] {
						for pos in [0usize, 1, 2, 50, 254, 255, 256, h - 1] {
							let mut s = vec![ks[1]; h];
							s[pos] = dev;
							if pos + 1 < h {
								s[pos + 1] = ks[4];
							}
							ss.push(s);
						}
					}
					let mut alt = vec![];
					for i in 0..h {
						alt.push(ks[[1, 2, 4, 5, 0, 3][i % 6]]);
					}
					ss.push(alt);
					// zigzag on a steady trend: hundreds of swing highs / lows on one side of every slow average
					// (peak and trend-length counters of every width have to survive them)
					for (start, up, down) in [(0.0, 2.0, -1.0), (2000.0, -2.0, 1.0), (0.0, 0.25, 0.25), (40000.0, -0.25, -0.25)] {
						let sh = |c: &Candle, d: f64| Candle { open: c.open + d as ValueType, high: c.high + d as ValueType, low: c.low + d as ValueType, close: c.close + d as ValueType, volume: c.volume };
						let mut z = vec![];
						let mut off = start;
						// 70 000 candles (beyond every 16-bit counter) for the default configuration and for every
						// variant of a float parameter (step sizes / factors decide how long internal counters run)
						let float_variant = !what.contains(',') && what.split_once('=').map(|(_, v)| v.parse::<f64>().is_ok() && v.parse::<u64>().is_err()).unwrap_or(false);
						for i in 0..(if (thorough && what == "default") || float_variant { 70_000 } else { 1400 }) {
							z.push(sh(&ks[1], off));
							off += if i % 2 == 0 { up } else { down };
						}
						ss.push(z);
					}
					// two events on a steady stream (the high pushed up by a, the low pushed down by b; for one candle
					// or for good; both orders; every gap 0..=8): exact cancellations between two averaged series
					if what == "default" || what.starts_with("pair:") {
						let b0 = ks[1];
						for kind in 0..4 {
							for a in 1..=5 {
								for b in 1..=5 {
									for gap in 0..=8usize {
										let hi = Candle { high: b0.high + a as ValueType, ..b0 };
										let lo = Candle { low: b0.low - b as ValueType, ..b0 };
										let both = Candle { high: b0.high + a as ValueType, low: b0.low - b as ValueType, ..b0 };
										let mut s = vec![b0, b0, b0];
										match kind {
											0 => {
												s.push(hi);
												s.extend(vec![b0; gap]);
												s.push(lo);
												s.extend(vec![b0; 12]);
											}
											1 => {
												s.push(lo);
												s.extend(vec![b0; gap]);
												s.push(hi);
												s.extend(vec![b0; 12]);
											}
											2 => {
												s.extend(vec![hi; gap + 1]);
												s.extend(vec![both; 12]);
											}
											_ => {
												s.extend(vec![lo; gap + 1]);
												s.extend(vec![both; 12]);
											}
										}
										ss.push(s);
									}
								}
							}
						}
					}
					drop(inst);
					for s in &ss {
						let Ok(mut i) = c.init(&ks[1]) else { break };
						let mut broke = false;
						for (k, x) in s.iter().enumerate() {
							Tally::add(&t.steps, 1);
							if let Err(p) = catch(|| i.next(x)) {
								sink.push(&format!("{name}/next/panic:{}", psig(&p)), format!("{case} stream step {k}"), format!("panicked at {}: {}", p.at(), p.msg));
								broke = true;
								break;
							}
						}
						if broke {
							break;
						}
					}
				}
			}
		}
	});
	(sink, t)
}

fn strings_block() -> (VioSink, u64) {
	let sink = VioSink::new(&format!("Strings/parse[{}]", build_name()));
	let mut n = 0;
	let texts: Vec<String> = {
		let mut v: Vec<String> = vec!["", " ", "-", "--", "sma", "sma-", "sma--1", "sma-256", "sma-99999999999999999999", "sma-+", "+", "\u{0}", "é-3", "sma-３", "close", "CLOSE ", "volumed_price", "volumed price", "tp\u{a0}", "NaN", "inf", "-inf", "1e400", "-1e400", "0x10", "1_000", "١٢٣", "true", "𝟏𝟐", "sma-1-2", "🙂", "a".repeat(10000).as_str()]
			.into_iter()
			.map(String::from)
			.collect();
		for k in MA_KINDS {
			v.push(format!("{k}-255"));
			v.push(format!("{k}-0"));
			v.push(format!("{k}-"));
		}
		// multi-byte characters at every byte offset of a name / number (fixed-size buffers, byte slicing)
		for ch in ["é", "ß", "€", "🙂", "\u{301}"] {
			for pos in 0..=17usize {
				for tail in ["-5", "-", "", "5"] {
					v.push(format!("{}{ch}{}{tail}", "a".repeat(pos), "b".repeat(17usize.saturating_sub(pos) % 4)));
				}
			}
			for k in ["sma", "linreg", "volumed_price", "close"] {
				for cut in 0..=k.len() {
					v.push(format!("{}{ch}{}-5", &k[..cut], &k[cut..]));
					v.push(format!("{k}-{}{ch}{}", &"12"[..cut.min(2)], &"12"[cut.min(2)..]));
				}
			}
		}
		// long texts with a multi-byte character straddling every power-of-two byte offset from 16 to 16 384
		// (messages, echoes and buffers cut at a fixed number of BYTES)
		for ch in ["é", "€", "🙂"] {
			for b in (4..=14).map(|k| 1usize << k) {
				for back in 1..ch.len() {
					v.push(format!("{}{ch}{}", "a".repeat(b - back), "b".repeat(40)));
					v.push(format!("{}{}", "a".repeat((b - back) % ch.len()), ch.repeat(b / ch.len() + 20)));
				}
			}
		}
		v.sort();
		v.dedup();
		v
	};
	for s in &texts {
		n += 2;
		if let Err(p) = catch(|| yata::helpers::MA::from_str(s)) {
			sink.push(&format!("MA::from_str/panic:{}", psig(&p)), format!("{s:?}"), p.msg);
		}
		if let Err(p) = catch(|| Source::from_str(s)) {
			sink.push(&format!("Source::from_str/panic:{}", psig(&p)), format!("{s:?}"), p.msg);
		}
	}
	// MovingAverageConstructor contract: `is_similar_to` ("the same moving average type") holds for exactly the
	// pairs of equal kind, at any pair of lengths; ma_period returns the length given
	{
		use yata::core::MovingAverageConstructor;
		for ka in MA_KINDS {
			for kb in MA_KINDS {
				for (la, lb) in [(3u8, 3u8), (3, 7), (254, 2)] {
					n += 1;
					let (Ok(a), Ok(b)) = (yata::helpers::MA::from_str(&format!("{ka}-{la}")), yata::helpers::MA::from_str(&format!("{kb}-{lb}"))) else { continue };
					let same = a.is_similar_to(&b);
					if same != (ka == kb) || a.ma_period() as u64 != la as u64 {
						sink.push("MA/is_similar_to/wrong-verdict", format!("{ka}-{la} ~ {kb}-{lb}"), format!("is_similar_to = {same}, ma_period = {}", a.ma_period()));
					}
				}
			}
		}
	}
	for c0 in defaults() {
		let keys = json_map(&c0.to_json().unwrap());
		for k in keys.keys() {
			for s in &texts {
				n += 1;
				let mut c = c0.boxed_clone();
				if let Err(p) = catch(|| c.set(k, s.clone())) {
					sink.push(&format!("{}/set/panic:{}", c0.const_name(), psig(&p)), format!("set({k:?}, {:?})", s.chars().take(20).collect::<String>()), p.msg);
				}
			}
		}
	}
	(sink, n)
}

fn main() {
	let a: Vec<String> = std::env::args().collect();
	if a.get(1).map(String::as_str) == Some("worker") {
		// child mode: run the grid in THIS build and print the findings as JSON lines
		mccore::panics::install_hook();
		let thorough = a.get(2).map(String::as_str) == Some("thorough");
		let (s1, t1) = methods_block(thorough);
		let (s2, t2) = indicators_block(thorough);
		let (s3, n3) = strings_block();
		let ld = |x: &std::sync::atomic::AtomicU64| x.load(std::sync::atomic::Ordering::Relaxed);
		println!("{}", serde_json::json!({"tally": {"cases": ld(&t1.cases) + ld(&t2.cases) + n3, "ok": ld(&t1.ok) + ld(&t2.ok), "err": ld(&t1.err) + ld(&t2.err), "steps": ld(&t1.steps) + ld(&t2.steps)}}));
		for v in s1.into_violations().into_iter().chain(s2.into_violations()).chain(s3.into_violations()) {
			println!("{}", serde_json::to_string(&v).unwrap());
		}
		return;
	}
	let mut h = H::start("C10");
	let thorough = h.thorough();
	h.enum_replay("Methods/params[release]", |_| None);
	if h.is_replay() {
		h.finish();
	}
	let ld = |x: &std::sync::atomic::AtomicU64| x.load(std::sync::atomic::Ordering::Relaxed);
	let (s1, t1) = methods_block(thorough);
	h.run.enum_block("Methods/parameter grid + streams [release]", ld(&t1.cases) + ld(&t1.steps), ld(&t1.ok) + ld(&t1.err), true, serde_json::json!({"constructors": ld(&t1.cases), "accepted": ld(&t1.ok), "rejected": ld(&t1.err), "next_calls": ld(&t1.steps)}), s1.into_violations());
	let (s2, t2) = indicators_block(thorough);
	h.run.enum_block("Indicators/parameter grid + streams [release]", ld(&t2.cases) + ld(&t2.steps), ld(&t2.ok) + ld(&t2.err), true, serde_json::json!({"configurations": ld(&t2.cases), "accepted": ld(&t2.ok), "rejected": ld(&t2.err), "next_calls": ld(&t2.steps)}), s2.into_violations());
	let (s3, n3) = strings_block();
	h.run.enum_block("Strings/parse [release]", n3, n3, true, serde_json::json!("sma-99999999999999999999"), s3.into_violations());
	// the ubcheck build of the same grid
	match std::env::var("VERIF_BIN_UBCHECK_C10") {
		Err(_) => h.run.machinery_error("VERIF_BIN_UBCHECK_C10 not set (run through bin/check)"),
		Ok(bin) => {
			let out = std::process::Command::new(&bin).arg("worker").arg(if thorough { "thorough" } else { "quick" }).output();
			match out {
				Err(e) => h.run.machinery_error(format!("cannot run {bin}: {e}")),
				Ok(o) => {
					if !o.status.success() {
						h.run.machinery_error(format!("ubcheck worker exited with {:?}: {}", o.status, String::from_utf8_lossy(&o.stderr).chars().take(2000).collect::<String>()));
					}
					let mut vios = vec![];
					let mut tally = serde_json::json!({});
					for l in String::from_utf8_lossy(&o.stdout).lines() {
						if let Ok(v) = serde_json::from_str::<serde_json::Value>(l) {
							if v.get("tally").is_some() {
								tally = v["tally"].clone();
							} else if let Ok(v) = serde_json::from_value::<Violation>(v) {
								vios.push(v);
							}
						}
					}
					let cases = tally["cases"].as_u64().unwrap_or(0) + tally["steps"].as_u64().unwrap_or(0);
					if cases == 0 {
						h.run.machinery_error("ubcheck worker reported no cases");
					}
					h.run.enum_block("whole grid [ubcheck: overflow-checks + debug-assertions]", cases.max(1), (tally["ok"].as_u64().unwrap_or(0) + tally["err"].as_u64().unwrap_or(0)).max(2), true, tally, vios);
				}
			}
		}
	}
	h.run.assume("'never overflows' is judged in the ubcheck profile (overflow-checks + debug-assertions on); inline assembly, FFI and allocation failure are not modelled");
	h.finish();
}
