//! C06 — indicator signals fire exactly under their documented conditions.
//! The explorations are those of C05 with the second oracle: the one source file serves both, the
//! property id is taken from the executable's name.

#[path = "c05.rs"]
mod c05;

fn main() {
	c05::main()
}
