//! C11 — indicator interface contract: result shape, dynamic dispatch and string setters.

use checks::ind::*;
use checks::*;
use serde_json::Value as J;
use yata::core::{Candle, IndicatorConfig, IndicatorInstance, IndicatorResult};

fn res_bits(r: &IndicatorResult) -> String {
	format!("{:?}|{:?}|{:?}", r.values().iter().map(|v| v.to_bits()).collect::<Vec<_>>(), r.signals().iter().map(|a| format!("{a:?}")).collect::<Vec<_>>(), r.size())
}

#[derive(Clone, Copy, Debug, PartialEq)]
enum FT {
	Int,
	Float,
	Source,
	Ma,
	Bool,
	Other,
}
fn field_type(v: &J) -> FT {
	match v {
		J::Number(n) if n.is_u64() || n.is_i64() => FT::Int,
		J::Number(_) => FT::Float,
		J::Bool(_) => FT::Bool,
		J::String(s) if ["close", "open", "high", "low", "hl2", "tp", "volume", "volumed_price"].contains(&s.as_str()) => FT::Source,
		J::Object(m) if m.len() == 1 && m.values().next().map(|x| x.is_u64()).unwrap_or(false) => FT::Ma,
		_ => FT::Other,
	}
}
const MA_NAMES: [(&str, &str); 15] = [
	("sma", "sma"), ("wma", "wma"), ("hma", "hma"), ("rma", "rma"), ("ema", "ema"), ("dma", "dma"), ("dema", "dema"), ("tma", "tma"), ("tema", "tema"),
	("wsma", "wsma"), ("smm", "smm"), ("swma", "swma"), ("trima", "trima"), ("linreg", "lin_reg"), ("vidya", "vidya"),
];
/// (text, expected JSON value if the text is a valid form of the type; None = must be rejected; Some(Null) = either)
fn texts(t: FT) -> Vec<(String, Option<J>)> {
	let mut v: Vec<(String, Option<J>)> = vec![];
	let garbage = ["", " ", "abc", "-", "--1", "1e", "0x10", "１２", "close1", "sma-", "-5", "nan-5", "{}", "\"5\""];
	match t {
		FT::Int => {
			for i in 0..=255u64 {
				v.push((i.to_string(), Some(J::from(i))));
			}
			v.push(("+7".into(), Some(J::from(7))));
			v.push(("007".into(), Some(J::from(7))));
			for s in ["-1", "1.5", "1e2", "7 ", " 7", "99999999999999999999999999"] {
				v.push((s.into(), None));
			}
			for s in ["256", "65535", "65536", "4294967296"] {
				v.push((s.into(), Some(J::Null))); // depends on the integer width of the field
			}
		}
		FT::Float => {
			for s in ["0", "0.5", "1", "-1", "-5", "2.5", "1e-3", "0.001", "100", "1e300", "-0.0", ".5", "5.", "+2"] {
				let f: f64 = s.parse().unwrap();
				v.push((s.into(), Some(J::from(f as ValueType as f64))));
			}
			for s in ["NaN", "inf", "-inf", "infinity"] {
				v.push((s.into(), Some(J::Null))); // parses as a float; JSON cannot show it
			}
			for s in ["1,5", "1.5.2", "0x1p3", "1 "] {
				v.push((s.into(), None));
			}
		}
		FT::Source => {
			for (s, c) in [("close", "close"), ("open", "open"), ("high", "high"), ("low", "low"), ("hl2", "hl2"), ("tp", "tp"), ("hlc3", "tp"), ("volume", "volume"), ("volumed_price", "volumed_price"), ("CLOSE", "close"), (" tp ", "tp"), ("Volumed_Price", "volumed_price")] {
				v.push((s.into(), Some(J::from(c))));
			}
			for s in ["closed", "hlc4", "ohlc4", "volumed price", "t p"] {
				v.push((s.into(), None));
			}
			// fixed-width fields: long runs of whitespace around a valid name
			for (nm, canon) in [("close", "close"), ("volumed_price", "volumed_price"), ("HL2", "hl2")] {
				for pad in [8usize, 12, 16, 17, 32, 33, 64, 300] {
					v.push((format!("{}{nm}", " ".repeat(pad)), Some(J::from(canon))));
					v.push((format!("{nm}{}", " ".repeat(pad)), Some(J::from(canon))));
					v.push((format!("{}{nm}\r\n", "\t".repeat(pad / 4)), Some(J::from(canon))));
				}
			}
			// one-bit neighbours of every canonical name: only ASCII case variants may be accepted
			let names = ["close", "open", "high", "low", "hl2", "tp", "hlc3", "volume", "volumed_price"];
			for nm in names {
				let b = nm.as_bytes();
				for i in 0..b.len() {
					for k in 0..8 {
						let mut x = b.to_vec();
						x[i] ^= 1 << k;
						let Ok(t) = String::from_utf8(x) else { continue };
						let canon = t.trim().to_ascii_lowercase();
						if !names.contains(&canon.as_str()) && !v.iter().any(|e: &(String, Option<J>)| e.0 == t) {
							v.push((t, None));
						}
					}
				}
			}
		}
		FT::Ma => {
			for (txt, js) in MA_NAMES {
				for n in [0u64, 1, 2, 3, 9, 127, 128, 253, 254, 255] {
					let mut m = serde_json::Map::new();
					m.insert(js.to_string(), J::from(n));
					v.push((format!("{txt}-{n}"), Some(J::Object(m))));
				}
			}
			for s in ["sma", "sma-", "sma--3", "SMA-3", "sma-3.0", "sma 3", "lin_reg-3", "ma-3", "sma-256x", "3-sma", "sma-3-4"] {
				v.push((s.into(), None));
			}
			v.push(("sma-256".into(), Some(J::Null)));
		}
		FT::Bool => {
			v.push(("true".into(), Some(J::Bool(true))));
			v.push(("false".into(), Some(J::Bool(false))));
			for s in ["True", "1", "0", "yes", "tru", "false "] {
				v.push((s.into(), None));
			}
		}
		FT::Other => {}
	}
	// one inserted character at every position of a few valid numbers (digit separators, signs, exponents,
	// blanks, suffixes): accepted exactly when the type's own `FromStr` takes the text, with that value
	if matches!(t, FT::Int | FT::Float) {
		let bases: &[&str] = if t == FT::Int { &["5", "12", "254"] } else { &["0.5", "2.5", "15", "1e-3", "-1.25"] };
		for b in bases {
			let chars: Vec<char> = b.chars().collect();
			for pos in 0..=chars.len() {
				for ins in ['_', ' ', '+', '-', '.', ',', 'e', 'E', '0', 'x', '\'', 'f', 'u', '\u{a0}', '٣', '\n'] {
					let mut x = chars.clone();
					x.insert(pos, ins);
					let txt: String = x.into_iter().collect();
					if v.iter().any(|e| e.0 == txt) {
						continue;
					}
					let want = if t == FT::Int {
						match (txt.parse::<u8>(), txt.parse::<u64>()) {
							(Ok(k), _) => Some(J::from(k)),
							(Err(_), Ok(_)) => Some(J::Null),
							_ => None,
						}
					} else {
						match txt.parse::<ValueType>() {
							Ok(f) if f.is_finite() => Some(J::from(f as f64)),
							Ok(_) => Some(J::Null),
							Err(_) => None,
						}
					};
					v.push((txt, want));
				}
			}
		}
	}
	for g in garbage {
		if !v.iter().any(|x| x.0 == g) {
			v.push((g.into(), None));
		}
	}
	v
}
fn json_eq(a: &J, b: &J) -> bool {
	match (a, b) {
		(J::Number(x), J::Number(y)) => x.as_f64() == y.as_f64(),
		_ => a == b,
	}
}

/// observable state of a dynamically dispatched configuration against the static one: validity and
/// the results over a probe stream
fn dyn_differs(c: &dyn IndCfg, d: &dyn yata::core::IndicatorConfigDyn<Candle>, probe: &Vec<Candle>) -> Option<String> {
	let (vc, vd) = (catch(|| c.validate()).ok()?, catch(|| d.validate()).ok()?);
	if vc != vd {
		return Some(format!("validate(): static {vc}, dynamic {vd}"));
	}
	if !vc {
		return None;
	}
	let rc = catch(|| c.over(probe)).ok()?;
	let rd = catch(|| d.over(probe)).ok()?;
	match (rc, rd) {
		(Ok(a), Ok(b)) => {
			let (a, b): (Vec<String>, Vec<String>) = (a.iter().map(res_bits).collect(), b.iter().map(res_bits).collect());
			if a != b {
				let i = a.iter().zip(&b).position(|(x, y)| x != y).unwrap_or(0);
				return Some(format!("over(probe) differs at candle {i}: static {} dynamic {}", a.get(i).cloned().unwrap_or_default(), b.get(i).cloned().unwrap_or_default()));
			}
			None
		}
		(Err(_), Err(_)) => None,
		(a, b) => Some(format!("over(probe): static is_ok={} dynamic is_ok={}", a.is_ok(), b.is_ok())),
	}
}

fn setters(h: &mut H) {
	let sink = VioSink::new("Indicators/set");
	let probe: Vec<Candle> = {
		let k = alpha::k_candles();
		(0..48).map(|i| k[[1usize, 2, 4, 5, 0, 3, 1, 1, 2][i % 9]]).collect()
	};
	let mut cases = 0u64;
	let mut ok_cases = 0u64;
	let all = defaults();
	let all_keys: Vec<String> = {
		let mut k: Vec<String> = all.iter().flat_map(|c| json_map(&c.to_json().unwrap()).into_keys()).collect();
		k.sort();
		k.dedup();
		k
	};
	for c0 in &all {
		let name = c0.const_name();
		let before_j = c0.to_json().unwrap();
		let before = json_map(&before_j);
		// default configuration is valid and initialises
		if !c0.validate() {
			sink.push(&format!("{name}/default/invalid"), format!("{name}"), "Default::default() does not validate".into());
		}
		match catch(|| c0.init(&alpha::k_candles()[1])) {
			Ok(Ok(_)) => {}
			Ok(Err(e)) => sink.push(&format!("{name}/default/init-error"), format!("{name}"), format!("{e:?}")),
			Err(p) => sink.push(&format!("{name}/default/init-panic"), format!("{name}"), p.msg),
		}
		if c0.name() != name || c0.as_dyn().name() != name {
			sink.push(&format!("{name}/name"), format!("{name}"), format!("name() = {}", c0.name()));
		}
		for (key, val) in &before {
			let ft = field_type(val);
			if ft == FT::Other {
				sink.push(&format!("{name}/set/{key}/unknown-field-type"), format!("{name}.{key}"), format!("harness cannot classify the field value {val}"));
				continue;
			}
			for (text, want) in texts(ft) {
				cases += 1;
				let mut c = c0.boxed_clone();
				let mut d = c0.as_dyn();
				let r = catch(|| c.set(key, text.clone()));
				let rd = catch(|| d.set(key, text.clone()));
				let case = format!("{name}.set({key:?}, {text:?})");
				let r = match r {
					Err(p) => {
						sink.push(&format!("{name}/set/{key}/panic"), case, p.msg);
						continue;
					}
					Ok(r) => r,
				};
				match rd {
					Ok(x) if x.is_ok() == r.is_ok() => {}
					_ => sink.push(&format!("{name}/set/{key}/dyn-disagrees"), case.clone(), "static and dynamic set() differ".into()),
				}
				// ... and leave the two configurations in the same state: same validity, same results
				if let Some(d) = dyn_differs(c.as_ref(), d.as_ref(), &probe) {
					sink.push(&format!("{name}/set/{key}/dyn-state-differs"), case.clone(), d);
				}
				let after = json_map(&c.to_json().unwrap_or_default());
				let changed: Vec<&String> = before.keys().filter(|k| !json_eq(&before[*k], after.get(*k).unwrap_or(&J::Null))).collect();
				match (&r, &want) {
					(Ok(()), Some(J::Null)) | (Err(_), Some(J::Null)) => {
						// either outcome; only consistency
						if r.is_err() && !changed.is_empty() {
							sink.push(&format!("{name}/set/{key}/err-but-changed"), case.clone(), format!("changed {changed:?}"));
						}
						if r.is_ok() && changed.iter().any(|k| *k != key) {
							sink.push(&format!("{name}/set/{key}/changed-other-field"), case, format!("changed {changed:?}"));
						}
					}
					(Ok(()), Some(w)) => {
						ok_cases += 1;
						if changed.iter().any(|k| *k != key) {
							sink.push(&format!("{name}/set/{key}/changed-other-field"), case, format!("changed {changed:?}"));
						} else if !json_eq(after.get(key).unwrap_or(&J::Null), w) {
							sink.push(&format!("{name}/set/{key}/wrong-value"), case, format!("field is {} afterwards, expected {w}", after.get(key).unwrap_or(&J::Null)));
						}
					}
					(Err(e), Some(w)) => {
						// a public parameter with a parsable text must be settable
						sink.push(&format!("{name}/set/{key}/rejected-valid-text"), case.clone(), format!("returned {e:?}, expected the field to become {w}"));
						if !changed.is_empty() {
							sink.push(&format!("{name}/set/{key}/err-but-changed"), format!("{name}.{key}"), format!("changed {changed:?}"));
						}
					}
					(Ok(()), None) => sink.push(&format!("{name}/set/{key}/accepted-unparsable"), case, format!("changed {changed:?}")),
					(Err(_), None) => {
						if !changed.is_empty() {
							sink.push(&format!("{name}/set/{key}/err-but-changed"), case, format!("changed {changed:?}"));
						}
					}
				}
			}
		}
		// two consecutive set() calls (the first may leave the configuration temporarily invalid)
		let fields: Vec<(&String, Vec<(String, J)>)> = before
			.iter()
			.filter_map(|(k, v)| {
				let ft = field_type(v);
				if ft == FT::Other {
					return None;
				}
				let mut t: Vec<(String, J)> = texts(ft).into_iter().filter_map(|(t, w)| match w { Some(x) if !x.is_null() => Some((t, x)), _ => None }).collect();
				// a spread of the parsable texts
				let n = t.len();
				if n > 6 {
					t = [0, 1, n / 3, n / 2, 2 * n / 3, n - 1].iter().map(|i| t[*i].clone()).collect();
				}
				Some((k, t))
			})
			.collect();
		for (k1, t1s) in &fields {
			for (k2, t2s) in &fields {
				for (t1, w1) in t1s {
					for (t2, w2) in t2s {
						cases += 1;
						let mut c = c0.boxed_clone();
						let mut d = c0.as_dyn();
						let r = catch(|| (c.set(k1, t1.clone()).is_ok(), c.set(k2, t2.clone()).is_ok()));
						let rd = catch(|| (d.set(k1, t1.clone()).is_ok(), d.set(k2, t2.clone()).is_ok()));
						let case = format!("{name}.set({k1:?}, {t1:?}); set({k2:?}, {t2:?})");
						match (r, rd) {
							(Ok(a), Ok(b)) if a == b => {
								// each successful call changes exactly the named parameter - whatever the other
								// parameters hold at that moment (a value equal to another field's, ...)
								let mut expect = before.clone();
								if a.0 {
									expect.insert((*k1).clone(), w1.clone());
								}
								if a.1 {
									expect.insert((*k2).clone(), w2.clone());
								}
								let after = json_map(&c.to_json().unwrap_or_default());
								if let Some(k) = expect.keys().find(|k| !json_eq(&expect[*k], after.get(*k).unwrap_or(&J::Null))) {
									sink.push(&format!("{name}/set-twice/wrong-value/{k}"), case.clone(), format!("{k} is {} afterwards, expected {} (the calls returned Ok: {}, {})", after.get(k).unwrap_or(&J::Null), expect[k], a.0, a.1));
								}
								if let Some(x) = dyn_differs(c.as_ref(), d.as_ref(), &probe) {
									sink.push(&format!("{name}/set-twice/dyn-state-differs"), case, x);
								}
							}
							(Ok(_), Ok(_)) => sink.push(&format!("{name}/set-twice/dyn-disagrees"), case, "static and dynamic set() return differently".into()),
							_ => sink.push(&format!("{name}/set-twice/panic"), case, String::new()),
						}
					}
				}
			}
		}
		// names that are not parameters of this indicator
		let mut others: Vec<String> = vec!["".into(), " ".into(), "period ".into(), "NAME".into(), "cfg".into()];
		for k in before.keys() {
			// decorated numbers: a name that ends in digits, written with leading zeros / a sign / spaces
			let digits_at = k.trim_end_matches(|c: char| c.is_ascii_digit()).len();
			if digits_at < k.len() {
				let (pre, num) = k.split_at(digits_at);
				for deco in ["0", "00", "+", "-", " ", "_"] {
					others.push(format!("{pre}{deco}{num}"));
				}
				others.push(format!("{pre}{num}0"));
				others.push(format!("{pre}{num}.0"));
				others.push(pre.to_string());
			}
			others.push(format!("{k}0"));
			others.push(format!("{k}1"));
			others.push(format!("{k}x"));
			others.push(k.to_uppercase());
			others.push(format!(" {k}"));
		}
		for k in &all_keys {
			if !before.contains_key(k) {
				others.push(k.clone());
			}
		}
		others.retain(|k| !before.contains_key(k));
		for k in others {
			for text in ["5", "0.5", "close", "sma-5", "true"] {
				cases += 1;
				let mut c = c0.boxed_clone();
				let case = format!("{name}.set({k:?}, {text:?})");
				match catch(|| c.set(&k, text.to_string())) {
					Err(p) => sink.push(&format!("{name}/set/unknown-name/panic"), case, p.msg),
					Ok(Ok(())) => sink.push(&format!("{name}/set/unknown-name/accepted"), case, "returned Ok for a name that is not a parameter".into()),
					Ok(Err(_)) => {
						if c.to_json().unwrap_or_default() != before_j {
							sink.push(&format!("{name}/set/unknown-name/changed"), case, "configuration changed".into());
						}
					}
				}
			}
		}
	}
	h.run.note("setter_cases_ok", serde_json::json!(ok_cases));
	h.run.enum_block("Indicators/set(name, text) grid", cases, ok_cases.max(2), true, serde_json::json!("MACD.set(\"ma1\", \"wma-9\")"), sink.into_violations());
}

// ------------------------------------------------------------ shape + static-vs-dyn on explored streams

#[derive(Clone)]
struct ShState {
	st: Box<dyn IndInst>,
	hist: Vec<Candle>,
	cfg: usize,
}
struct ShSys {
	cfgs: Vec<Box<dyn IndCfg>>,
	alphabet: Vec<Candle>,
	tag: String,
}
impl System for ShSys {
	type State = ShState;
	type Act = usize;
	fn name(&self) -> String {
		format!("Indicators/shape+dyn/{}", self.tag)
	}
	fn inits(&self) -> Vec<(ShState, String)> {
		let mut v = vec![];
		for (i, c) in self.cfgs.iter().enumerate() {
			for c0 in &self.alphabet[..2] {
				let Ok(Ok(st)) = catch(|| c.init(c0)) else { continue };
				v.push((ShState { st, hist: vec![*c0], cfg: i }, format!("{} c0={}", c.const_name(), subj::In::C(*c0).show())));
			}
		}
		v
	}
	fn actions(&self, _: &ShState, _: u32) -> Vec<(usize, u8)> {
		(0..self.alphabet.len()).map(|i| (i, 0)).collect()
	}
	fn show_act(&self, a: &usize) -> String {
		subj::In::C(self.alphabet[*a]).show()
	}
	fn step(&self, s: &ShState, a: &usize) -> Step<ShState> {
		let c = self.alphabet[*a];
		let cfg = &self.cfgs[s.cfg];
		let name = cfg.const_name();
		let mut st = s.st.boxed_clone();
		let r = match catch(|| st.next(&c)) {
			Ok(r) => r,
			Err(p) => return Step::Violation(Failure::new(format!("{name}/next/panic"), format!("{}: {}", p.at(), p.msg))),
		};
		let size = cfg.size();
		if r.values().len() != size.0 as usize || r.signals().len() != size.1 as usize || r.size() != size || r.values_length() != size.0 || r.signals_length() != size.1 || st.size() != size {
			return Step::Violation(Failure::new(format!("{name}/shape/size"), format!("size() = {size:?}, result has {} values and {} signals", r.values().len(), r.signals().len())));
		}
		// indexed accessors: inside the announced size they return the slice element, beyond it they panic (documented)
		for i in 0..IndicatorResult::SIZE + 1 {
			match catch(|| r.value(i)) {
				Ok(v) if i < size.0 as usize && v.to_bits() == r.values()[i].to_bits() => {}
				Err(_) if i >= size.0 as usize => {}
				Ok(v) => return Step::Violation(Failure::new(format!("{name}/shape/value-accessor"), format!("value({i}) returned {v:?} with {} values", size.0))),
				Err(p) => return Step::Violation(Failure::new(format!("{name}/shape/value-accessor"), format!("value({i}) panicked with {} values: {}", size.0, p.msg))),
			}
			match catch(|| r.signal(i)) {
				Ok(v) if i < size.1 as usize && format!("{v:?}") == format!("{:?}", r.signals()[i]) => {}
				Err(_) if i >= size.1 as usize => {}
				Ok(v) => return Step::Violation(Failure::new(format!("{name}/shape/signal-accessor"), format!("signal({i}) returned {v:?} with {} signals", size.1))),
				Err(p) => return Step::Violation(Failure::new(format!("{name}/shape/signal-accessor"), format!("signal({i}) panicked with {} signals: {}", size.1, p.msg))),
			}
		}
		if st.name() != name {
			return Step::Violation(Failure::new(format!("{name}/name"), format!("instance name {}", st.name())));
		}
		// the dynamically dispatched instance: rebuilt from the history (trait objects cannot be cloned)
		let mut hist = s.hist.clone();
		hist.push(c);
		let dy = match cfg.as_dyn().init(&hist[0]) {
			Ok(d) => d,
			Err(e) => return Step::Violation(Failure::new(format!("{name}/dyn/init"), format!("{e:?}"))),
		};
		let mut dy = dy;
		let mut last = None;
		for x in &hist[1..] {
			last = Some(dy.next(x));
		}
		let last = last.unwrap();
		if res_bits(&last) != res_bits(&r) || dy.size() != size || dy.name() != name || dy.config().size() != size || dy.config().name() != name {
			return Step::Violation(Failure::new(format!("{name}/dyn/result-differs"), format!("static {} vs dynamic {}", res_bits(&r), res_bits(&last))));
		}
		Step::Next(ShState { st, hist, cfg: s.cfg })
	}
}

fn example_shape(h: &mut H) {
	use yata::indicators::example::Example;
	let sink = VioSink::new("Indicators/set");
	let cfg = Example::default();
	let mut n = 0;
	if !cfg.validate() {
		sink.push("Example/default/invalid", "Example".into(), String::new());
	}
	let ks = alpha::k_candles();
	if let Ok(mut i) = cfg.init(&ks[0]) {
		for c in ks.iter().cycle().take(30) {
			n += 1;
			let r = i.next(c);
			if r.size() != cfg.size() || r.values().len() != cfg.size().0 as usize || r.signals().len() != cfg.size().1 as usize || i.name() != Example::NAME {
				sink.push("Example/shape/size", "Example".into(), format!("{:?}", r.size()));
			}
		}
	} else {
		sink.push("Example/default/init-error", "Example".into(), String::new());
	}
	h.run.enum_block("Indicators/example::Example shape", n, 2, false, serde_json::json!("30 candles"), sink.into_violations());
}

/// IndicatorResult::new over every pair of slice lengths 0..=1100 (values) x {0, 1, 4, 5, 256, 260} (signals) and
/// vice versa: the result carries min(len, SIZE) items, the first ones, in order
fn result_constructor(h: &mut H) {
	use yata::core::Action;
	let sink = VioSink::new("IndicatorResult/new");
	let size = IndicatorResult::SIZE;
	let mut cases = 0u64;
	let vals: Vec<yata::core::ValueType> = (0..1101).map(|i| i as yata::core::ValueType + 0.5).collect();
	let sigs: Vec<Action> = (0..1101).map(|i| if i % 2 == 0 { Action::Buy((i % 255 + 1) as u8) } else { Action::Sell((i % 255 + 1) as u8) }).collect();
	for a in 0..=1100usize {
		for b in [0usize, 1, 3, 4, 5, 255, 256, 257, 260, 512, 1100] {
			for (nv, ns) in [(a, b), (b, a)] {
				cases += 1;
				let r = match catch(|| IndicatorResult::new(&vals[..nv], &sigs[..ns])) {
					Ok(r) => r,
					Err(p) => {
						sink.push("new/panic", format!("{nv} values, {ns} signals"), p.msg);
						continue;
					}
				};
				let (wv, ws) = (nv.min(size), ns.min(size));
				let ok = r.values().len() == wv
					&& r.signals().len() == ws
					&& r.size() == (wv as u8, ws as u8)
					&& r.values_length() as usize == wv
					&& r.signals_length() as usize == ws
					&& r.values().iter().zip(&vals[..wv]).all(|(x, y)| x.to_bits() == y.to_bits())
					&& r.signals().iter().zip(&sigs[..ws]).all(|(x, y)| format!("{x:?}") == format!("{y:?}"));
				if !ok {
					sink.push("new/wrong-shape-or-content", format!("{nv} values, {ns} signals"), format!("size() = {:?}, values {:?}, signals {:?}", r.size(), r.values(), r.signals()));
				}
			}
		}
	}
	h.run.enum_block("IndicatorResult::new over slice lengths 0..=1100", cases, cases, true, serde_json::json!("256 values, 4 signals"), sink.into_violations());
}

// ---- a user-defined indicator that overrides the provided `over` of both its configuration and its instance:
// the dynamically dispatched forms must forward to these overrides, not re-implement the defaults
mod user_defined {
	use yata::core::{Candle, Error, IndicatorConfig, IndicatorInstance, IndicatorResult, OHLCV};
	#[derive(Clone, Debug, Default)]
	pub struct Tally {
		pub bias: f64,
	}
	#[derive(Clone, Debug)]
	pub struct TallyInstance {
		cfg: Tally,
		sum: f64,
	}
	impl IndicatorConfig for Tally {
		type Instance = TallyInstance;
		const NAME: &'static str = "Tally";
		fn validate(&self) -> bool {
			self.bias.is_finite()
		}
		fn set(&mut self, name: &str, value: String) -> Result<(), Error> {
			match name {
				"bias" => self.bias = value.parse().map_err(|_| Error::ParameterParse(name.to_string(), value))?,
				_ => return Err(Error::ParameterParse(name.to_string(), value)),
			}
			Ok(())
		}
		fn size(&self) -> (u8, u8) {
			(1, 0)
		}
		fn init<T: OHLCV>(self, _candle: &T) -> Result<Self::Instance, Error> {
			Ok(TallyInstance { cfg: self, sum: 0.0 })
		}
		/// the override: batches are marked by adding 1000 to every value
		fn over<T, S>(self, inputs: S) -> Result<Vec<IndicatorResult>, Error>
		where
			T: OHLCV,
			S: AsRef<[T]>,
			Self: Sized,
		{
			let inputs = inputs.as_ref();
			let Some(first) = inputs.first() else { return Ok(vec![]) };
			let mut i = self.init(first)?;
			Ok(inputs.iter().map(|c| IndicatorResult::new(&[i.next(c).value(0) + 1000.0], &[])).collect())
		}
	}
	impl IndicatorInstance for TallyInstance {
		type Config = Tally;
		fn config(&self) -> &Self::Config {
			&self.cfg
		}
		fn next<T: OHLCV>(&mut self, candle: &T) -> IndicatorResult {
			self.sum += candle.close() as f64 + self.cfg.bias;
			IndicatorResult::new(&[self.sum as yata::core::ValueType], &[])
		}
		/// the override: the running sum restarts with every batch
		fn over<T, S>(&mut self, inputs: S) -> Vec<IndicatorResult>
		where
			T: OHLCV,
			S: AsRef<[T]>,
			Self: Sized,
		{
			self.sum = 0.0;
			inputs.as_ref().iter().map(|c| self.next(c)).collect()
		}
	}
	pub fn candles() -> Vec<Candle> {
		(0..7).map(|i| Candle { open: 1.0, high: 2.0, low: 0.5, close: 1.0 + i as yata::core::ValueType, volume: 1.0 }).collect()
	}
}

fn user_defined_dyn(h: &mut H) {
	use user_defined::*;
	use yata::core::{IndicatorConfig, IndicatorConfigDyn, IndicatorInstance, IndicatorInstanceDyn};
	let sink = VioSink::new("Dyn/user-defined-indicator");
	let cs = candles();
	let bits = |v: &[IndicatorResult]| v.iter().map(res_bits).collect::<Vec<_>>();
	let cfg = Tally { bias: 0.25 };
	// configuration level
	let st = IndicatorConfig::over(cfg.clone(), &cs).map(|v| bits(&v));
	let dy = { let d: Box<dyn IndicatorConfigDyn<Candle>> = Box::new(cfg.clone()); d.over(&cs).map(|v| bits(&v)) };
	if format!("{st:?}") != format!("{dy:?}") {
		sink.push("config-over/dyn-bypasses-the-override", "Tally{bias: 0.25}.over(7 candles)".into(), format!("static {st:?} vs dynamic {dy:?}"));
	}
	// instance level, two batches
	let mut a = cfg.clone().init(&cs[0]).unwrap();
	let s1 = bits(&IndicatorInstance::over(&mut a, &cs[..3]));
	let s2 = bits(&IndicatorInstance::over(&mut a, &cs[3..]));
	let mut d: Box<dyn IndicatorInstanceDyn<Candle>> = Box::new(cfg.clone().init(&cs[0]).unwrap());
	let d1 = bits(&d.over(&cs[..3].to_vec()));
	let d2 = bits(&d.over(&cs[3..].to_vec()));
	if s1 != d1 || s2 != d2 {
		sink.push("instance-over/dyn-bypasses-the-override", "two batches of 3 and 4 candles".into(), format!("static {s1:?} {s2:?} vs dynamic {d1:?} {d2:?}"));
	}
	// next / name / size / config through dyn
	let mut b = cfg.clone().init(&cs[0]).unwrap();
	let mut e: Box<dyn IndicatorInstanceDyn<Candle>> = Box::new(cfg.clone().init(&cs[0]).unwrap());
	for c in &cs {
		if res_bits(&IndicatorInstance::next(&mut b, c)) != res_bits(&e.next(c)) {
			sink.push("instance-next/dyn-differs", "next".into(), String::new());
		}
	}
	if e.name() != "Tally" || e.size() != (1, 0) {
		sink.push("instance/dyn-name-or-size", "name/size".into(), format!("{} {:?}", e.name(), e.size()));
	}
	h.run.enum_block("user-defined indicator overriding `over`: static vs dynamic dispatch", 4, 4, true, serde_json::json!("Tally"), sink.into_violations());
}

fn main() {
	let mut h = H::start("C11");
	let thorough = h.thorough();
	if let Err(e) = registry_complete() {
		h.run.machinery_error(e);
	}
	h.enum_replay("Indicators/set", |_case| None);
	if !h.is_replay() {
		setters(&mut h);
		example_shape(&mut h);
		result_constructor(&mut h);
		user_defined_dyn(&mut h);
	}
	let ks = alpha::k_candles();
	h.go(&ShSys { cfgs: defaults(), alphabet: ks.clone(), tag: "defaults".into() }, &Limits::depth(if thorough { 5 } else { 3 }).wall_secs(600), true);
	h.finish();
}
