//! C08 — the construction value acts as an infinite constant prehistory.
//! (1) constant feed: outputs constant (bitwise for exact kinds, no-growth radius otherwise);
//! (2) prefix invariance: an instance fed k extra copies of its first element and a fresh one
//!     agree on every continuation (product exploration).

use checks::grid::*;
use checks::ind::*;
use checks::subj::*;
use checks::*;
use yata::core::{Candle, IndicatorResult};

type V = ValueType;

fn mag_in(i: &In) -> f64 {
	match i {
		In::V(v) => (*v as f64).abs(),
		In::P(a, b) => (*a as f64).abs().max((*a as f64 * *b as f64).abs()).max((*b as f64).abs()),
		In::C(c) => {
			let p = (c.high as f64).abs().max((c.low as f64).abs());
			p.max(p * (c.volume as f64).abs()).max((c.volume as f64).abs())
		}
	}
}
/// "no drift": every output within 16*eps*(n+8)*M of the first one — no factor t
fn radius(n: usize, m: f64) -> f64 {
	16.0 * eps() * (n as f64 + 8.0) * m.max(f64::MIN_POSITIVE)
}
fn close_out(a: &Out, b: &Out, exact: bool, r: f64) -> bool {
	if exact {
		return a.same_bits(b);
	}
	let (fa, fb) = (a.floats(), b.floats());
	match (a, b) {
		(Out::R(n, _), Out::R(m, _)) if n != m => return false,
		(Out::OC(x), Out::OC(y)) if x.is_some() != y.is_some() => return false,
		_ => {}
	}
	fa.len() == fb.len() && fa.iter().zip(&fb).all(|(x, y)| (x.is_nan() && y.is_nan()) || x == y || ((*x as f64) - (*y as f64)).abs() <= r)
}

// ------------------------------------------------------------------ methods: constant feed

#[derive(Clone)]
struct KSt {
	imp: Box<dyn Subject>,
	v0: In,
	first: Option<Out>,
	n: usize,
	k: u32,
	horizon: u32,
	exact: bool,
}
struct ConstSys {
	spec_name: &'static str,
	params: Vec<Params>,
	v0s: Vec<In>,
}
fn cumulative(sp: &Spec, p: &Params) -> bool {
	sp.cumulative || (matches!(p, Params::N(0)) && (sp.name == "Integral" || sp.name == "ADI"))
}
impl System for ConstSys {
	type State = KSt;
	type Act = u8;
	fn name(&self) -> String {
		format!("{}/constant-feed", self.spec_name)
	}
	fn inits(&self) -> Vec<(KSt, String)> {
		let sp = spec(self.spec_name);
		let mut v = vec![];
		for p in &self.params {
			if cumulative(&sp, p) && sp.name != "Renko" {
				continue;
			}
			for v0 in &self.v0s {
				if let Ok(Ok(imp)) = catch(|| (sp.ctor)(p, v0)) {
					let n = span(p);
					v.push((KSt { imp, v0: *v0, first: None, n, k: 0, horizon: (3 * n as u32 + 5).max(40).min(800), exact: sp.exact }, format!("{}({}) v0={}", sp.name, p.show(), v0.show())));
				}
			}
		}
		v
	}
	fn actions(&self, s: &KSt, _: u32) -> Vec<(u8, u8)> {
		if s.k >= s.horizon {
			vec![]
		} else {
			vec![(0, 0)]
		}
	}
	fn show_act(&self, _: &u8) -> String {
		"v0".into()
	}
	fn step(&self, s: &KSt, _: &u8) -> Step<KSt> {
		let name = self.spec_name;
		let mut n = s.clone();
		n.k += 1;
		let out = match catch(|| n.imp.next(&s.v0)) {
			Ok(o) => o,
			Err(_) => return Step::Prune,
		};
		// Renko: only the brick sequence is judged (its volume counts)
		let out = if let Out::R(len, b) = out { Out::R(len, b.into_iter().map(|x| (x.0, x.1, 0.0)).collect()) } else { out };
		match &n.first {
			None => n.first = Some(out),
			Some(f) => {
				let r = radius(s.n, mag_in(&s.v0).max(f.floats().iter().fold(0.0f64, |a, b| a.max((*b as f64).abs()))));
				if !close_out(f, &out, s.exact, r) {
					let kind = if s.exact { "not-bit-constant" } else { "drift-or-jump" };
					return Step::Violation(Failure::new(format!("{name}/constant-feed/{kind}"), format!("step {}: output {}, first output {} (radius {r:.3e})", n.k, out.show(), f.show())));
				}
			}
		}
		Step::Next(n)
	}
}

// ------------------------------------------------------------------ methods: prefix invariance

#[derive(Clone)]
struct PSt {
	a: Box<dyn Subject>,
	b: Box<dyn Subject>,
	n: usize,
	m: f64,
	exact: bool,
}
struct PrefixSys {
	spec_name: &'static str,
	params: Vec<Params>,
	v0s: Vec<In>,
	alphabet: Vec<In>,
}
impl System for PrefixSys {
	type State = PSt;
	type Act = In;
	fn name(&self) -> String {
		format!("{}/prefix-invariance", self.spec_name)
	}
	fn inits(&self) -> Vec<(PSt, String)> {
		let sp = spec(self.spec_name);
		let mut v = vec![];
		for p in &self.params {
			if cumulative(&sp, p) {
				continue;
			}
			let n = span(p);
			let mut ks: Vec<usize> = vec![1, 2, 3, n.saturating_sub(1), n, n + 1];
			ks.retain(|k| *k >= 1);
			ks.sort_unstable();
			ks.dedup();
			for v0 in &self.v0s {
				for &k in &ks {
					let (Ok(Ok(mut a)), Ok(Ok(mut b))) = (catch(|| (sp.ctor)(p, v0)), catch(|| (sp.ctor)(p, v0))) else { continue };
					// both streams begin with their first element (the construction value); A has k extra copies of it
					if catch(|| {
						b.next(v0);
						for _ in 0..=k {
							a.next(v0);
						}
					})
					.is_err()
					{
						continue;
					}
					v.push((PSt { a, b, n, m: mag_in(v0), exact: sp.exact }, format!("{}({}) v0={} prefix={k}", sp.name, p.show(), v0.show())));
				}
			}
		}
		v
	}
	fn actions(&self, _: &PSt, _: u32) -> Vec<(In, u8)> {
		self.alphabet.iter().map(|a| (*a, 0)).collect()
	}
	fn show_act(&self, a: &In) -> String {
		a.show()
	}
	fn step(&self, s: &PSt, x: &In) -> Step<PSt> {
		let name = self.spec_name;
		let mut n = s.clone();
		n.m = n.m.max(mag_in(x));
		let (oa, ob) = match (catch(|| n.a.next(x)), catch(|| n.b.next(x))) {
			(Ok(a), Ok(b)) => (a, b),
			_ => return Step::Prune,
		};
		let om = oa.floats().iter().chain(ob.floats().iter()).fold(0.0f64, |a, b| if b.is_finite() { a.max((*b as f64).abs()) } else { a });
		// ratios (RateOfChange, CCI, VWMA, TSI) amplify: their magnitude enters the radius
		let r = radius(s.n, n.m.max(om)) * (1.0 + om);
		if !close_out(&oa, &ob, s.exact, r) {
			return Step::Violation(Failure::new(format!("{name}/prefix-invariance/differs"), format!("with the extra leading copies {} , fresh {} (radius {r:.3e})", oa.show(), ob.show())));
		}
		Step::Next(n)
	}
}

// ------------------------------------------------------------------ indicators

fn res_close(a: &IndicatorResult, b: &IndicatorResult, r: f64, skip_value: Option<usize>) -> Result<(), String> {
	if a.size() != b.size() {
		return Err("size differs".into());
	}
	for (i, (x, y)) in a.values().iter().zip(b.values()).enumerate() {
		if Some(i) == skip_value {
			continue;
		}
		let ok = (x.is_nan() && y.is_nan()) || x == y || ((*x as f64) - (*y as f64)).abs() <= r * (1.0 + (*x as f64).abs().max((*y as f64).abs()));
		if !ok {
			return Err(format!("value #{i}: {x:?} vs {y:?} (radius {r:.3e})"));
		}
	}
	for (i, (x, y)) in a.signals().iter().zip(b.signals()).enumerate() {
		if format!("{x:?}") != format!("{y:?}") {
			return Err(format!("signal #{i}: {x:?} vs {y:?}"));
		}
	}
	Ok(())
}
fn cfg_span(c: &dyn IndCfg) -> usize {
	// the largest integer / MA period in the configuration
	let mut n = 1usize;
	for (_, v) in json_map(&c.to_json().unwrap_or_default()) {
		if let Some(u) = v.as_u64() {
			n = n.max(u as usize);
		}
		if let Some(o) = v.as_object() {
			if let Some(u) = o.values().next().and_then(|x| x.as_u64()) {
				n = n.max(u as usize);
			}
		}
	}
	n
}
fn cfg_cumulative(c: &dyn IndCfg) -> bool {
	// indicators configured with a windowless (cumulative) ADI
	c.const_name() == "ChaikinOscillator" && json_map(&c.to_json().unwrap_or_default()).get("window").and_then(|v| v.as_u64()) == Some(0)
}

#[derive(Clone)]
struct IKSt {
	imp: Box<dyn IndInst>,
	c0: Candle,
	first: Option<IndicatorResult>,
	k: u32,
	horizon: u32,
	cfg: usize,
	n: usize,
}
struct IConstSys {
	cfgs: Vec<Box<dyn IndCfg>>,
	c0s: Vec<Candle>,
	tag: String,
}
impl System for IConstSys {
	type State = IKSt;
	type Act = u8;
	fn name(&self) -> String {
		format!("Indicators/constant-feed/{}", self.tag)
	}
	fn inits(&self) -> Vec<(IKSt, String)> {
		let mut v = vec![];
		for (i, c) in self.cfgs.iter().enumerate() {
			if cfg_cumulative(c.as_ref()) {
				continue;
			}
			let n = cfg_span(c.as_ref());
			for c0 in &self.c0s {
				if let Ok(Ok(imp)) = catch(|| c.init(c0)) {
					v.push((IKSt { imp, c0: *c0, first: None, k: 0, horizon: (3 * n as u32 + 5).max(40).min(800), cfg: i, n }, format!("{} {} c0={}", c.const_name(), c.to_json().unwrap_or_default(), In::C(*c0).show())));
				}
			}
		}
		v
	}
	fn actions(&self, s: &IKSt, _: u32) -> Vec<(u8, u8)> {
		if s.k >= s.horizon {
			vec![]
		} else {
			vec![(0, 0)]
		}
	}
	fn show_act(&self, _: &u8) -> String {
		"c0".into()
	}
	fn step(&self, s: &IKSt, _: &u8) -> Step<IKSt> {
		let name = self.cfgs[s.cfg].const_name();
		let mut n = s.clone();
		n.k += 1;
		let out = match catch(|| n.imp.next(&s.c0)) {
			Ok(o) => o,
			Err(_) => return Step::Prune,
		};
		// the parabolic SAR documents its trend value going from "no trend" to its initial trend on the first candle
		let from = if name == "ParabolicSAR" { 2 } else { 1 };
		if n.k < from {
			return Step::Next(n);
		}
		match &n.first {
			None => n.first = Some(out),
			Some(f) => {
				let r = radius(s.n, mag_in(&In::C(s.c0)).max(1.0));
				if let Err(e) = res_close(f, &out, r, None) {
					let bit_equal = f.values().iter().zip(out.values()).all(|(x, y)| x.to_bits() == y.to_bits());
					let class = if e.starts_with("signal") { if bit_equal { "signal-not-constant/values-bit-constant" } else { "signal-not-constant/values-differ-in-rounding" } } else { "value-not-constant" };
					return Step::Violation(Failure::new(format!("{name}/constant-feed/{class}"), format!("step {}: {e}; first {f:?}, now {out:?}", n.k)));
				}
			}
		}
		Step::Next(n)
	}
}

#[derive(Clone)]
struct IPSt {
	a: Box<dyn IndInst>,
	b: Box<dyn IndInst>,
	cfg: usize,
	n: usize,
	m: f64,
}
struct IPrefixSys {
	cfgs: Vec<Box<dyn IndCfg>>,
	c0s: Vec<Candle>,
	alphabet: Vec<Candle>,
	tag: String,
	/// B is NOT fed its construction candle before the continuation (A is fed it once): "created from v"
	/// must already be the state "v has been seen forever"
	unfed: bool,
}
impl System for IPrefixSys {
	type State = IPSt;
	type Act = usize;
	fn name(&self) -> String {
		format!("Indicators/prefix-invariance/{}", self.tag)
	}
	fn inits(&self) -> Vec<(IPSt, String)> {
		let mut v = vec![];
		for (i, c) in self.cfgs.iter().enumerate() {
			if cfg_cumulative(c.as_ref()) {
				continue;
			}
			let n = cfg_span(c.as_ref());
			let mut ks: Vec<usize> = if self.unfed { vec![0] } else { vec![1, 2, 3, n.saturating_sub(1), n, n + 1] };
			ks.retain(|k| *k >= 1 || self.unfed);
			ks.sort_unstable();
			ks.dedup();
			for c0 in &self.c0s {
				for &k in &ks {
					let (Ok(Ok(mut a)), Ok(Ok(mut b))) = (catch(|| c.init(c0)), catch(|| c.init(c0))) else { continue };
					// both streams begin with their first element (the construction candle); A has k extra copies of it
					let unfed = self.unfed;
					if catch(|| {
						if !unfed {
							b.next(c0);
						}
						for _ in 0..=k {
							a.next(c0);
						}
					})
					.is_err()
					{
						continue;
					}
					v.push((IPSt { a, b, cfg: i, n, m: mag_in(&In::C(*c0)) }, format!("{} {} c0={} prefix={k}", c.const_name(), c.to_json().unwrap_or_default(), In::C(*c0).show())));
				}
			}
		}
		v
	}
	fn actions(&self, _: &IPSt, _: u32) -> Vec<(usize, u8)> {
		(0..self.alphabet.len()).map(|i| (i, 0)).collect()
	}
	fn show_act(&self, a: &usize) -> String {
		In::C(self.alphabet[*a]).show()
	}
	fn step(&self, s: &IPSt, a: &usize) -> Step<IPSt> {
		let name = self.cfgs[s.cfg].const_name();
		let c = self.alphabet[*a];
		let mut n = s.clone();
		n.m = n.m.max(mag_in(&In::C(c)));
		let (oa, ob) = match (catch(|| n.a.next(&c)), catch(|| n.b.next(&c))) {
			(Ok(a), Ok(b)) => (a, b),
			_ => return Step::Prune,
		};
		let r = radius(s.n, n.m.max(1.0));
		if self.unfed {
			// "created from v" = "v has been seen forever": the instance that was never fed its construction
			// candle must return the same VALUES as the one that was fed it once. (Signals are not compared
			// here: detectors start from neutral seeds, so the first crossing out of the prehistory differs
			// by convention - DESIGN 12.3 #12; non-finite values are C12's business.)
			for (i, (x, y)) in oa.values().iter().zip(ob.values()).enumerate() {
				// a bar without volume can make volume-weighted quotients 0/0 (residue over residue): C12's business
				if !x.is_finite() || !y.is_finite() || c.volume == 0.0 {
					continue;
				}
				let ok = x == y || ((*x as f64) - (*y as f64)).abs() <= r * (1.0 + (*x as f64).abs().max((*y as f64).abs()));
				if !ok {
					return Step::Violation(Failure::new(format!("{name}/construction-state/value-differs-when-construction-candle-is-not-fed"), format!("value #{i}: fed once {x:?} vs not fed {y:?} (radius {r:.3e})")));
				}
			}
			return Step::Next(n);
		}
		// ParabolicSAR: the trend value of the fresh instance is in its documented first-candle transition
		if let Err(e) = res_close(&oa, &ob, r, None) {
			let bit_equal = oa.values().iter().zip(ob.values()).all(|(x, y)| x.to_bits() == y.to_bits());
			let class = if e.starts_with("signal") { if bit_equal { "signal-differs/values-bit-equal" } else { "signal-differs/values-differ-in-rounding" } } else { "value-differs" };
			return Step::Violation(Failure::new(format!("{name}/prefix-invariance/{class}"), format!("{e}; with extra leading copies {oa:?}, fresh {ob:?}")));
		}
		Step::Next(n)
	}
}

/// default config, a small-period config and (optionally) MA-kind variants of every indicator
fn indicator_configs(with_kinds: bool) -> Vec<Box<dyn IndCfg>> {
	let mut v = vec![];
	for c in defaults() {
		v.push(c.boxed_clone());
		let keys = json_map(&c.to_json().unwrap());
		let mut small = c.boxed_clone();
		let mut k = 2;
		for (key, val) in &keys {
			if val.is_u64() {
				let mut t = small.boxed_clone();
				if t.set(key, format!("{}", k)).is_ok() && t.validate() {
					small = t;
					k = 2 + (k - 1) % 3;
				}
			} else if val.is_object() {
				let kind = val.as_object().unwrap().keys().next().unwrap().clone();
				let kind = if kind == "lin_reg" { "linreg".to_string() } else { kind };
				let mut t = small.boxed_clone();
				if t.set(key, format!("{kind}-{}", k + 1)).is_ok() && t.validate() {
					small = t;
					k = 2 + (k - 1) % 3;
				}
			}
		}
		if small.validate() && small.to_json().ok() != c.to_json().ok() {
			v.push(small.boxed_clone());
		}
		// every source in every source field of the default and of the small configuration (an inner series
		// seeded from another price than the one it is fed with)
		for (key, val) in &keys {
			if val.as_str().map(|s| ["close", "open", "high", "low", "hl2", "tp", "volume", "volumed_price"].contains(&s)).unwrap_or(false) {
				for base in [c.boxed_clone(), small.boxed_clone()] {
					for src in ["open", "high", "low", "hl2", "tp", "close"] {
						let mut t = base.boxed_clone();
						if t.set(key, src.to_string()).is_ok() && t.validate() && !v.iter().any(|o: &Box<dyn IndCfg>| o.to_json().ok() == t.to_json().ok()) {
							v.push(t);
						}
					}
				}
			}
		}
		if with_kinds {
			for (key, val) in &keys {
				if val.is_object() {
					for kind in MA_KINDS {
						let mut t = small.boxed_clone();
						let cur = json_map(&t.to_json().unwrap());
						let len = cur[key].as_object().and_then(|o| o.values().next().and_then(|x| x.as_u64())).unwrap_or(3);
						if t.set(key, format!("{kind}-{len}")).is_ok() && t.validate() {
							v.push(t);
						}
					}
				}
			}
		}
	}
	v
}

fn main() {
	let mut h = H::start("C08");
	let thorough = h.thorough();
	for sp in registry() {
		let name: &'static str = sp.name;
		let mut params = small_params(&sp);
		params.extend(edge_params(&sp));
		let vs = v0s(sp.input);
		h.go(&ConstSys { spec_name: name, params: params.clone(), v0s: vs.clone() }, &Limits::closure().wall_secs(300), true);
		let al = inputs(sp.input);
		let pp = if thorough { params } else { small_params(&sp) };
		h.go(&PrefixSys { spec_name: name, params: pp, v0s: vs[..if thorough { vs.len() } else { 4.min(vs.len()) }].to_vec(), alphabet: al }, &Limits::depth(if thorough { 6 } else { 4 }).wall_secs(300), true);
	}
	let ks = alpha::k_candles();
	let mut c0s = ks.clone();
	c0s.push(alpha::candle(123.456, 130.1, 119.9, 125.7, 33.3));
	h.go(&IConstSys { cfgs: indicator_configs(true), c0s: c0s.clone(), tag: "default+small+ma-kinds".into() }, &Limits::closure().wall_secs(600), true);
	h.go(&IPrefixSys { cfgs: indicator_configs(thorough), c0s: if thorough { c0s.clone() } else { vec![ks[1], ks[5]] }, alphabet: if thorough { ks.clone() } else { ks[..4].to_vec() }, tag: "default+small".into(), unfed: false }, &Limits::depth(if thorough { 5 } else { 3 }).wall_secs(900), true);
	h.go(&IPrefixSys { cfgs: indicator_configs(thorough), c0s: if thorough { c0s.clone() } else { vec![ks[1], ks[5]] }, alphabet: if thorough { ks.clone() } else { ks[..4].to_vec() }, tag: "default+small/construction-candle-not-fed".into(), unfed: true }, &Limits::depth(if thorough { 5 } else { 4 }).wall_secs(900), true);
	h.run.note("constancy_radius", serde_json::json!("16*eps*(n+8)*M, no factor t (free of drift)"));
	h.finish();
}
