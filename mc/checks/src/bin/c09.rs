//! C09 — streaming, batch and chunked evaluation agree; clones are independent; peek.

use checks::api::*;
use checks::grid::*;
use checks::ind::*;
use checks::subj::*;
use checks::*;
use rayon::prelude::*;
use yata::core::{Candle, IndicatorResult};

// ------------------------------------------------------------ clone independence / twin / peek

#[derive(Clone)]
struct CSt {
	orig: Box<dyn Subject>,
	/// parameters, construction value and the inputs so far: the twin is REBUILT from these at every step
	/// (the explorer itself branches by cloning states, so a twin carried in the state would go through
	/// the same Clone implementation as the instance under test)
	par: usize,
	v0: In,
	hist: Vec<In>,
}
struct CloneSys {
	spec_name: &'static str,
	params: Vec<Params>,
	alphabet: Vec<In>,
	peekable: bool,
	tag: &'static str,
}
impl System for CloneSys {
	type State = CSt;
	type Act = In;
	fn name(&self) -> String {
		format!("{}/clone+twin+peek{}", self.spec_name, self.tag)
	}
	fn inits(&self) -> Vec<(CSt, String)> {
		let sp = spec(self.spec_name);
		let mut v = vec![];
		for (pi, p) in self.params.iter().enumerate() {
			for v0 in &self.alphabet[..2] {
				let Ok(Ok(a)) = catch(|| (sp.ctor)(p, v0)) else { continue };
				v.push((CSt { orig: a, par: pi, v0: *v0, hist: vec![] }, format!("{}({}) v0={}", self.spec_name, p.show(), v0.show())));
			}
		}
		v
	}
	fn actions(&self, _: &CSt, _: u32) -> Vec<(In, u8)> {
		self.alphabet.iter().map(|a| (*a, 0)).collect()
	}
	fn show_act(&self, a: &In) -> String {
		a.show()
	}
	fn step(&self, s: &CSt, x: &In) -> Step<CSt> {
		let name = self.spec_name;
		let mut n = s.clone();
		// a clone taken now, driven down a DIFFERENT branch first, then the same one
		let mut c_other = n.orig.boxed_clone();
		let mut c_same = n.orig.boxed_clone();
		for y in &self.alphabet {
			if y != x {
				let _ = catch(|| c_other.next(y));
			}
		}
		let o1 = match catch(|| n.orig.next(x)) {
			Ok(o) => o,
			Err(_) => return Step::Prune,
		};
		n.hist.push(*x);
		let sp = spec(name);
		let o2 = match catch(|| {
			let mut twin = (sp.ctor)(&self.params[n.par], &n.v0).unwrap();
			let mut o = None;
			for y in &n.hist {
				o = Some(twin.next(y));
			}
			o.unwrap()
		}) {
			Ok(o) => o,
			Err(p) => return Step::Violation(Failure::new(format!("{name}/twin/panic"), p.msg)),
		};
		if !o1.same_bits(&o2) {
			return Step::Violation(Failure::new(format!("{name}/clone/original-affected-or-twin-differs"), format!("original (a clone of it was driven elsewhere) -> {}, identically built twin -> {}", o1.show(), o2.show())));
		}
		let o3 = match catch(|| c_same.next(x)) {
			Ok(o) => o,
			Err(p) => return Step::Violation(Failure::new(format!("{name}/clone/panic"), p.msg)),
		};
		if !o1.same_bits(&o3) {
			return Step::Violation(Failure::new(format!("{name}/clone/continues-differently"), format!("original -> {}, clone -> {}", o1.show(), o3.show())));
		}
		// `clone_from` into an instance with OTHER parameters and a past of its own (buffers of another
		// size are re-used or replaced): it must become the source in every respect
		for q in 0..self.params.len().min(4) {
			if q == n.par {
				continue;
			}
			let Ok(Ok(mut dst)) = catch(|| (sp.ctor)(&self.params[q], &self.alphabet[1])) else { continue };
			let _ = catch(|| dst.next(&self.alphabet[0]));
			match catch(|| dst.clone_from_subject(c_same.as_ref()).then_some(dst)) {
				Ok(None) => break,
				Ok(Some(dst)) => {
					if dst.debug_key() != c_same.debug_key() {
						return Step::Violation(Failure::new(format!("{name}/clone_from/state-differs"), format!("{}({}).clone_from(&{}({})): source {} copy {}", name, self.params[q].show(), name, self.params[n.par].show(), c_same.debug_key(), dst.debug_key())));
					}
					for y in &self.alphabet {
						let mut a = c_same.boxed_clone();
						let mut b = dst.boxed_clone();
						let (Ok(oa), Ok(ob)) = (catch(|| a.next(y)), catch(|| b.next(y))) else { continue };
						if !oa.same_bits(&ob) {
							return Step::Violation(Failure::new(format!("{name}/clone_from/continues-differently"), format!("{}({}).clone_from(&{}({})), then next({}): source -> {}, copy -> {}", name, self.params[q].show(), name, self.params[n.par].show(), y.show(), oa.show(), ob.show())));
						}
					}
				}
				Err(p) => return Step::Violation(Failure::new(format!("{name}/clone_from/panic"), p.msg)),
			}
		}
		// the CLONE is what lives on (clone of a clone of ... along the path); the twin is the lineage that
		// was never cloned
		n.orig = c_same;
		if self.peekable {
			match catch(|| n.orig.peek()) {
				Ok(Some(p)) => {
					if !p.same_bits(&o1) {
						return Step::ViolationContinue(n, Failure::new(format!("{name}/peek/not-last-output"), format!("next() returned {}, peek() = {}", o1.show(), p.show())));
					}
				}
				Ok(None) => {}
				Err(p) => return Step::Violation(Failure::new(format!("{name}/peek/panic"), p.msg)),
			}
		}
		Step::Next(n)
	}
}

// ------------------------------------------------------------ API variants: total enumeration

fn all_cuts(len: usize) -> Vec<Vec<usize>> {
	let mut v = vec![];
	for mask in 0u32..(1 << (len + 1)) {
		let c: Vec<usize> = (0..=len).filter(|i| mask >> i & 1 == 1).collect();
		// doubled cuts = empty chunks in the middle
		if !c.is_empty() {
			let d: Vec<usize> = c.iter().flat_map(|x| [*x, *x]).collect();
			v.push(d);
		}
		v.push(c);
	}
	v
}

/// Reference-free long run of every method: a deterministic volatile stream with occasional spikes of six
/// orders of magnitude, `steps` values; at EVERY step `peek()` must be the value `next()` just returned, and
/// at checkpoints around every power of two a clone must continue exactly like the original. (State that
/// is refreshed every 2^k steps - counters, periodic re-summation - gets out of step with what was returned.)
fn long_run_block(h: &mut H, steps: u64) {
	let sink = VioSink::new("Methods/long-run-peek+clone");
	let specs = registry();
	let total: u64 = specs
		.par_iter()
		.map(|sp| {
			if sp.name == "MAInstance" && false {
				return 0;
			}
			let mut n = 0u64;
			let params: Vec<Params> = small_params(sp).into_iter().filter(|p| span(p) >= 2).take(2).collect();
			let params = if params.is_empty() { small_params(sp).into_iter().take(1).collect() } else { params };
			for p in params {
				let mk = |k: u64| -> In {
					let w = (k as f64 * 0.618_033_988_749_894_9).fract();
					let spike = if k % 1000 == 999 { 1.0e6 } else { 1.0 };
					let v = (100.0 + 10.0 * w) * spike;
					match sp.input {
						InKind::Value => In::V(v as ValueType),
						InKind::Pair => In::P(v as ValueType, (1.0 + (k % 5) as f64) as ValueType),
						InKind::Candle => In::C(Candle { open: v as ValueType, high: (v * 1.01) as ValueType, low: (v * 0.99) as ValueType, close: (v * 1.001) as ValueType, volume: (1 + k % 4) as ValueType }),
					}
				};
				let v0 = mk(0);
				let Ok(Ok(mut m)) = catch(|| (sp.ctor)(&p, &v0)) else { continue };
				let case = format!("{}({})", sp.name, p.show());
				let mut failed = false;
				for k in 0..steps {
					n += 1;
					let x = mk(k);
					let checkpoint = k >= 127 && ((k + 2) & (k + 1) == 0 || (k + 1) & k == 0 || k & k.wrapping_sub(1) == 0);
					let clone = if checkpoint { Some(m.boxed_clone()) } else { None };
					let out = match catch(|| m.next(&x)) {
						Ok(o) => o,
						Err(pn) => {
							sink.push(&format!("{}/long-run/panic", sp.name), format!("{case} step {k}"), pn.msg);
							failed = true;
							break;
						}
					};
					if sp.peekable {
						if let Ok(Some(pk)) = catch(|| m.peek()) {
							if !pk.same_bits(&out) {
								sink.push(&format!("{}/long-run/peek-not-last-output", sp.name), format!("{case} step {k}"), format!("next() returned {}, peek() = {}", out.show(), pk.show()));
								failed = true;
							}
						}
					}
					if let Some(mut c) = clone {
						let o2 = c.next(&x);
						if !o2.same_bits(&out) {
							sink.push(&format!("{}/long-run/clone-continues-differently", sp.name), format!("{case} step {k}"), format!("original {}, clone taken just before {}", out.show(), o2.show()));
							failed = true;
						}
					}
					if failed {
						break;
					}
				}
			}
			n
		})
		.sum();
	h.run.enum_block("Methods/long run: peek after every step, clones at power-of-two checkpoints", total, total.max(2), true, serde_json::json!(format!("{steps} steps per method and parameter set")), sink.into_violations());
}

/// Long chunks: `over` / `call` / `apply` on slices of 1 000 - 2 600 elements (a bulk path that only large
/// inputs take), cut at and around powers of two, continued element by element on the same instance.
fn bulk_block(h: &mut H) {
	let sink = VioSink::new("Methods/api-long-chunks");
	let specs = registry();
	let total: u64 = specs
		.par_iter()
		.map(|sp| {
			if sp.name == "MAInstance" {
				return 0;
			}
			let mut n = 0u64;
			let params: Vec<Params> = small_params(sp).into_iter().filter(|p| span(p) >= 2).take(2).collect();
			let params = if params.is_empty() { small_params(sp).into_iter().take(1).collect() } else { params };
			for p in params {
				let mk = |k: u64| -> In {
					let w = (k as f64 * 0.618_033_988_749_894_9).fract();
					let v = 100.0 + 10.0 * w + (k % 7) as f64;
					match sp.input {
						InKind::Value => In::V(v as ValueType),
						InKind::Pair => In::P(v as ValueType, (1.0 + (k % 5) as f64) as ValueType),
						InKind::Candle => In::C(Candle { open: v as ValueType, high: (v * 1.01) as ValueType, low: (v * 0.99) as ValueType, close: (v * 1.001) as ValueType, volume: (1 + k % 4) as ValueType }),
					}
				};
				let v0 = mk(0);
				let xs: Vec<In> = (0..2600u64).map(mk).collect();
				let Ok(Ok(mut twin)) = catch(|| (sp.ctor)(&p, &v0)) else { continue };
				let Ok(want) = catch(|| xs.iter().map(|x| twin.next(x)).collect::<Vec<_>>()) else { continue };
				for variant in ["over-chunks", "call-chunks", "apply-chunks", "over-slice-ref", "mixed-next-over"] {
					for cuts in [vec![1024usize], vec![1023], vec![1025], vec![2048], vec![256, 1280], vec![1, 2049], vec![]] {
						n += 1;
						let case = format!("{}({}) 2600 inputs, cuts={cuts:?}", sp.name, p.show());
						match catch(|| run_api(sp.name, variant, &p, &v0, &xs, &cuts)) {
							Err(pn) => sink.push(&format!("{}/{variant}/panic/long-chunks", sp.name), case, pn.msg),
							Ok(Err(e)) => sink.push(&format!("{}/{variant}/contract/long-chunks", sp.name), case, e),
							Ok(Ok(None)) => {}
							Ok(Ok(Some(got))) => {
								if got.len() != want.len() {
									sink.push(&format!("{}/{variant}/length/long-chunks", sp.name), case, format!("{} outputs for {} inputs", got.len(), xs.len()));
								} else if let Some(i) = (0..got.len()).find(|i| !got[*i].same_bits(&want[*i])) {
									sink.push(&format!("{}/{variant}/differs-from-next/long-chunks", sp.name), case, format!("first difference at element {i}: {variant} -> {}, element-by-element next -> {}", got[i].show(), want[i].show()));
								}
							}
						}
					}
				}
			}
			n
		})
		.sum();
	h.run.enum_block("Methods/api variants on long chunks (cuts at and around 1024 / 2048)", total, total.max(2), true, serde_json::json!("SMA(3) 2600 inputs, cuts=[1024]"), sink.into_violations());
}

fn api_block(h: &mut H, maxlen: usize) {
	let sink = VioSink::new("Methods/api");
	let specs = registry();
	let total: u64 = specs
		.par_iter()
		.map(|sp| {
			if sp.name == "MAInstance" {
				return 0; // cannot be constructed through Method::new by design
			}
			let mut n = 0u64;
			let alphabet: Vec<In> = inputs(sp.input)[..3].to_vec();
			for p in small_params(sp) {
				for v0 in &alphabet[..2] {
					let Ok(Ok(base)) = catch(|| (sp.ctor)(&p, v0)) else { continue };
					// all sequences of length 0..=maxlen
					let mut seqs: Vec<Vec<In>> = vec![vec![]];
					let mut layer: Vec<Vec<In>> = vec![vec![]];
					for _ in 0..maxlen {
						let mut next = vec![];
						for s in &layer {
							for a in &alphabet {
								let mut t = s.clone();
								t.push(*a);
								next.push(t);
							}
						}
						seqs.extend(next.iter().cloned());
						layer = next;
					}
					for xs in &seqs {
						let mut twin = base.boxed_clone();
						let Ok(want) = catch(|| xs.iter().map(|x| twin.next(x)).collect::<Vec<_>>()) else { continue };
						let mut twin2 = base.boxed_clone();
						let want_led = catch(|| {
							twin2.next(v0);
							xs.iter().map(|x| twin2.next(x)).collect::<Vec<_>>()
						})
						.ok();
						for variant in VARIANTS {
							let chunked = matches!(variant, "over-chunks" | "call-chunks" | "apply-chunks" | "over-slice-ref" | "mixed-next-over");
							let cutsets = if chunked { all_cuts(xs.len()) } else { vec![vec![]] };
							for cuts in &cutsets {
								n += 1;
								let case = format!("{}({}) v0={} xs=[{}] cuts={cuts:?}", sp.name, p.show(), v0.show(), xs.iter().map(|x| x.show()).collect::<Vec<_>>().join(", "));
								match catch(|| run_api(sp.name, variant, &p, v0, xs, cuts)) {
									Err(pn) => sink.push(&format!("{}/{variant}/panic", sp.name), case, pn.msg),
									Ok(Err(e)) => sink.push(&format!("{}/{variant}/contract", sp.name), case, e),
									Ok(Ok(None)) => {}
									Ok(Ok(Some(got))) => {
										let same = |w: &Vec<Out>| got.len() == w.len() && got.iter().zip(w).all(|(a, b)| a.same_bits(b));
										let ok = same(&want) || (variant == "with_last_value" && want_led.as_ref().map(same).unwrap_or(false));
										if got.len() != xs.len() {
											sink.push(&format!("{}/{variant}/length", sp.name), case, format!("{} outputs for {} inputs", got.len(), xs.len()));
										} else if !ok {
											let g: Vec<String> = got.iter().map(|o| o.show()).collect();
											let w: Vec<String> = want.iter().map(|o| o.show()).collect();
											sink.push(&format!("{}/{variant}/differs-from-next", sp.name), case, format!("{variant} -> {g:?}, element-by-element next -> {w:?}"));
										}
									}
								}
							}
						}
					}
				}
			}
			n
		})
		.sum();
	h.run.enum_block("Methods/api variants x chunkings", total, total / 4 + 2, true, serde_json::json!({"variant": "over-chunks", "xs": "[1.0, 0.0, -3.0]", "cuts": [0, 2, 2]}), sink.into_violations());
}

// ------------------------------------------------------------ indicators

fn rbits(r: &IndicatorResult) -> String {
	format!("{:?}|{:?}|{:?}", r.values().iter().map(|v| v.to_bits()).collect::<Vec<_>>(), r.signals().iter().map(|a| format!("{a:?}")).collect::<Vec<_>>(), r.size())
}

#[derive(Clone)]
struct ISt {
	orig: Box<dyn IndInst>,
	twin: Box<dyn IndInst>,
	hist: Vec<Candle>,
	outs: Vec<String>,
	cfg: usize,
}
struct IndSys {
	cfgs: Vec<Box<dyn IndCfg>>,
	alphabet: Vec<Candle>,
	maxlen: usize,
	tag: &'static str,
}
impl System for IndSys {
	type State = ISt;
	type Act = usize;
	fn name(&self) -> String {
		format!("Indicators/clone+twin+over+fn{}", self.tag)
	}
	fn inits(&self) -> Vec<(ISt, String)> {
		let mut v = vec![];
		for (i, c) in self.cfgs.iter().enumerate() {
			for c0 in &self.alphabet[..2] {
				let (Ok(Ok(a)), Ok(Ok(b))) = (catch(|| c.init(c0)), catch(|| c.init(c0))) else { continue };
				v.push((ISt { orig: a, twin: b, hist: vec![*c0], outs: vec![], cfg: i }, format!("{} c0={}", c.const_name(), In::C(*c0).show())));
			}
		}
		v
	}
	fn actions(&self, _: &ISt, _: u32) -> Vec<(usize, u8)> {
		(0..self.alphabet.len()).map(|i| (i, 0)).collect()
	}
	fn show_act(&self, a: &usize) -> String {
		In::C(self.alphabet[*a]).show()
	}
	fn step(&self, s: &ISt, a: &usize) -> Step<ISt> {
		let cfg = &self.cfgs[s.cfg];
		let name = cfg.const_name();
		let c = self.alphabet[*a];
		let mut n = s.clone();
		let mut c_other = n.orig.boxed_clone();
		let mut c_same = n.orig.boxed_clone();
		for (j, y) in self.alphabet.iter().enumerate() {
			if j != *a {
				let _ = catch(|| c_other.next(y));
			}
		}
		let o1 = match catch(|| n.orig.next(&c)) {
			Ok(o) => o,
			Err(_) => return Step::Prune,
		};
		let o2 = match catch(|| n.twin.next(&c)) {
			Ok(o) => o,
			Err(p) => return Step::Violation(Failure::new(format!("{name}/twin/panic"), p.msg)),
		};
		if rbits(&o1) != rbits(&o2) {
			return Step::Violation(Failure::new(format!("{name}/clone/original-affected-or-twin-differs"), format!("{o1:?} vs {o2:?}")));
		}
		match catch(|| c_same.next(&c)) {
			Ok(o3) if rbits(&o3) == rbits(&o1) => {}
			Ok(o3) => return Step::Violation(Failure::new(format!("{name}/clone/continues-differently"), format!("{o1:?} vs {o3:?}"))),
			Err(p) => return Step::Violation(Failure::new(format!("{name}/clone/panic"), p.msg)),
		}
		// `clone_from` into instances of the same indicator with OTHER parameters and a past of their own
		for other in checks::indcheck::indicator_configs_small3(name).iter().take(3) {
			if other.to_json().ok() == cfg.to_json().ok() {
				continue;
			}
			let Ok(Ok(mut dst)) = catch(|| other.init(&self.alphabet[1])) else { continue };
			let _ = catch(|| dst.next(&self.alphabet[0]));
			match catch(|| dst.clone_from_inst(c_same.as_ref()).then_some(dst)) {
				Ok(None) => break,
				Ok(Some(dst)) => {
					if dst.debug_key() != c_same.debug_key() {
						return Step::Violation(Failure::new(format!("{name}/clone_from/state-differs"), format!("clone_from into an instance configured {}: source {} copy {}", other.to_json().unwrap_or_default(), c_same.debug_key(), dst.debug_key())));
					}
					for y in &self.alphabet {
						let mut a = c_same.boxed_clone();
						let mut b = dst.boxed_clone();
						let (Ok(oa), Ok(ob)) = (catch(|| a.next(y)), catch(|| b.next(y))) else { continue };
						if rbits(&oa) != rbits(&ob) {
							return Step::Violation(Failure::new(format!("{name}/clone_from/continues-differently"), format!("clone_from into an instance configured {}: source -> {oa:?}, copy -> {ob:?}", other.to_json().unwrap_or_default())));
						}
					}
				}
				Err(p) => return Step::Violation(Failure::new(format!("{name}/clone_from/panic"), p.msg)),
			}
		}
		// the clone lives on, the twin is the never-cloned lineage
		n.orig = c_same;
		n.hist.push(c);
		n.outs.push(rbits(&o1));
		// batch forms over the whole history so far (history[0] is the construction candle, also fed? no:
		// IndicatorConfig::over initialises with inputs[0] AND feeds it, so compare on a stream that starts with c0)
		if n.hist.len() == self.maxlen + 1 {
			let stream = &n.hist[1..];
			// instance-level over in every 2-chunking, into_fn
			for cut in 0..=stream.len() {
				let mut i = match cfg.init(&n.hist[0]) {
					Ok(i) => i,
					Err(e) => return Step::Violation(Failure::new(format!("{name}/init"), format!("{e:?}"))),
				};
				let mut got = i.over(&stream[..cut]);
				got.extend(i.over(&stream[cut..]));
				if got.len() != stream.len() || got.iter().map(rbits).collect::<Vec<_>>() != n.outs {
					return Step::Violation(Failure::new(format!("{name}/instance-over/differs-from-next"), format!("cut at {cut}")));
				}
			}
			// the same stream carried by a user-defined OHLCV type that overrides the derived prices: `over` must
			// pass the user's values on exactly as `next` does (no conversion to `Candle` on the way)
			{
				let i = match cfg.init(&n.hist[0]) {
					Ok(i) => i,
					Err(e) => return Step::Violation(Failure::new(format!("{name}/init"), format!("{e:?}"))),
				};
				let (via_over, via_next) = i.custom_type_runs(stream);
				if via_over.iter().map(rbits).collect::<Vec<_>>() != via_next.iter().map(rbits).collect::<Vec<_>>() {
					return Step::Violation(Failure::new(format!("{name}/instance-over/differs-from-next/user-defined-candle-type"), String::new()));
				}
			}
			let i = cfg.init(&n.hist[0]).unwrap();
			let got = i.into_fn_calls(stream);
			if got.iter().map(rbits).collect::<Vec<_>>() != n.outs {
				return Step::Violation(Failure::new(format!("{name}/instance-into_fn/differs-from-next"), String::new()));
			}
			// config-level over / init_fn: initialise from the first element of the inputs and process ALL of them
			let whole = &n.hist[..];
			let mut t = cfg.init(&whole[0]).unwrap();
			let want: Vec<String> = whole.iter().map(|x| rbits(&t.next(x))).collect();
			match cfg.over(whole) {
				Ok(r) if r.iter().map(rbits).collect::<Vec<_>>() == want => {}
				Ok(r) => return Step::Violation(Failure::new(format!("{name}/config-over/differs-from-next"), format!("{} outputs for {} inputs", r.len(), whole.len()))),
				Err(e) => return Step::Violation(Failure::new(format!("{name}/config-over/error"), format!("{e:?}"))),
			}
			match cfg.as_dyn().over(&whole.to_vec()) {
				Ok(r) if r.iter().map(rbits).collect::<Vec<_>>() == want => {}
				_ => return Step::Violation(Failure::new(format!("{name}/dyn-config-over/differs-from-next"), String::new())),
			}
			match cfg.init_fn_calls(whole) {
				Ok(r) if r.iter().map(rbits).collect::<Vec<_>>() == want => {}
				_ => return Step::Violation(Failure::new(format!("{name}/config-init_fn/differs-from-next"), String::new())),
			}
			match cfg.over(&[]) {
				Ok(r) if r.is_empty() => {}
				_ => return Step::Violation(Failure::new(format!("{name}/config-over/empty-input"), String::new())),
			}
		}
		Step::Next(n)
	}
}

fn main() {
	let mut h = H::start("C09");
	let thorough = h.thorough();
	// builds with a wider PeriodType (sub-run of C20): Buffered::get at lengths and indices beyond 255
	if std::env::var("VERIF_WIDE").is_ok() && (PeriodType::MAX as u64) > 255 {
		let ns: Vec<usize> = (1..=40).chain([127, 128, 254, 255, 256, 257, 300, 1000]).collect();
		h.go(&checks::buffered::BufSys { ns }, &Limits::depth(3000).wall_secs(300), true);
		h.go(&checks::buffered::HistSys { blocks: 12 }, &Limits::depth(1200).wall_secs(300), true);
		h.finish();
	}
	for sp in registry() {
		let name: &'static str = sp.name;
		let al = inputs(sp.input);
		let sys = CloneSys { spec_name: name, params: small_params(&sp), alphabet: al[..3].to_vec(), peekable: sp.peekable, tag: "" };
		h.go(&sys, &Limits::depth(if thorough { 7 } else { 5 }).wall_secs(300), true);
		// rounding-active values of mixed magnitudes: any re-ordering of a summation shows in the last bit
		let sys = CloneSys { spec_name: name, params: small_params(&sp), alphabet: checks::grid::mixed(sp.input), peekable: sp.peekable, tag: "/mixed-magnitudes" };
		h.go(&sys, &Limits::depth(if thorough { 8 } else { 6 }).wall_secs(300), true);
	}
	h.enum_replay("Methods/api", |_| None);
	if !h.is_replay() {
		api_block(&mut h, if thorough { 5 } else { 4 });
		long_run_block(&mut h, if thorough { 4_300_000 } else { 1_100_000 });
		bulk_block(&mut h);
	}
	// Buffered::get: the window-backed methods at every length and phase; the history wrapper far into a stream
	{
		let pmax = (PeriodType::MAX as usize).min(65_535);
		let ns: Vec<usize> = if pmax > 255 { (1..=40).chain([127, 128, 254, 255, 256, 257, 300, 1000]).collect() } else { (1..=pmax - 1).collect() };
		h.go(&checks::buffered::BufSys { ns }, &Limits::depth(3000).wall_secs(300), true);
		h.go(&checks::buffered::HistSys { blocks: if thorough { 1100 } else { 12 } }, &Limits::depth(1200).wall_secs(300), true);
	}
	let ks = alpha::k_candles();
	let d = if thorough { 5 } else { 4 };
	h.go(&IndSys { cfgs: defaults(), alphabet: ks[..3].to_vec(), maxlen: d, tag: "" }, &Limits::depth(d as u32).wall_secs(600), true);
	// small periods (windows rotate within the depth) and candles of mixed magnitudes
	let small: Vec<Box<dyn IndCfg>> = defaults().iter().flat_map(|c| checks::indcheck::indicator_configs(Some(c.const_name()), false).into_iter().skip(1)).collect();
	h.go(&IndSys { cfgs: small, alphabet: checks::grid::mixed_candles(), maxlen: d + 2, tag: "/small-periods/mixed-magnitudes" }, &Limits::depth(d as u32 + 2).wall_secs(600), true);
	h.run.assume("a twin instance driven by `next` only is the oracle; WithLastValue feeds the construction value once before the stream, so its outputs may equal either the plain twin's or those of a twin that was fed the construction value first (their agreement is C08)");
	h.finish();
}
