//! C15 — moving averages are averages: affine-equivariant, range-preserving, linear.
//! Product explorations of related runs of the real code.

use checks::refs::*;
use checks::subj::*;
use checks::*;
use refmodel::methods::RefVV;
use refmodel::Q;

type V = ValueType;

const CONV_W: [&[f64]; 4] = [&[1.0, 2.0, 3.0], &[0.5, 1.0, 2.0, 1.0], &[1.0, 1.0], &[2.0, -1.0, 1.0]];
fn vol_at(t: u64) -> V {
	[1.0, 4.0, 0.0, 2.0][(t % 4) as usize]
}
/// VWMA fed (price, volume) with a fixed volume cycle, seen as a value -> value subject
struct VwmaSubj {
	inner: Box<dyn Subject>,
	t: u64,
}
impl Subject for VwmaSubj {
	fn next(&mut self, i: &In) -> Out {
		self.t += 1;
		self.inner.next(&In::P(i.v(), vol_at(self.t)))
	}
	fn peek(&self) -> Option<Out> {
		self.inner.peek()
	}
	fn boxed_clone(&self) -> Box<dyn Subject> {
		Box::new(VwmaSubj { inner: self.inner.boxed_clone(), t: self.t })
	}
	fn debug_key(&self) -> String {
		self.inner.debug_key()
	}
	fn to_json(&self) -> Result<String, String> {
		self.inner.to_json()
	}
	fn from_json(&self, s: &str) -> Result<Box<dyn Subject>, String> {
		self.inner.from_json(s)
	}
	fn via_tokens(&self, positional: bool) -> Result<Box<dyn Subject>, String> {
		self.inner.via_tokens(positional)
	}
}
#[derive(Clone)]
struct VwmaVV {
	r: refmodel::methods::Vwma,
	t: u64,
}
impl RefVV for VwmaVV {
	fn next(&mut self, x: f64) -> Q {
		self.t += 1;
		self.r.step(x, vol_at(self.t) as f64)
	}
	fn stepq(&mut self, x: Q) -> Q {
		self.next(x.v)
	}
	fn box_clone(&self) -> Box<dyn RefVV> {
		Box::new(self.clone())
	}
}
/// kinds: the 15 of `MA`, plus "conv0".."conv3" (weight vectors CONV_W) and "vwma"
fn mk_ref(kind: &str, n: usize, v0: f64) -> Box<dyn RefVV> {
	if let Some(i) = kind.strip_prefix("conv") {
		return Box::new(refmodel::methods::conv(CONV_W[i.parse::<usize>().unwrap()].to_vec(), v0));
	}
	if kind == "vwma" {
		return Box::new(VwmaVV { r: refmodel::methods::Vwma::new(n, v0, vol_at(0) as f64), t: 0 });
	}
	ma_ref(kind, n, v0)
}
fn kind_nonneg(kind: &str) -> bool {
	match kind {
		"conv0" | "conv1" | "conv2" | "vwma" => true,
		"conv3" => false,
		k => ma_nonneg(k),
	}
}
fn mk(kind: &str, n: usize, v0: V) -> Option<Box<dyn Subject>> {
	if let Some(i) = kind.strip_prefix("conv") {
		let w: Vec<V> = CONV_W[i.parse::<usize>().unwrap()].iter().map(|x| *x as V).collect();
		return match catch(|| (spec("Conv").ctor)(&Params::W(w), &In::V(v0))) {
			Ok(Ok(s)) => Some(s),
			_ => None,
		};
	}
	if kind == "vwma" {
		return match catch(|| (spec("VWMA").ctor)(&Params::N(n as PeriodType), &In::P(v0, vol_at(0)))) {
			Ok(Ok(s)) => Some(Box::new(VwmaSubj { inner: s, t: 0 })),
			_ => None,
		};
	}
	let sp = spec("MAInstance");
	match catch(|| (sp.ctor)(&Params::Ma(ma_of(kind, n as PeriodType)), &In::V(v0))) {
		Ok(Ok(s)) => Some(s),
		_ => None,
	}
}

// ------------------------------------------------------------------ affine + range

const MAPS: [(f64, f64); 10] = [(2.0, 0.0), (-1.0, 0.0), (0.5, 1.0), (-4.0, -8.0), (1.0, 1.0), (1.0, -8.0), (-1.0, 1.0), (2.0, -8.0), (8.470329472543003e-22, 0.0), (1099511627776.0, 0.0)];

#[derive(Clone)]
struct Inst {
	imp: Box<dyn Subject>,
	rf: Box<dyn RefVV>,
}
#[derive(Clone)]
struct AffState {
	base: Inst,
	maps: Vec<Inst>,
	lo: f64,
	hi: f64,
	mag: f64,
	prev: V,
	first_dev: Option<u32>,
	last_dev: Option<u32>,
	depth: u32,
	n: usize,
	recent: Vec<V>,
}
struct AffSys {
	name: String,
	kind: &'static str,
	ns: Vec<usize>,
	v0s: Vec<V>,
	alphabet: Vec<V>,
	flat: bool,
}
impl System for AffSys {
	type State = AffState;
	type Act = V;
	fn name(&self) -> String {
		self.name.clone()
	}
	fn inits(&self) -> Vec<(AffState, String)> {
		let mut v = vec![];
		for &n in &self.ns {
			for &v0 in &self.v0s {
				let Some(imp) = mk(self.kind, n, v0) else { continue };
				let base = Inst { imp, rf: mk_ref(self.kind, n, v0 as f64) };
				let mut maps = vec![];
				for (a, b) in MAPS {
					let m0 = (a * v0 as f64 + b) as V;
					let Some(imp) = mk(self.kind, n, m0) else { continue };
					maps.push(Inst { imp, rf: mk_ref(self.kind, n, m0 as f64) });
				}
				v.push((AffState { base, maps, lo: v0 as f64, hi: v0 as f64, mag: (v0 as f64).abs(), prev: v0, first_dev: None, last_dev: None, depth: 0, n, recent: vec![v0; n + 1] }, format!("{}-{n} v0={v0:?}", self.kind)));
			}
		}
		v
	}
	fn actions(&self, s: &AffState, depth: u32) -> Vec<(V, u8)> {
		if !self.flat {
			return self.alphabet.iter().map(|a| (*a, 0)).collect();
		}
		let n = s.n as u32;
		if let Some(l) = s.last_dev {
			if depth > l + 2 * n + 3 {
				return vec![];
			}
		}
		let mut v = vec![(s.prev, 0u8)];
		let allowed = match (s.first_dev, s.last_dev) {
			(None, _) => [0, 1, 2, n.saturating_sub(1), n, n + 1].contains(&depth),
			(Some(f), Some(l)) if f == l => {
				let off = depth - f;
				off == 1 || off == 2 || off + 1 == n || off == n || off == n + 1
			}
			_ => false,
		};
		if allowed {
			for a in &self.alphabet {
				if *a != s.prev {
					v.push((*a, 1));
				}
			}
		}
		v
	}
	fn step(&self, s: &AffState, x: &V) -> Step<AffState> {
		let mut n = s.clone();
		let kind = self.kind;
		if *x != s.prev {
			if n.first_dev.is_none() {
				n.first_dev = Some(s.depth);
			}
			n.last_dev = Some(s.depth);
		}
		n.depth += 1;
		n.prev = *x;
		n.recent.remove(0);
		n.recent.push(*x);
		// input class: every one of the last n changes is exactly zero
		let class = if n.recent.iter().all(|v| v.to_bits() == x.to_bits()) { "/flat-window" } else { "" };
		let xf = *x as f64;
		n.lo = n.lo.min(xf);
		n.hi = n.hi.max(xf);
		n.mag = n.mag.max(xf.abs());
		let out = match catch(|| n.base.imp.next(&In::V(*x))) {
			Ok(Out::V(o)) => o as f64,
			Ok(o) => return Step::Violation(Failure::new(format!("{kind}/kind"), o.show())),
			Err(p) => return Step::Violation(Failure::new(format!("{kind}/next/panic"), format!("panicked at {}: {}", p.at(), p.msg))),
		};
		let q = n.base.rf.next(xf);
		let mut exempt = !q.is_defined();
		// range preservation (non-negative weights)
		if kind_nonneg(kind) && q.is_defined() {
			// (the median only selects, or halves a sum of two: nothing to add in the subnormal range; the
			// arithmetic kinds may round by a few steps of the subnormal grid)
			let r = q.r + 4.0 * eps() * n.mag + if kind == "smm" { 0.0 } else { 4.0 * V::MIN_POSITIVE as f64 * eps() };
			if out < n.lo - r || out > n.hi + r {
				return Step::Violation(Failure::new(
					format!("{kind}/range/outside-hull{class}"),
					format!("output {out:?} outside [{:?}, {:?}] spanned by the values given (radius {r:.3e})", n.lo, n.hi),
				));
			}
		}
		// affine equivariance
		for (i, (a, b)) in MAPS.iter().enumerate() {
			if i >= n.maps.len() {
				break;
			}
			let y = a * xf + b;
			let yv = y as V;
			let inexact = (yv as f64) != y || (a * xf) != (a * xf as f64);
			let m = &mut n.maps[i];
			let o2 = match catch(|| m.imp.next(&In::V(yv))) {
				Ok(Out::V(o)) => o as f64,
				Ok(o) => return Step::Violation(Failure::new(format!("{kind}/kind"), o.show())),
				Err(p) => return Step::Violation(Failure::new(format!("{kind}/next/panic"), format!("mapped run panicked at {}: {}", p.at(), p.msg))),
			};
			let q2 = m.rf.next(yv as f64);
			if !q.is_defined() || !q2.is_defined() {
				exempt = true;
				continue;
			}
			let want = a * out + b;
			let mag2 = a.abs() * n.mag + b.abs();
			let slack = 8.0 * eps() * mag2 + if inexact || true { 16.0 * eps() * mag2 } else { 0.0 };
			// in the subnormal range one rounding is an absolute step of the grid, not a relative one
			let sub_ulp = V::MIN_POSITIVE as f64 * eps();
			let tol = a.abs() * q.r + q2.r + slack + 8.0 * sub_ulp * (a.abs() + 1.0);
			if (o2 - want).abs() > tol {
				return Step::Violation(Failure::new(
					format!("{kind}/affine/a={a},b={b}{class}"),
					format!("MA({a}*x+{b}) = {o2:?} but {a}*MA(x)+{b} = {want:?} (tolerance {tol:.3e})"),
				));
			}
		}
		if exempt {
			Step::Exempt(n, "reference undefined")
		} else {
			Step::Next(n)
		}
	}
}

// ------------------------------------------------------------------ superposition

#[derive(Clone)]
struct SupState {
	x: Inst,
	y: Inst,
	s: Inst,
}
struct SupSys {
	name: String,
	kind: &'static str,
	ns: Vec<usize>,
	alphabet: Vec<(V, V)>,
}
impl System for SupSys {
	type State = SupState;
	type Act = (V, V);
	fn name(&self) -> String {
		self.name.clone()
	}
	fn inits(&self) -> Vec<(SupState, String)> {
		let mut v = vec![];
		for &n in &self.ns {
			for &(a, b) in &[(0.0 as V, 0.0 as V), (1.0, -3.0), (1.0, 1.0)] {
				let (Some(ix), Some(iy), Some(is)) = (mk(self.kind, n, a), mk(self.kind, n, b), mk(self.kind, n, a + b)) else { continue };
				v.push((
					SupState {
						x: Inst { imp: ix, rf: mk_ref(self.kind, n, a as f64) },
						y: Inst { imp: iy, rf: mk_ref(self.kind, n, b as f64) },
						s: Inst { imp: is, rf: mk_ref(self.kind, n, (a + b) as f64) },
					},
					format!("{}-{n} v0=({a:?},{b:?})", self.kind),
				));
			}
		}
		v
	}
	fn actions(&self, _: &SupState, _: u32) -> Vec<((V, V), u8)> {
		self.alphabet.iter().map(|a| (*a, 0)).collect()
	}
	fn step(&self, s: &SupState, a: &(V, V)) -> Step<SupState> {
		let mut n = s.clone();
		let kind = self.kind;
		let run = |i: &mut Inst, v: V| -> Result<(f64, Q), Failure> {
			match catch(|| i.imp.next(&In::V(v))) {
				Ok(Out::V(o)) => Ok((o as f64, i.rf.next(v as f64))),
				Ok(o) => Err(Failure::new(format!("{kind}/kind"), o.show())),
				Err(p) => Err(Failure::new(format!("{kind}/next/panic"), format!("panicked at {}: {}", p.at(), p.msg))),
			}
		};
		let sum = a.0 + a.1;
		let (ox, qx) = match run(&mut n.x, a.0) { Ok(v) => v, Err(f) => return Step::Violation(f) };
		let (oy, qy) = match run(&mut n.y, a.1) { Ok(v) => v, Err(f) => return Step::Violation(f) };
		let (os, qs) = match run(&mut n.s, sum) { Ok(v) => v, Err(f) => return Step::Violation(f) };
		if !(qx.is_defined() && qy.is_defined() && qs.is_defined()) {
			return Step::Exempt(n, "reference undefined");
		}
		let tol = qx.r + qy.r + qs.r + 16.0 * eps() * (ox.abs() + oy.abs() + (a.0 as f64).abs() + (a.1 as f64).abs());
		if (os - (ox + oy)).abs() > tol {
			return Step::Violation(Failure::new(format!("{kind}/superposition"), format!("MA(x+y) = {os:?}, MA(x)+MA(y) = {:?} (tolerance {tol:.3e})", ox + oy)));
		}
		Step::Next(n)
	}
}

// ------------------------------------------------------------------ impulse response

#[derive(Clone)]
struct ImpState {
	imp: Box<dyn Subject>,
	n: usize,
	k: usize,
	profile: std::sync::Arc<Vec<f64>>,
}
struct ImpSys {
	kind: &'static str,
	ns: Vec<usize>,
}
fn support(kind: &str, n: usize) -> usize {
	match kind {
		"trima" => 2 * n + 1,
		"hma" => n + (n as f64).sqrt() as usize + 2,
		"ema" | "rma" | "wsma" | "dma" | "tma" | "dema" | "tema" => (6 * n).min(800),
		_ => n + 2,
	}
}
impl System for ImpSys {
	type State = ImpState;
	type Act = u8;
	fn name(&self) -> String {
		format!("{}/impulse-response/n={}..={}", self.kind, self.ns[0], self.ns[self.ns.len() - 1])
	}
	fn inits(&self) -> Vec<(ImpState, String)> {
		self.ns
			.iter()
			.filter_map(|&n| {
				let imp = mk(self.kind, n, 0.0)?;
				let len = support(self.kind, n) + 1;
				Some((ImpState { imp, n, k: 0, profile: std::sync::Arc::new(impulse_profile(self.kind, n, len)) }, format!("{}-{n}", self.kind)))
			})
			.collect()
	}
	fn actions(&self, s: &ImpState, _: u32) -> Vec<(u8, u8)> {
		if s.k > support(self.kind, s.n) + 1 {
			vec![]
		} else {
			vec![(if s.k == 1 { 1 } else { 0 }, 0)]
		}
	}
	fn show_act(&self, a: &u8) -> String {
		format!("{a}.0")
	}
	fn step(&self, s: &ImpState, a: &u8) -> Step<ImpState> {
		let mut n = s.clone();
		let out = match catch(|| n.imp.next(&In::V(*a as V))) {
			Ok(Out::V(o)) => o as f64,
			Ok(o) => return Step::Violation(Failure::new(format!("{}/kind", self.kind), o.show())),
			Err(p) => return Step::Violation(Failure::new(format!("{}/next/panic", self.kind), format!("panicked at {}: {}", p.at(), p.msg))),
		};
		// k = 0: leading zero; k >= 1: response h[k-1]
		let want = if s.k == 0 { 0.0 } else { s.profile.get(s.k - 1).copied().unwrap_or(0.0) };
		let sumabs: f64 = s.profile.iter().map(|x| x.abs()).sum::<f64>().max(1.0);
		let tol = 16.0 * eps() * (s.k + s.n + 8) as f64 * sumabs * 4.0;
		n.k += 1;
		if (out - want).abs() > tol {
			return Step::Violation(Failure::new(
				format!("{}/impulse-response", self.kind),
				format!("{} steps after the impulse: output {out:?}, documented weight {want:?} (tolerance {tol:.3e})", s.k as i64 - 1),
			));
		}
		Step::Next(n)
	}
}

/// builds with a wider PeriodType (sub-run of C20): impulse response of the window kinds at lengths far
/// beyond 255 (around 2^15 / 2^16 where the period type allows), fed in one go
fn wide_impulses(h: &mut H) {
	let sink = VioSink::new("Wide/impulse-response");
	let pmax = PeriodType::MAX as u64;
	let lens: Vec<usize> = if pmax > 65535 { vec![300, 32768, 65534, 65535, 65536, 70001] } else { vec![300, 1000, 32767, 32768, 65534] };
	let mut cases = 0u64;
	for kind in ["sma", "wma", "swma", "linreg"] {
		for &n in &lens {
			cases += 1;
			let case = format!("{kind}-{n}");
			let Some(mut imp) = mk(kind, n, 0.0) else {
				sink.push(&format!("{kind}/wide/not-constructible"), case, "constructor rejected the length".into());
				continue;
			};
			let profile = impulse_profile(kind, n, n + 2);
			let sumabs: f64 = profile.iter().map(|x| x.abs()).sum::<f64>().max(1.0);
			let r = catch(|| {
				let mut worst: Option<(usize, f64, f64)> = None;
				let _ = imp.next(&In::V(0.0));
				for k in 0..(n + 2) {
					let x = if k == 0 { 1.0 } else { 0.0 };
					let Out::V(o) = imp.next(&In::V(x)) else { return Some((k, f64::NAN, f64::NAN)) };
					let want = profile.get(k).copied().unwrap_or(0.0);
					let tol = 64.0 * eps() * (k + n + 8) as f64 * sumabs;
					if (o as f64 - want).abs() > tol && worst.is_none() {
						worst = Some((k, o as f64, want));
					}
				}
				worst
			});
			match r {
				Ok(None) => {}
				Ok(Some((k, o, w))) => sink.push(&format!("{kind}/wide/impulse-response"), case, format!("{k} steps after the impulse: output {o:?}, documented weight {w:?}")),
				Err(p) => sink.push(&format!("{kind}/wide/panic"), case, format!("panicked at {}: {}", p.at(), p.msg)),
			}
		}
	}
	h.run.enum_block("window kinds at wide lengths: impulse response vs documented weights", cases, cases.max(2), true, serde_json::json!(format!("{lens:?}")), sink.into_violations());
}

fn main() {
	refmodel::set_eps(eps());
	refmodel::set_floor(ValueType::MIN_POSITIVE as f64);
	let mut h = H::start("C15");
	if std::env::var("VERIF_WIDE").is_ok() && (PeriodType::MAX as u64) > 255 {
		refmodel::set_eps(eps());
		wide_impulses(&mut h);
		h.finish();
	}
	let thorough = h.thorough();
	let pmax = PeriodType::MAX as u64;
	let arith: Vec<V> = alpha::v_arith();
	for kind in MA_KINDS {
		let min = ma_min_len(kind);
		// (the length PeriodType::MAX itself where the constructor takes it: the recursive kinds do)
		let maxn = { let m = ma_max_len(kind, pmax); if m == 254 && mk(kind, 255, 1.0).is_some() { 255 } else { m } };
		let small: Vec<usize> = (min..=5).collect();
		// affine + range, every sequence to a depth
		h.go(&AffSys { name: format!("{kind}/affine+range/depth-arith"), kind, ns: small.clone(), v0s: vec![1.0, -3.0], alphabet: arith[..4].to_vec(), flat: false }, &Limits::depth(if thorough { 6 } else { 5 }).wall_secs(300), true);
		h.go(
			&AffSys { name: format!("{kind}/affine+range/depth-round"), kind, ns: vec![3.max(min), 4], v0s: vec![1.0], alphabet: if thorough { alpha::v_round() } else { alpha::v_round3() }, flat: false },
			&Limits::depth(if thorough { 8 } else { 8 }).wall_secs(300),
			true,
		);
		// both zeros and mixed signs
		h.go(&AffSys { name: format!("{kind}/affine+range/depth-signed-zeros"), kind, ns: vec![2.max(min), 3.max(min)], v0s: vec![1.0, -0.0], alphabet: vec![0.0, -0.0, -1.0, 1.0], flat: false }, &Limits::depth(if thorough { 7 } else { 6 }).wall_secs(300), true);
		// subnormal values with odd mantissas (halving them rounds): constants must be reproduced, the hull kept
		{
			let sb = |k: u64| V::from_bits(k as _);
			h.go(
				&AffSys { name: format!("{kind}/affine+range/depth-subnormals"), kind, ns: vec![1.max(min), 2.max(min), 3.max(min)], v0s: vec![sb(1), sb(3)], alphabet: vec![sb(1), sb(3), 0.0, sb(6)], flat: false },
				&Limits::depth(if thorough { 6 } else { 4 }).wall_secs(300),
				true,
			);
		}
		// every length, deviation-bounded
		let mut ns: Vec<usize> = (min..=maxn).collect();
		if !thorough {
			ns.retain(|n| *n <= 8 || n % 32 == 0 || *n + 1 >= maxn);
		}
		h.go(
			&AffSys { name: format!("{kind}/affine+range/deviation"), kind, ns: ns.clone(), v0s: vec![1.0, -3.0], alphabet: vec![0.0, 1.0, -3.0, alpha::big() as V, 1.7], flat: true },
			&Limits::deviation(1, 800).wall_secs(600),
			true,
		);
		if thorough {
			// two deviations: small lengths and the boundary lengths (a state of this product holds 11 instances
			// with their windows; every length with two deviations took 6 minutes per kind)
			let ns2: Vec<usize> = ns.iter().copied().filter(|n| *n <= 24 || [63, 64, 127, 128].contains(n) || *n + 1 >= maxn).collect();
			h.go(
				&AffSys { name: format!("{kind}/affine+range/deviation-2"), kind, ns: ns2, v0s: vec![1.0, -3.0], alphabet: vec![0.0, 1.0, -3.0, alpha::big() as V, 1.7], flat: true },
				&Limits::deviation(2, 800).wall_secs(600),
				true,
			);
		}
		if ma_is_linear(kind) {
			let mut pairs = vec![];
			for a in &arith[..4] {
				for b in &arith[..4] {
					pairs.push((*a, *b));
				}
			}
			h.go(&SupSys { name: format!("{kind}/superposition/depth"), kind, ns: small.clone(), alphabet: pairs }, &Limits::depth(if thorough { 5 } else { 4 }).wall_secs(300), true);
			h.go(&ImpSys { kind, ns: (min..=maxn).collect() }, &Limits::closure().wall_secs(300), true);
		}
	}
	// Conv (4 weight vectors, one with a negative weight) and VWMA (fixed volume cycle)
	for kind in ["conv0", "conv1", "conv2", "conv3", "vwma"] {
		let ns: Vec<usize> = if kind == "vwma" { if thorough { vec![1, 2, 3, 4, 5] } else { vec![2, 3] } } else { vec![1] };
		h.go(&AffSys { name: format!("{kind}/affine+range/depth-arith"), kind, ns: ns.clone(), v0s: vec![1.0, -3.0], alphabet: arith[..4].to_vec(), flat: false }, &Limits::depth(if thorough { 6 } else { 5 }).wall_secs(300), true);
		h.go(&AffSys { name: format!("{kind}/affine+range/depth-round"), kind, ns: vec![ns[ns.len() / 2]], v0s: vec![1.0], alphabet: if thorough { alpha::v_round() } else { alpha::v_round3() }, flat: false }, &Limits::depth(if thorough { 8 } else { 7 }).wall_secs(300), true);
		let mut pairs = vec![];
		for a in &arith[..4] {
			for b in &arith[..4] {
				pairs.push((*a, *b));
			}
		}
		h.go(&SupSys { name: format!("{kind}/superposition/depth"), kind, ns, alphabet: pairs }, &Limits::depth(if thorough { 5 } else { 4 }).wall_secs(300), true);
	}
	h.run.assume("a linear time-invariant filter is determined by its impulse response; superposition + impulse response for all n characterise the linear kinds up to rounding");
	h.finish();
}
