//! C16 — Action is a consistent signed-strength algebra. Total enumeration.
//!
//! Domain model: an action is `None` or a signed integer strength k in -255..=255,
//! with -0 == +0.

use checks::*;
use rayon::prelude::*;
use std::cmp::Ordering;
use yata::core::Action;

const SYS: &str = "Action/enum";

fn model(a: Action) -> Option<i32> {
	match a {
		Action::None => None,
		Action::Buy(v) => Some(v as i32),
		Action::Sell(v) => Some(-(v as i32)),
	}
}
fn show(a: Action) -> String {
	match a {
		Action::None => "None".into(),
		Action::Buy(v) => format!("Buy({v})"),
		Action::Sell(v) => format!("Sell({v})"),
	}
}
fn parse(s: &str) -> Option<Action> {
	let s = s.trim();
	if s == "None" {
		return Some(Action::None);
	}
	let (k, rest) = if let Some(r) = s.strip_prefix("Buy(") { (true, r) } else { (false, s.strip_prefix("Sell(")?) };
	let v: u8 = rest.strip_suffix(')')?.parse().ok()?;
	Some(if k { Action::Buy(v) } else { Action::Sell(v) })
}
fn all() -> Vec<Action> {
	let mut v = vec![Action::None];
	for k in 0..=255u8 {
		v.push(Action::Buy(k));
	}
	for k in 0..=255u8 {
		v.push(Action::Sell(k));
	}
	v
}
fn same(a: Action, b: Action) -> bool {
	// structural identity up to the sign of a zero strength
	model(a) == model(b)
}

fn check_unary(a: Action) -> Vec<(String, String)> {
	let mut f = vec![];
	let k = model(a);
	let r = a.ratio();
	match (k, r) {
		(None, None) => {}
		(Some(k), Some(r)) => {
			if !(-1.0..=1.0).contains(&r) {
				f.push(("ratio/out-of-range".to_string(), format!("ratio = {r}")));
			}
			let want = k as f64 / 255.0;
			if (r as f64 - want).abs() > 4.0 * eps() {
				f.push(("ratio/value".to_string(), format!("ratio = {r}, expected {want}")));
			}
			let back = Action::from(r);
			if !(back == a) || !same(back, a) {
				f.push(("from-ratio/roundtrip".to_string(), format!("from(ratio) = {}", show(back))));
			}
			let back2: Action = Some(r).into();
			if !same(back2, a) {
				f.push(("from-option-ratio/roundtrip".to_string(), format!("from(Some(ratio)) = {}", show(back2))));
			}
		}
		_ => f.push(("ratio/none-mismatch".to_string(), format!("ratio = {r:?}"))),
	}
	let sg = k.map(|k| k.signum() as i8);
	if a.analog() != sg.unwrap_or(0) {
		f.push(("analog/sign".to_string(), format!("analog = {}", a.analog())));
	}
	if a.sign() != sg {
		f.push(("sign/sign".to_string(), format!("sign = {:?}", a.sign())));
	}
	if a.value() != k.map(|k| k.unsigned_abs() as u8) {
		f.push(("value/strength".to_string(), format!("value = {:?}", a.value())));
	}
	if a.is_none() != k.is_none() || a.is_some() != k.is_some() {
		f.push(("is_none/is_some".to_string(), String::new()));
	}
	let n = -a;
	if model(n) != k.map(|k| -k) {
		f.push(("neg/strength".to_string(), format!("-a = {}", show(n))));
	}
	if !same(-n, a) || !((-n) == a) {
		f.push(("neg/involution".to_string(), format!("--a = {}", show(-n))));
	}
	match (n.ratio(), r) {
		(None, None) => {}
		(Some(x), Some(y)) if x == -y => {}
		(x, y) => f.push(("neg/ratio".to_string(), format!("ratio(-a) = {x:?}, ratio(a) = {y:?}"))),
	}
	let via_ref: Action = (&a).into();
	if !same(via_ref, a) {
		f.push(("from-ref".to_string(), String::new()));
	}
	f
}

fn sub_class(a: Action, b: Action) -> &'static str {
	match (model(a), model(b)) {
		(None, None) => "none-none",
		(None, _) | (_, None) => "with-none",
		(Some(x), Some(y)) if (x > 0 && y < 0) || (x < 0 && y > 0) => "mixed-sign",
		(Some(x), Some(y)) if x == 0 || y == 0 => "zero-strength",
		_ => "same-sign",
	}
}

fn check_pair(a: Action, b: Action) -> Vec<(String, String)> {
	let mut f = vec![];
	let (ka, kb) = (model(a), model(b));
	// subtraction
	let d = a - b;
	let want = match (ka, kb) {
		(None, None) => None,
		(x, y) => Some((x.unwrap_or(0) - y.unwrap_or(0)).clamp(-255, 255)),
	};
	if model(d) != want {
		f.push((format!("sub/{}", sub_class(a, b)), format!("a - b = {}, expected strength {want:?}", show(d))));
	}
	// equality: symmetric, agrees with the model
	let e = a == b;
	if e != (b == a) {
		f.push(("eq/asymmetric".to_string(), String::new()));
	}
	if e != (ka == kb) {
		f.push(("eq/model".to_string(), format!("a == b is {e}")));
	}
	#[allow(clippy::partialeq_ne_impl)]
	if (a != b) == e {
		f.push(("ne/inconsistent".to_string(), String::new()));
	}
	// ordering consistent with equality
	let c = a.cmp(&b);
	if (c == Ordering::Equal) != e {
		let class = if ka == Some(0) && kb == Some(0) { "zero-strength" } else { "other" };
		f.push((format!("ord-vs-eq/{class}"), format!("a == b is {e} but cmp = {c:?}")));
	}
	if a.partial_cmp(&b) != Some(c) {
		f.push(("partial_cmp-vs-cmp".to_string(), format!("partial_cmp = {:?}, cmp = {c:?}", a.partial_cmp(&b))));
	}
	if b.cmp(&a) != c.reverse() {
		f.push(("ord/antisymmetry".to_string(), String::new()));
	}
	f
}

/// integer model of the float conversion: exact arithmetic, half away from zero
fn float_model(v: f64) -> Option<i32> {
	if v.is_nan() {
		return None;
	}
	let x = v.abs().min(1.0);
	// for an f32-representable x the product x*255 is exact in f64 (24+8 bits)
	let y = x * 255.0;
	let k = y.floor();
	let frac = y - k;
	let k = if frac >= 0.5 { k + 1.0 } else { k } as i32;
	Some(if v.is_sign_negative() { -k } else { k })
}

fn check_f32(bits: u32, sink: &VioSink) -> i32 {
	let v = f32::from_bits(bits);
	let a = Action::from(v);
	let k = model(a);
	let want = float_model(v as f64);
	let case = || format!("f32:0x{bits:08x}");
	if k != want {
		let class = if v.is_nan() { "nan" } else if v.abs() >= 1.0 { "saturation" } else { "rounding" };
		sink.push(&format!("from-f32/{class}"), case(), format!("from({v:e}) = {}, model {want:?}", show(a)));
	}
	if !v.is_nan() {
		// sign preserved (a zero strength has no sign, but the variant must follow the sign bit)
		let neg = matches!(a, Action::Sell(_));
		if neg != v.is_sign_negative() || a.is_none() {
			sink.push("from-f32/sign", case(), format!("from({v:e}) = {}", show(a)));
		}
		let via64 = Action::from(v as f64);
		if !same(via64, a) {
			sink.push("from-f32/f64-disagree", case(), format!("f32 -> {}, widened f64 -> {}", show(a), show(via64)));
		}
		let viaopt: Action = Some(v).into();
		if !same(viaopt, a) {
			sink.push("from-option-f32", case(), String::new());
		}
	}
	k.unwrap_or(i32::MIN)
}

fn f32_block(h: &mut H, thorough: bool) {
	let sink = VioSink::new(SYS);
	let t = std::time::Instant::now();
	let outcomes = std::sync::Mutex::new(std::collections::BTreeSet::new());
	let cases: u64;
	if thorough {
		// all 2^32 patterns; monotonicity: each pattern against its predecessor in numeric order
		cases = (0..65536u32)
			.into_par_iter()
			.map(|hi| {
				let mut local = std::collections::BTreeSet::new();
				let base = hi << 16;
				let mut prev: Option<i32> = None;
				for lo in 0..65536u32 {
					let bits = base | lo;
					let k = check_f32(bits, &sink);
					local.insert(k);
					let v = f32::from_bits(bits);
					if !v.is_nan() {
						// numeric predecessor within the same sign: bits-1 for positives, bits+1 ... handled via magnitude
						let mag = bits & 0x7fff_ffff;
						if mag > 0 {
							let pk = match prev {
								Some(p) if lo > 0 => p,
								_ => model(Action::from(f32::from_bits(bits - 1))).unwrap_or(i32::MIN),
							};
							// magnitude increases with bits for both signs
							if pk != i32::MIN && k.abs() < pk.abs() {
								sink.push("from-f32/monotone", format!("f32:0x{bits:08x}"), format!("strength {k} after {pk}"));
							}
						}
					}
					prev = Some(k);
				}
				outcomes.lock().unwrap().extend(local);
				65536u64
			})
			.sum();
	} else {
		let mut pats: Vec<u32> = Vec::new();
		for hi in 0..(1u32 << 20) {
			pats.push(hi << 12);
		}
		for k in 0..=255u32 {
			for s in [0u32, 0x8000_0000] {
				let bp = ((k as f64 + 0.5) / 255.0) as f32;
				let b = bp.to_bits();
				for d in 0..=128u32 {
					pats.push((b - 64 + d) | s);
				}
				let e = (k as f32 / 255.0).to_bits();
				for d in 0..=8u32 {
					pats.push((e.wrapping_sub(4).wrapping_add(d)) | s);
				}
			}
		}
		for sp in [0u32, 1, 0x007f_ffff, 0x0080_0000, 0x3f7f_ffff, 0x3f80_0000, 0x3f80_0001, 0x7f7f_ffff, 0x7f80_0000, 0x7f80_0001, 0x7fc0_0000, 0x7fff_ffff] {
			pats.push(sp);
			pats.push(sp | 0x8000_0000);
		}
		pats.sort_unstable();
		pats.dedup();
		cases = pats.len() as u64;
		// monotone along the sorted positive and negative magnitudes
		let ks: Vec<(u32, i32)> = pats.par_iter().map(|&b| (b, check_f32(b, &sink))).collect();
		let mut o = outcomes.lock().unwrap();
		let mut prev: Option<(u32, i32)> = None;
		for &(b, k) in &ks {
			o.insert(k);
			if f32::from_bits(b).is_nan() {
				prev = None;
				continue;
			}
			if let Some((pb, pk)) = prev {
				if (pb ^ b) & 0x8000_0000 == 0 && k.abs() < pk.abs() {
					sink.push("from-f32/monotone", format!("f32:0x{b:08x}"), format!("strength {k} after {pk} at 0x{pb:08x}"));
				}
			}
			prev = Some((b, k));
		}
	}
	let distinct = outcomes.lock().unwrap().len() as u64;
	h.run.note("f32_patterns", serde_json::json!({"cases": cases, "all_2^32": thorough, "wall_s": t.elapsed().as_secs_f64()}));
	h.run.enum_block("Action/from-f32", cases, distinct, thorough, serde_json::json!({"bits": "0x3f000000", "value": 0.5, "action": show(Action::from(0.5f32))}), sink.into_violations());
}

fn f64_block(h: &mut H) {
	let sink = VioSink::new(SYS);
	let mut cases = 0u64;
	let mut distinct = std::collections::BTreeSet::new();
	let mut pts: Vec<f64> = vec![0.0, -0.0, 5e-324, -5e-324, f64::MIN_POSITIVE, 1.0, -1.0, f64::INFINITY, f64::NEG_INFINITY, f64::MAX, f64::MIN, f64::NAN, -f64::NAN];
	for k in 0..=255u32 {
		for c in [(k as f64 + 0.5) / 255.0, k as f64 / 255.0] {
			let b = c.to_bits();
			for d in 0..=2048u64 {
				let x = f64::from_bits(b - 1024 + d);
				pts.push(x);
				pts.push(-x);
			}
		}
	}
	let one = 1.0f64.to_bits();
	for d in 0..=64u64 {
		pts.push(f64::from_bits(one - 32 + d));
		pts.push(-f64::from_bits(one - 32 + d));
	}
	pts.retain(|x| !x.is_nan() || true);
	let mut fin: Vec<f64> = pts.iter().copied().filter(|x| !x.is_nan()).collect();
	fin.sort_by(|a, b| a.partial_cmp(b).unwrap());
	let mut prev: Option<(f64, i32)> = None;
	for &v in &fin {
		cases += 1;
		let a = Action::from(v);
		let k = match model(a) {
			Some(k) => k,
			None => {
				sink.push("from-f64/none-for-number", format!("f64:0x{:016x}", v.to_bits()), format!("from({v:e}) = None"));
				continue;
			}
		};
		distinct.insert(k);
		// |v*255 - k| <= 1/2 up to one rounding of the product; saturation beyond 1
		let x = v.abs().min(1.0) * 255.0;
		if (x - k.abs() as f64).abs() > 0.5 + 1e-12 {
			sink.push("from-f64/rounding", format!("f64:0x{:016x}", v.to_bits()), format!("from({v:e}) = {}", show(a)));
		}
		if (k < 0 && v > 0.0) || (k > 0 && v < 0.0) || matches!(a, Action::Sell(_)) != v.is_sign_negative() {
			sink.push("from-f64/sign", format!("f64:0x{:016x}", v.to_bits()), format!("from({v:e}) = {}", show(a)));
		}
		if let Some((pv, pk)) = prev {
			if k < pk {
				sink.push("from-f64/monotone", format!("f64:0x{:016x}", v.to_bits()), format!("from({v:e}) = {k} after from({pv:e}) = {pk}"));
			}
		}
		prev = Some((v, k));
		let o: Action = Some(v).into();
		if !same(o, a) {
			sink.push("from-option-f64", format!("f64:0x{:016x}", v.to_bits()), String::new());
		}
	}
	for v in [f64::NAN, -f64::NAN, f64::from_bits(0x7ff0_0000_0000_0001)] {
		cases += 1;
		if !Action::from(v).is_none() {
			sink.push("from-f64/nan", "f64:nan".into(), format!("from(NaN) = {}", show(Action::from(v))));
		}
		// every entry point of the conversion: Option<f64>, Option<f32>, references
		let via: [(&str, Action); 4] = [("Some(f64)", Some(v).into()), ("Some(f32)", Some(v as f32).into()), ("&f64", Action::from(&v)), ("&f32", Action::from(&(v as f32)))];
		for (nm, a) in via {
			if !a.is_none() {
				sink.push("from-f64/nan-through-other-entry-point", format!("{nm}: NaN"), format!("= {}", show(a)));
			}
		}
	}
	// beyond +-1 and at the infinities through the Option / reference entry points
	for v in [1.0f64, -1.0, 1.0000000000000002, -1.5, 2.0, -255.0, 1e300, -1e300, f64::INFINITY, f64::NEG_INFINITY, f64::MAX, f64::MIN_POSITIVE, -f64::MIN_POSITIVE, 5e-324, -0.0, 0.0] {
		cases += 1;
		let a = Action::from(v);
		let via: [(&str, Result<Action, PanicInfo>); 3] = [("Some(f64)", catch(|| -> Action { Some(v).into() })), ("Some(f32)", catch(|| -> Action { Some(v as f32).into() })), ("&f64", catch(|| Action::from(&v)))];
		for (nm, r) in via {
			match r {
				Ok(o) if same(o, a) || nm == "Some(f32)" && same(o, Action::from(v as f32)) => {}
				Ok(o) => sink.push("from-f64/entry-points-disagree", format!("{nm}: {v:e}"), format!("{} vs from(f64) = {}", show(o), show(a))),
				Err(p) => sink.push("from-f64/entry-point-panics", format!("{nm}: {v:e}"), p.msg),
			}
		}
	}
	let none: Option<f64> = None;
	if !Action::from(none).is_none() || !Action::from(None::<f32>).is_none() || !Action::from(None::<i8>).is_none() || !Action::default().is_none() {
		sink.push("from-none", "None".into(), String::new());
	}
	h.run.enum_block("Action/from-f64", cases, distinct.len() as u64, false, serde_json::json!({"around": "(k+1/2)/255 and k/255, +-1024 ulp, both signs; +-1 +-32 ulp; specials"}), sink.into_violations());
}

fn main() {
	let mut h = H::start("C16");
	let thorough = h.thorough();
	let acts = all();
	h.enum_replay(SYS, |case| {
		// "a" | "a,b" | "a,b,c" | "f32:0x.." | "i8:.."
		if let Some(b) = case.strip_prefix("f32:0x") {
			let sink = VioSink::new(SYS);
			check_f32(u32::from_str_radix(b, 16).ok()?, &sink);
			return sink.into_violations().into_iter().next().map(|v| v.failure);
		}
		let parts: Vec<Action> = case.split(',').filter_map(parse).collect();
		let fs = match parts.len() {
			1 => check_unary(parts[0]),
			2 => check_pair(parts[0], parts[1]),
			_ => vec![],
		};
		fs.into_iter().next().map(|(s, d)| Failure::new(s, d))
	});
	if h.is_replay() {
		h.finish();
	}
	// unary
	{
		let sink = VioSink::new(SYS);
		for &a in &acts {
			for (s, d) in check_unary(a) {
				sink.push(&s, show(a), d);
			}
		}
		h.run.enum_block("Action/unary", acts.len() as u64, acts.len() as u64, true, serde_json::json!(show(acts[300])), sink.into_violations());
	}
	// pairs
	{
		let sink = VioSink::new(SYS);
		let outcomes: std::collections::BTreeSet<Option<i32>> = acts
			.par_iter()
			.map(|&a| {
				let mut o = std::collections::BTreeSet::new();
				for &b in &acts {
					for (s, d) in check_pair(a, b) {
						sink.push(&s, format!("{},{}", show(a), show(b)), d);
					}
					o.insert(model(a - b));
				}
				o
			})
			.reduce(Default::default, |mut x, y| {
				x.extend(y);
				x
			});
		let n = (acts.len() * acts.len()) as u64;
		h.run.enum_block("Action/pairs", n, outcomes.len() as u64, true, serde_json::json!("Buy(200),Sell(100)"), sink.into_violations());
	}
	// triples: transitivity of == and <=
	{
		let sink = VioSink::new(SYS);
		let n = acts.len();
		let eq: Vec<Vec<bool>> = acts.iter().map(|a| acts.iter().map(|b| a == b).collect()).collect();
		let le: Vec<Vec<bool>> = acts.iter().map(|a| acts.iter().map(|b| a <= b).collect()).collect();
		(0..n).into_par_iter().for_each(|i| {
			for j in 0..n {
				let (eij, lij) = (eq[i][j], le[i][j]);
				if !eij && !lij {
					continue;
				}
				for k in 0..n {
					if eij && eq[j][k] && !eq[i][k] {
						sink.push("eq/transitivity", format!("{},{},{}", show(acts[i]), show(acts[j]), show(acts[k])), String::new());
					}
					if lij && le[j][k] && !le[i][k] {
						sink.push("le/transitivity", format!("{},{},{}", show(acts[i]), show(acts[j]), show(acts[k])), String::new());
					}
				}
			}
		});
		let n3 = (n * n * n) as u64;
		h.run.enum_block("Action/triples", n3, (n * n) as u64, true, serde_json::json!("Buy(0),Sell(0),None"), sink.into_violations());
	}
	// i8, Option<i8>, bool
	{
		let sink = VioSink::new(SYS);
		let mut prev = i32::MIN;
		for v in i8::MIN..=i8::MAX {
			let a = Action::from(v);
			let want = match v.signum() {
				0 => None,
				1 => Some(255),
				_ => Some(-255),
			};
			if model(a) != want {
				sink.push("from-i8/value", format!("i8:{v}"), format!("from({v}) = {}", show(a)));
			}
			if a.analog() != v.signum() {
				sink.push("from-i8/analog-roundtrip", format!("i8:{v}"), String::new());
			}
			if !same(Action::from_analog(v), a) || !same(Action::from(Some(v)), a) {
				sink.push("from-i8/variants-disagree", format!("i8:{v}"), String::new());
			}
			let k = model(a).unwrap_or(0);
			if k < prev {
				sink.push("from-i8/monotone", format!("i8:{v}"), String::new());
			}
			prev = k;
			let oi: Option<i8> = a.into();
			if oi != if v == 0 { None } else { Some(v.signum()) } {
				sink.push("into-option-i8", format!("i8:{v}"), String::new());
			}
		}
		if !same(Action::from(true), Action::BUY_ALL) || !Action::from(false).is_none() {
			sink.push("from-bool", "bool".into(), String::new());
		}
		h.run.enum_block("Action/from-i8", 256 + 2, 3, true, serde_json::json!("i8:-7 -> Sell(255)"), sink.into_violations());
	}
	f32_block(&mut h, thorough);
	f64_block(&mut h);
	h.run.assume("the f32 product |v|*255 is exact in f64, so the integer rounding model is exact for every f32 input");
	h.finish();
}
