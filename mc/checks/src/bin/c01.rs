//! C01 — Window is a faithful fixed-capacity FIFO for every size, phase and history.
//!
//! Product state: real `Window<u32>` x `VecDeque<u32>` of labels (oldest..newest).
//! Labels are push ordinals, so every element is distinct from every other pushed
//! element (the construction value is label 0, repeated N times). The only action is
//! `push(next label)`; *every observer* is evaluated in every reached state, on the
//! window itself and on the windows rebuilt from `as_slice()` + oldest-index and
//! through serde.

use checks::*;
use std::collections::VecDeque;
use yata::core::Window;

type P = PeriodType;

#[derive(Clone, Copy, Debug, PartialEq)]
enum Ctor {
	New,
	Empty,
	Default,
	FromVec,
	FromBox,
	FromParts(usize),
}

#[derive(Clone)]
struct St {
	w: Window<u32>,
	m: VecDeque<u32>,
	next: u32,
	observed: bool,
}

struct WinSys {
	ns: Vec<usize>,
	full_splits_upto: usize,
	pushes: fn(usize) -> u32,
	tag: String,
}

fn splits(n: usize, full: bool, phase: usize) -> Vec<usize> {
	if full {
		(0..=n + 1).collect()
	} else {
		let mut v = vec![0, 1, 2, n.saturating_sub(1), n, n + 1];
		let ph = if n > 0 { phase % n } else { 0 };
		v.extend_from_slice(&[ph.saturating_sub(1), ph, ph + 1, n.saturating_sub(ph), n.saturating_sub(ph) + 1, n / 2]);
		v.retain(|&k| k <= n + 1);
		v.sort_unstable();
		v.dedup();
		v
	}
}

/// Runs every observer of `w` against the model. Returns the first disagreement.
fn observe(w: &Window<u32>, m: &VecDeque<u32>, full: bool, phase: usize, who: &str) -> Result<u64, Failure> {
	let n = m.len();
	let mut obs = 0u64;
	let fail = |o: &str, class: &str, d: String| Failure::new(format!("{who}{o}/{class}"), d);
	// len / is_empty
	if w.len() as usize != n {
		return Err(fail("len", "wrong", format!("len() = {} for capacity {n}", w.len())));
	}
	if w.is_empty() != (n == 0) {
		return Err(fail("is_empty", "wrong", format!("is_empty() = {} for capacity {n}", w.is_empty())));
	}
	obs += 2;
	// as_slice / AsRef as multisets
	for (nm, s) in [("as_slice", w.as_slice()), ("as_ref", w.as_ref())] {
		let mut a: Vec<u32> = s.to_vec();
		let mut b: Vec<u32> = m.iter().copied().collect();
		a.sort_unstable();
		b.sort_unstable();
		if a != b {
			return Err(fail(nm, "multiset", format!("{nm}() holds {a:?}, window represents {b:?}")));
		}
		obs += 1;
	}
	// newest / oldest
	for (nm, want) in [("newest", m.back().copied()), ("oldest", m.front().copied())] {
		let got = catch(|| if nm == "newest" { *w.newest() } else { *w.oldest() });
		obs += 1;
		match (want, got) {
			(Some(x), Ok(y)) if x == y => {}
			(Some(x), Ok(y)) => return Err(fail(nm, "wrong-element", format!("{nm}() = {y}, expected {x}; model {m:?}"))),
			(Some(x), Err(p)) => return Err(fail(nm, "panic", format!("{nm}() panicked ({}) expected {x}", p.msg))),
			(None, Ok(y)) => return Err(fail(nm, "empty-yields-element", format!("{nm}() = {y} on an empty window"))),
			(None, Err(_)) => {}
		}
	}
	// get(i) / Index for every i
	let maxp = P::MAX as u64;
	let mut idxs: Vec<u64> = (0..=(n as u64 + 300).min(maxp)).collect();
	if full || n < 8 {
		// all 256 values of the default PeriodType; wider types: a band above n plus the extremes
		if maxp <= 255 {
			idxs = (0..=maxp).collect();
		}
	}
	for x in [maxp, maxp - 1, maxp / 2, maxp / 2 + 1] {
		if !idxs.contains(&x) {
			idxs.push(x);
		}
	}
	for i in idxs {
		let want = if (i as usize) < n { Some(m[n - 1 - i as usize]) } else { None };
		let got = w.get(i as P).copied();
		obs += 1;
		if got != want {
			let class = if want.is_none() { "out-of-range-yields-element" } else { "wrong-element" };
			return Err(fail("get", class, format!("get({i}) = {got:?}, expected {want:?}; capacity {n}, model {m:?}")));
		}
		// out-of-range Index panics by documentation; each panic is slow, so away from the
		// boundary it is exercised for every i only in the full mode
		if !full && (i as usize) > n + 2 && i < maxp - 1 {
			continue;
		}
		let goti = catch(|| w[i as P]);
		obs += 1;
		match (want, goti) {
			(Some(x), Ok(y)) if x == y => {}
			(None, Err(_)) => {}
			(Some(x), Ok(y)) => return Err(fail("index", "wrong-element", format!("w[{i}] = {y}, expected {x}; capacity {n}"))),
			(Some(x), Err(p)) => return Err(fail("index", "panic", format!("w[{i}] panicked ({}), expected {x}", p.msg))),
			(None, Ok(y)) => return Err(fail("index", "out-of-range-yields-element", format!("w[{i}] = {y}, capacity {n}"))),
		}
	}
	// iterators
	let newest_first: Vec<u32> = m.iter().rev().copied().collect();
	let oldest_first: Vec<u32> = m.iter().copied().collect();
	let got: Vec<u32> = w.iter().copied().collect();
	if got != newest_first {
		return Err(fail("iter", "sequence", format!("iter() = {got:?}, expected {newest_first:?}")));
	}
	let got: Vec<u32> = w.iter_rev().copied().collect();
	if got != oldest_first {
		return Err(fail("iter_rev", "sequence", format!("iter_rev() = {got:?}, expected {oldest_first:?}")));
	}
	let got: Vec<u32> = (&*w).into_iter().copied().collect();
	if got != newest_first {
		return Err(fail("into_iter", "sequence", format!("into_iter() = {got:?}, expected {newest_first:?}")));
	}
	obs += 3;
	for k in splits(n, full, phase) {
		for rev in [false, true] {
			let nm = if rev { "iter_rev" } else { "iter" };
			let want_seq = if rev { &oldest_first } else { &newest_first };
			let rest = n.saturating_sub(k);
			let consumed_class = if n == 0 {
				"empty-window"
			} else if k >= n {
				"fully-consumed"
			} else if k == 0 {
				"fresh"
			} else {
				"partially-consumed"
			};
			// a fresh iterator advanced k times
			macro_rules! mk {
				() => {{
					let mut it: Box<dyn ExactSizeIterator<Item = &u32>> = if rev { Box::new(w.iter_rev()) } else { Box::new(w.iter()) };
					for j in 0..k {
						let g = it.next().copied();
						let wv = want_seq.get(j).copied();
						if g != wv {
							return Err(fail(nm, &format!("next/{consumed_class}"), format!("{nm}() item {j} = {g:?}, expected {wv:?}")));
						}
					}
					it
				}};
			}
			let it = mk!();
			if it.size_hint() != (rest, Some(rest)) {
				return Err(fail(nm, &format!("size_hint/{consumed_class}"), format!("after {k} of {n}: size_hint {:?}, expected ({rest}, Some({rest}))", it.size_hint())));
			}
			if it.len() != rest {
				return Err(fail(nm, &format!("len/{consumed_class}"), format!("after {k} of {n}: len {}, expected {rest}", it.len())));
			}
			// the inherent (overridden) count / last need the concrete types
			let (cnt, last, remaining, fused) = if rev {
				let mut a = w.iter_rev();
				for _ in 0..k {
					a.next();
				}
				let mut b = w.iter_rev();
				for _ in 0..k {
					b.next();
				}
				let mut c = w.iter_rev();
				for _ in 0..k {
					c.next();
				}
				let rem: Vec<u32> = c.by_ref().copied().collect();
				let fused = c.next().is_none() && c.next().is_none() && c.size_hint() == (0, Some(0));
				(a.count(), catch(move || b.last().copied()), rem, fused)
			} else {
				let mut a = w.iter();
				for _ in 0..k {
					a.next();
				}
				let mut b = w.iter();
				for _ in 0..k {
					b.next();
				}
				let mut c = w.iter();
				for _ in 0..k {
					c.next();
				}
				let rem: Vec<u32> = c.by_ref().copied().collect();
				let fused = c.next().is_none() && c.next().is_none() && c.size_hint() == (0, Some(0));
				(a.count(), catch(move || b.last().copied()), rem, fused)
			};
			// overridable consuming methods on the concrete types, after k calls of next()
			macro_rules! advanced {
				() => {{
					macro_rules! go {
						($mk:expr) => {{
							let d = || {
								let mut d = $mk;
								for _ in 0..k {
									d.next();
								}
								d
							};
							(d().fold(Vec::new(), |mut v, x| { v.push(*x); v }), d().nth(1).copied(), d().skip(1).map(|x| *x as u64).sum::<u64>(), d().copied().collect::<Vec<u32>>(), d().position(|x| Some(*x) == want_seq.last().copied()), d().max().copied())
						}};
					}
					if rev {
						go!(w.iter_rev())
					} else {
						go!(w.iter())
					}
				}};
			}
			// nth / skip far beyond the end, around the capacity of PeriodType and of 16 bits (an index
			// narrowed before it is compared would wrap back into range)
			if k <= 1 || k + 1 >= n || k == n / 2 {
				let want_rem: Vec<u32> = want_seq.iter().skip(k).copied().collect();
				let r = want_rem.len();
				for j in [0usize, 1, r.saturating_sub(1), r, r + 1, 254, 255, 256, 257, 256 + r.saturating_sub(1), 511, 512, 65535, 65536, 65536 + r.saturating_sub(1), usize::MAX] {
					let (got_nth, got_skip) = if rev {
						let mut d = w.iter_rev();
						for _ in 0..k {
							d.next();
						}
						let mut e = w.iter_rev();
						for _ in 0..k {
							e.next();
						}
						(d.nth(j).copied(), e.skip(j).next().copied())
					} else {
						let mut d = w.iter();
						for _ in 0..k {
							d.next();
						}
						let mut e = w.iter();
						for _ in 0..k {
							e.next();
						}
						(d.nth(j).copied(), e.skip(j).next().copied())
					};
					let want = want_rem.get(j).copied();
					if got_nth != want || got_skip != want {
						return Err(fail(nm, &format!("nth/{consumed_class}"), format!("after {k} of {n}: nth({j}) = {got_nth:?}, skip({j}).next() = {got_skip:?}, expected {want:?}")));
					}
				}
				obs += 32;
			}
			let (folded, nth1, sum1, collected, pos_last, mx) = advanced!();
			{
				let want_rem: Vec<u32> = want_seq.iter().skip(k).copied().collect();
				let ok = folded == want_rem
					&& collected == want_rem
					&& nth1 == want_rem.get(1).copied()
					&& sum1 == want_rem.iter().skip(1).map(|x| *x as u64).sum::<u64>()
					&& mx == want_rem.iter().max().copied()
					&& pos_last == want_rem.iter().position(|x| Some(*x) == want_seq.last().copied());
				if !ok {
					return Err(fail(nm, &format!("adaptors/{consumed_class}"), format!("after {k} of {n}: fold {folded:?} collect {collected:?} nth(1) {nth1:?} skip(1).sum {sum1} position(last) {pos_last:?} max {mx:?}; remaining elements are {want_rem:?}")));
				}
			}
			obs += 12;
			if cnt != rest {
				return Err(fail(nm, &format!("count/{consumed_class}"), format!("after {k} of {n}: count {cnt}, expected {rest}")));
			}
			let want_rem: Vec<u32> = want_seq.iter().skip(k).copied().collect();
			if remaining != want_rem {
				return Err(fail(nm, &format!("remaining/{consumed_class}"), format!("after {k} of {n}: rest {remaining:?}, expected {want_rem:?}")));
			}
			if !fused {
				return Err(fail(nm, &format!("fused/{consumed_class}"), format!("after exhaustion of {n}: iterator yields again")));
			}
			let want_last = want_rem.last().copied();
			match last {
				Ok(l) if l == want_last => {}
				Ok(l) => return Err(fail(nm, &format!("last/{consumed_class}"), format!("after {k} of {n}: last() = {l:?}, expected {want_last:?}"))),
				Err(p) => {
					if want_last.is_some() || n > 0 {
						return Err(fail(nm, &format!("last/{consumed_class}/panic"), format!("after {k} of {n}: last() panicked: {}", p.msg)));
					}
					// empty window: a panic is admissible ("never yields an element")
				}
			}
		}
	}
	Ok(obs)
}

fn serialized_index(w: &Window<u32>) -> Result<(Vec<u32>, u64), String> {
	let v = serde_json::to_value(w).map_err(|e| e.to_string())?;
	let buf: Vec<u32> = v["buf"].as_array().ok_or("no buf")?.iter().map(|x| x.as_u64().unwrap() as u32).collect();
	let idx = v["index"].as_u64().ok_or("no index")?;
	Ok((buf, idx))
}

impl System for WinSys {
	type State = St;
	type Act = u32;
	fn name(&self) -> String {
		format!("Window/{}", self.tag)
	}
	fn inits(&self) -> Vec<(St, String)> {
		let mut v = Vec::new();
		for &n in &self.ns {
			let mut ctors = vec![Ctor::New];
			if n == 0 {
				ctors = vec![Ctor::New, Ctor::Empty, Ctor::Default];
			} else {
				ctors.push(Ctor::FromVec);
				ctors.push(Ctor::FromBox);
				let is: Vec<usize> = if n <= self.full_splits_upto { (0..n).collect() } else { vec![0, 1, n / 2, n - 1] };
				let mut is = is;
				is.retain(|&i| i < n);
				is.dedup();
				for i in is {
					ctors.push(Ctor::FromParts(i));
				}
			}
			for c in ctors {
				// labels of a pre-filled buffer: 1000+j
				let labels: Vec<u32> = (0..n as u32).map(|j| 1000 + j).collect();
				let (w, m): (Window<u32>, VecDeque<u32>) = match c {
					Ctor::New => (Window::new(n as P, 0), std::iter::repeat(0).take(n).collect()),
					Ctor::Empty => (Window::empty(), VecDeque::new()),
					Ctor::Default => (Window::default(), VecDeque::new()),
					Ctor::FromVec => (Window::from(labels.clone()), labels.iter().copied().collect()),
					Ctor::FromBox => (Window::from(labels.clone().into_boxed_slice()), labels.iter().copied().collect()),
					Ctor::FromParts(i) => {
						let mut m: VecDeque<u32> = labels.iter().copied().collect();
						m.rotate_left(i);
						(Window::from_parts(labels.clone().into_boxed_slice(), i as P), m)
					}
				};
				v.push((St { w, m, next: 1, observed: false }, format!("N={n} {c:?}")));
			}
		}
		v
	}
	fn actions(&self, s: &St, depth: u32) -> Vec<(u32, u8)> {
		let n = s.m.len();
		if depth == 0 {
			return vec![(0, 0)]; // action 0: observe the freshly constructed window
		}
		if n == 0 {
			return if depth == 1 { vec![(u32::MAX, 0)] } else { vec![] }; // push on empty: must panic
		}
		if depth > (self.pushes)(n) {
			return vec![];
		}
		vec![(s.next, 0)]
	}
	fn show_act(&self, a: &u32) -> String {
		match *a {
			0 => "observe".into(),
			u32::MAX => "push-on-empty".into(),
			x => format!("push({x})"),
		}
	}
	fn key(&self, s: &St) -> Option<u128> {
		Some(hash128_str(&format!("{:?}|{:?}|{}", s.w, s.m, s.observed)))
	}
	fn step(&self, s: &St, a: &u32) -> Step<St> {
		let mut n = s.clone();
		n.observed = true;
		let cap = n.m.len();
		if *a == u32::MAX {
			// documented: push panics on an empty window (debug assertion / index out of bounds)
			let mut w = n.w.clone();
			return match catch(move || w.push(7)) {
				Err(_) => Step::Next(n),
				Ok(v) => Step::Violation(Failure::new("push/empty-yields-element", format!("push on an empty window returned {v}"))),
			};
		}
		if *a != 0 {
			let want = n.m.pop_front().unwrap();
			n.m.push_back(*a);
			let got = n.w.push(*a);
			n.next += 1;
			if got != want {
				return Step::Violation(Failure::new("push/return", format!("push({a}) returned {got}, expected {want} (capacity {cap})")));
			}
		}
		let full = cap <= self.full_splits_upto;
		let phase = (n.next as usize).wrapping_sub(1);
		if let Err(f) = observe(&n.w, &n.m, full, phase, "") {
			return Step::Violation(f);
		}
		// copies: clone(), and clone_from() into targets of the SAME capacity at other rotation phases and of
		// other capacities (a hand-written clone_from that re-uses the target's buffer must take over the cursor too)
		{
			if cap <= 16 || phase % 5 == 0 {
				let c = n.w.clone();
				if let Err(f) = observe(&c, &n.m, false, phase, "copy:clone:") {
					return Step::Violation(f);
				}
			}
			// every target for small capacities; for the larger ones two same-capacity targets at every 5th phase
			let targets: Vec<(usize, usize)> = if cap <= 16 {
				vec![(cap, 0), (cap, 1), (cap, cap / 2), (cap, cap.saturating_sub(1)), (cap + 1, 1), (cap.saturating_sub(1), 0), (0, 0)]
			} else if phase % 5 == 0 || phase + 2 >= 2 * cap {
				vec![(cap, 1), (cap, cap / 2)]
			} else {
				vec![]
			};
			for (tc, pushes) in targets {
				if tc > PeriodType::MAX as usize - 1 {
					continue;
				}
				let mut t: Window<u32> = Window::new(tc as P, 9_000_000);
				for j in 0..pushes.min(if tc == 0 { 0 } else { usize::MAX }) {
					t.push(9_000_001 + j as u32);
				}
				t.clone_from(&n.w);
				if let Err(f) = observe(&t, &n.m, false, phase, "copy:clone_from:") {
					return Step::Violation(f);
				}
				// and the copy goes on like the original
				if cap > 0 {
					let mut o = n.w.clone();
					let (a1, a2) = (o.push(77), t.push(77));
					if a1 != a2 || o.iter().collect::<Vec<_>>() != t.iter().collect::<Vec<_>>() {
						return Step::Violation(Failure::new("copy:clone_from:push", format!("after clone_from into a window of capacity {tc} ({pushes} pushes): push returned {a2} (original {a1}), contents {:?} vs {:?}", t.iter().collect::<Vec<_>>(), o.iter().collect::<Vec<_>>())));
					}
				}
			}
		}
		// rebuilds
		match serialized_index(&n.w) {
			Err(e) => return Step::Violation(Failure::new("serialize/error", e)),
			Ok((buf, idx)) => {
				if buf != n.w.as_slice() {
					return Step::Violation(Failure::new("serialize/buf", format!("serialized buf {buf:?} != as_slice {:?}", n.w.as_slice())));
				}
				if cap > 0 {
					let r = catch(|| Window::from_parts(n.w.as_slice().to_vec().into_boxed_slice(), idx as P));
					match r {
						Err(p) => return Step::Violation(Failure::new("from_parts/panic", format!("from_parts(as_slice, {idx}) panicked: {}", p.msg))),
						Ok(w2) => {
							if let Err(f) = observe(&w2, &n.m, false, phase, "rebuilt:from_parts:") {
								return Step::Violation(f);
							}
						}
					}
				}
				let text = serde_json::to_string(&n.w).unwrap();
				match catch(|| serde_json::from_str::<Window<u32>>(&text)) {
					Err(p) => return Step::Violation(Failure::new("deserialize/panic", format!("deserializing {text} panicked: {}", p.msg))),
					Ok(Err(e)) => {
						let class = if cap == 0 { "empty-window" } else { "nonempty-window" };
						return Step::ViolationContinue(
							n,
							Failure::new(format!("serde-roundtrip/rejected/{class}"), format!("own serialization {text} rejected: {e}")),
						);
					}
					Ok(Ok(w3)) => {
						if let Err(f) = observe(&w3, &n.m, false, phase, "rebuilt:serde:") {
							return Step::Violation(f);
						}
					}
				}
			}
		}
		Step::Next(n)
	}
}

/// adversarial serialized forms: Err, or a window consistent with the FIFO model; never a panic
fn adversarial(h: &mut H) {
	let mut cases = 0u64;
	let mut distinct = std::collections::BTreeSet::new();
	let mut vios = vec![];
	let maxp = P::MAX as u64;
	let lens: Vec<u64> = vec![0, 1, 2, 3, maxp - 2, maxp - 1, maxp, maxp.saturating_add(1), maxp.saturating_add(45)];
	let lens: Vec<u64> = lens.into_iter().filter(|&l| l <= 70_000).collect();
	for &l in &lens {
		let buf: Vec<u32> = (0..l as u32).map(|j| 1000 + j).collect();
		let mut idxs = vec![0u64, 1, l.saturating_sub(1), l, l + 1, maxp - 1, maxp, maxp.saturating_add(1), u64::MAX];
		idxs.sort_unstable();
		idxs.dedup();
		for i in idxs {
			cases += 1;
			let text = format!("{{\"buf\":{},\"index\":{}}}", serde_json::to_string(&buf).unwrap(), i);
			let case = format!("len={l} index={i}");
			let r = catch(|| serde_json::from_str::<Window<u32>>(&text));
			// what the documentation admits, plus the serialized form of `Window::empty()`
			let valid = (l < maxp && i < l) || (l == 0 && i == 0);
			let f = match r {
				Err(p) => Some(Failure::new("deserialize/adversarial/panic", format!("{case}: panicked: {}", p.msg))),
				Ok(Err(_)) => {
					distinct.insert(format!("err:{}:{}", l.min(4).max(if l >= maxp { 9 } else { 0 }), (i >= l) as u8));
					if valid {
						Some(Failure::new("deserialize/adversarial/rejected-valid", format!("{case}: a valid form was rejected")))
					} else {
						None
					}
				}
				Ok(Ok(w)) => {
					distinct.insert(format!("ok:{}:{}", l.min(4), i.min(4)));
					if !valid {
						Some(Failure::new("deserialize/adversarial/accepted-invalid", format!("{case}: accepted, window {:?}", (w.len(), w.as_slice().len()))))
					} else {
						let mut m: VecDeque<u32> = buf.iter().copied().collect();
						if l > 0 {
							m.rotate_left(i as usize);
						}
						observe(&w, &m, false, 0, "adversarial:").err()
					}
				}
			};
			if let Some(f) = f {
				vios.push(Violation { system: "Window/adversarial-serde".into(), init: "-".into(), path: vec![case], failure: f, deviations: 0 });
			}
		}
	}
	// from_parts documented panics: len >= MAX or index >= len -> panic, never a mis-read
	for &l in &lens {
		for i in [0u64, l.saturating_sub(1), l, maxp] {
			if i > maxp {
				continue;
			}
			cases += 1;
			let buf: Vec<u32> = (0..l as u32).map(|j| 1000 + j).collect();
			let valid = l < maxp && i < l;
			let r = catch(|| Window::from_parts(buf.clone().into_boxed_slice(), i as P));
			let case = format!("from_parts len={l} index={i}");
			match r {
				Err(_) if !valid => {
					distinct.insert(format!("fp-panic:{}", (l >= maxp) as u8));
				}
				Err(p) => vios.push(Violation { system: "Window/adversarial-serde".into(), init: "-".into(), path: vec![case.clone()], failure: Failure::new("from_parts/panic-on-valid", format!("{case}: {}", p.msg)), deviations: 0 }),
				Ok(w) => {
					distinct.insert(format!("fp-ok:{}", l.min(4)));
					let mut m: VecDeque<u32> = buf.iter().copied().collect();
					if l > 0 {
						m.rotate_left((i as usize) % l as usize);
					}
					let f = if !valid { Some(Failure::new("from_parts/accepted-invalid", format!("{case}: accepted"))) } else { observe(&w, &m, false, 0, "from_parts:").err() };
					if let Some(f) = f {
						vios.push(Violation { system: "Window/adversarial-serde".into(), init: "-".into(), path: vec![case], failure: f, deviations: 0 });
					}
				}
			}
		}
	}
	h.run.enum_block("Window/adversarial-serde", cases, distinct.len() as u64, true, serde_json::json!({"form": "{\"buf\":[..len L..],\"index\":I}", "L": lens}), vios);
}

fn main() {
	let mut h = H::start("C01");
	let thorough = h.thorough();
	let maxn = (P::MAX as usize - 1).min(if thorough { 254 } else { 254 });
	// wide period types: a few capacities beyond 255 (C20 re-runs this binary)
	let mut ns: Vec<usize> = (0..=maxn).collect();
	if P::MAX as u64 > 255 {
		ns.extend_from_slice(&[255, 256, 257, 300, 1000]);
		if thorough {
			ns.push(4096);
		}
	}
	if std::env::var("VERIF_WIDE").as_deref() == Ok("1") {
		// C20 quick re-run inside a feature build: a spread of capacities plus those beyond 255
		ns.retain(|n| *n <= 16 || [100, 127, 128, 253, 254].contains(n) || *n >= 255);
	}
	// (every split for every capacity took 40 minutes in the thorough tier; every split up to 128, boundary splits above)
	let full_upto = if thorough { 128 } else { 40 };
	// one system per group of capacities so the evidence shows the breakdown
	for (tag, lo, hi) in [("N=0..=8", 0usize, 8usize), ("N=9..=40", 9, 40), ("N=41..=128", 41, 128), ("N=129..=254", 129, 254), ("N>=255", 255, usize::MAX)] {
		let sel: Vec<usize> = ns.iter().copied().filter(|&n| n >= lo && n <= hi).collect();
		if sel.is_empty() {
			continue;
		}
		let sys = WinSys { ns: sel, full_splits_upto: full_upto, pushes: |n| (2 * n + 2) as u32, tag: tag.to_string() };
		h.go(&sys, &Limits::closure().states(50_000_000), false);
	}
	if !h.is_replay() {
		adversarial(&mut h);
		h.run.note("capacities", serde_json::json!(format!("0..={maxn} (PeriodType = u{})", PERIOD_BITS)));
		h.run.note("pushes_per_capacity", serde_json::json!("2N+2 (every rotation phase twice, every fill level)"));
		h.run.note("iterator_splits", serde_json::json!(format!("every k in 0..=N+1 for N <= {full_upto}; boundary + phase-relative splits above")));
		h.run.assume("parametricity: Window<T> only requires T: Clone, so distinct u32 labels stand for all element types and values");
	}
	h.finish();
}
