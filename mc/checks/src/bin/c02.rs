//! C02 — sliding-window numeric methods equal their from-scratch definition.

use checks::mvr::*;
use checks::subj::*;
use checks::*;
use refmodel::methods as rm;

fn n_of(p: &Params) -> usize {
	match p {
		Params::N(n) => *n as usize,
		Params::W(w) => w.len(),
		_ => 1,
	}
}

fn mk_ref(name: &'static str) -> fn(&Params, &In) -> Box<dyn RefAny> {
	macro_rules! r {
		($e:expr) => {
			|p: &Params, i: &In| {
				let n = n_of(p);
				let v0 = i.v() as f64;
				let _ = (n, v0);
				let f: fn(usize, f64) -> Box<dyn RefAny> = $e;
				f(n, v0)
			}
		};
	}
	match name {
		"SMA" => r!(|n, v| vv(rm::sma(n, v))),
		"WMA" => r!(|n, v| vv(rm::wma(n, v))),
		"SWMA" => r!(|n, v| vv(rm::swma(n, v))),
		"TRIMA" => r!(|n, v| vv(rm::Trima::new(n, v))),
		"HMA" => r!(|n, v| vv(rm::Hma::new(n, v))),
		"LinReg" => r!(|n, v| vv(rm::lin_reg(n, v))),
		"Integral" => r!(|n, v| vv(rm::Win::new(rm::WinKind::Integral, n, v))),
		"Derivative" => r!(|n, v| vv(rm::Win::new(rm::WinKind::Derivative, n, v))),
		"Momentum" => r!(|n, v| vv(rm::Win::new(rm::WinKind::Momentum, n, v))),
		"RateOfChange" => r!(|n, v| vv(rm::Win::new(rm::WinKind::Roc, n, v))),
		"Past" => r!(|n, v| vv(rm::Win::new(rm::WinKind::Past, n, v))),
		"StDev" => r!(|n, v| Box::new(VVRef { r: Box::new(rm::Win::new(rm::WinKind::Variance, n, v)), sq: true })),
		"MeanAbsDev" => r!(|n, v| vv(rm::Win::new(rm::WinKind::MeanAbsDev, n, v))),
		"MedianAbsDev" => r!(|n, v| vv(rm::Win::new(rm::WinKind::MedianAbsDev, n, v))),
		"CCI" => r!(|n, v| vv(rm::Win::new(rm::WinKind::Cci, n, v))),
		"LinearVolatility" => r!(|n, v| vv(rm::Win::new(rm::WinKind::LinVol, n, v))),
		"Conv" => |p: &Params, i: &In| {
			let Params::W(w) = p else { unreachable!() };
			vv(rm::conv(w.iter().map(|x| *x as f64).collect(), i.v() as f64))
		},
		"VWMA" => |p: &Params, i: &In| {
			let In::P(a, b) = i else { unreachable!() };
			Box::new(VwmaRef(rm::Vwma::new(n_of(p), *a as f64, *b as f64)))
		},
		"ADI" => |p: &Params, i: &In| {
			let In::C(c) = i else { unreachable!() };
			Box::new(AdiRef(rm::Adi::new(n_of(p), &rc(c))))
		},
		_ => panic!("no reference for {name}"),
	}
}

fn rc(c: &yata::core::Candle) -> rm::RC {
	rm::RC { o: c.open as f64, h: c.high as f64, l: c.low as f64, c: c.close as f64, v: c.volume as f64 }
}

#[derive(Clone)]
struct VwmaRef(rm::Vwma);
impl RefAny for VwmaRef {
	fn next(&mut self, i: &In) -> (Expect, &'static str) {
		let In::P(a, b) = i else { unreachable!() };
		(Expect::Q(self.0.step(*a as f64, *b as f64)), "value")
	}
	fn box_clone(&self) -> Box<dyn RefAny> {
		Box::new(self.clone())
	}
}
#[derive(Clone)]
struct AdiRef(rm::Adi);
impl RefAny for AdiRef {
	fn next(&mut self, i: &In) -> (Expect, &'static str) {
		let In::C(c) = i else { unreachable!() };
		(Expect::Q(self.0.step(&rc(c))), "value")
	}
	fn box_clone(&self) -> Box<dyn RefAny> {
		Box::new(self.clone())
	}
}

const VV_SUBJECTS: [&str; 16] = ["SMA", "WMA", "SWMA", "TRIMA", "HMA", "LinReg", "Integral", "Derivative", "Momentum", "RateOfChange", "Past", "StDev", "MeanAbsDev", "MedianAbsDev", "CCI", "LinearVolatility"];

fn vals(v: &[ValueType]) -> Vec<In> {
	v.iter().map(|x| In::V(*x)).collect()
}

fn boundary_positions(n: usize) -> Vec<u32> {
	let n = n as u32;
	let mut v = vec![0, 1, 2, n.saturating_sub(1), n, n + 1];
	v.sort_unstable();
	v.dedup();
	v
}

fn candles() -> Vec<In> {
	use yata::core::Candle;
	let c = |o: f64, h: f64, l: f64, c: f64, v: f64| In::C(Candle { open: o as ValueType, high: h as ValueType, low: l as ValueType, close: c as ValueType, volume: v as ValueType });
	vec![c(10., 10., 10., 10., 8.), c(10., 12., 9., 11., 16.), c(11., 12., 8., 9., 4.), c(20., 24., 18., 22., 0.), c(11., 13., 9., 11., 32.)]
}

fn main() {
	refmodel::set_eps(eps());
	refmodel::set_floor(ValueType::MIN_POSITIVE as f64);
	let mut h = H::start("C02");
	let thorough = h.thorough();
	if let Err(e) = registry_complete() {
		h.run.machinery_error(e);
	}
	let maxn = (PeriodType::MAX as usize - 1).min(254);
	let arith = alpha::v_arith();
	let arith4: Vec<ValueType> = arith[..4].to_vec();
	for name in VV_SUBJECTS {
		let min = spec(name).min_len.max(1) as usize;
		// (a) every sequence up to a depth over the exact-arithmetic alphabet, small lengths
		let ns: Vec<usize> = if thorough { (min..=6).collect() } else { (min..=4).collect() };
		for n in ns {
			let depth = if thorough { (2 * n + 4).min(9) } else { (2 * n + 3).min(8) } as u32;
			let sys = MSys {
				name: format!("{name}/depth/n={n}"),
				spec: spec(name),
				params: vec![Params::N(n as PeriodType)],
				v0s: vals(if thorough { &arith } else { &arith4 }),
				alphabet: vals(if thorough { &arith } else { &arith4 }),
				mk_ref: mk_ref(name),
				shape: Shape::Free,
				span: n_of,
				keyed: false,
				positions: None,
				check_peek: true,
				extra: None,
			};
			h.go(&sys, &Limits::depth(depth).wall_secs(if thorough { 120 } else { 20 }), true);
		}
		// rounding-active alphabet (non-dyadic)
		{
			let n = 3.max(min);
			let sys = MSys {
				name: format!("{name}/depth-round/n={n}"),
				spec: spec(name),
				params: vec![Params::N(n as PeriodType)],
				v0s: vals(&alpha::v_round3()[..1]),
				alphabet: vals(&if thorough { alpha::v_round() } else { alpha::v_round3() }),
				mk_ref: mk_ref(name),
				shape: Shape::Free,
				span: n_of,
				keyed: false,
				positions: None,
				check_peek: true,
				extra: None,
			};
			h.go(&sys, &Limits::depth(if thorough { 8 } else { 8 }).wall_secs(60), true);
		}
		// tiny units: the definitions are homogeneous (or dimensionless), guards written as `> 0` must not
		// act as absolute thresholds
		{
			let n = 3.max(min);
			let t = (2.0f64).powi(if IS_F32 { -40 } else { -60 }) as ValueType;
			let sys = MSys {
				name: format!("{name}/depth/tiny-units/n={n}"),
				spec: spec(name),
				params: vec![Params::N(n as PeriodType)],
				v0s: vals(&[0.0, t]),
				alphabet: vals(&[0.0, t, -3.0 * t, 2.0 * t]),
				mk_ref: mk_ref(name),
				shape: Shape::Free,
				span: n_of,
				keyed: false,
				positions: None,
				check_peek: true,
				extra: None,
			};
			h.go(&sys, &Limits::depth(if thorough { 8 } else { 6 }).wall_secs(60), true);
		}
		// both zeros and mixed signs (order statistics and guards must compare numerically, not by bits)
		{
			let n = 3.max(min);
			let sys = MSys {
				name: format!("{name}/depth/signed-zeros/n={n}"),
				spec: spec(name),
				params: vec![Params::N(n as PeriodType)],
				v0s: vals(&[1.0, 0.0]),
				alphabet: vals(&[0.0, -0.0, 1.0, -5.0]),
				mk_ref: mk_ref(name),
				shape: Shape::Free,
				span: n_of,
				keyed: false,
				positions: None,
				check_peek: true,
				extra: None,
			};
			h.go(&sys, &Limits::depth(if thorough { 8 } else { 6 }).wall_secs(60), true);
		}
		// (b0) every length, a flat stream with one BURST (compensated bumps, zero-sum pairs, ramps, plateaus):
		// every position for the lengths up to 32, the positions around the window ends and its middle above
		{
			let mut ns: Vec<usize> = (min..=maxn).collect();
			if std::env::var("VERIF_WIDE").as_deref() == Ok("1") {
				ns.retain(|n| *n <= 16 || [63, 64, 127, 128, 253, 254].contains(n));
			}
			let mk = |ns: Vec<usize>, tag: &str, positions: Option<fn(usize) -> Vec<u32>>| Burst {
				sys: MSys {
					name: format!("{name}/burst/{tag}"),
					spec: spec(name),
					params: ns.iter().map(|n| Params::N(*n as PeriodType)).collect(),
					v0s: vals(&[10.0, -3.0]),
					alphabet: vec![],
					mk_ref: mk_ref(name),
					shape: Shape::Free,
					span: n_of,
					keyed: false,
					positions: None,
					check_peek: true,
					extra: None,
				},
				patterns: burst_patterns(),
				positions,
			};
			let small: Vec<usize> = ns.iter().copied().filter(|n| *n <= if thorough { 64 } else { 24 }).collect();
			if !thorough {
				ns.retain(|n| *n <= 40 || [63, 64, 100, 127, 128, 200, 253, 254].contains(n));
			}
			h.go(&mk(small, "every-position", None), &Limits::deviation(1, 4000).wall_secs(300), true);
			h.go(
				&mk(ns, "positions-around-the-window-ends", Some(|n| {
					let n = n as u32;
					let mut v = vec![0, 1, 2, n / 2 - n.min(2) / 2, n / 2, n / 2 + 1, n.saturating_sub(4), n.saturating_sub(3), n.saturating_sub(2), n.saturating_sub(1), n, n + 1];
					v.sort_unstable();
					v.dedup();
					v
				})),
				&Limits::deviation(1, 4000).wall_secs(300),
				true,
			);
		}
		// (b) every length, flat base with deviations
		let mut ns: Vec<usize> = (min..=maxn).collect();
		if std::env::var("VERIF_WIDE").as_deref() == Ok("1") {
			ns.retain(|n| *n <= 16 || [63, 64, 127, 128, 253, 254].contains(n));
		}
		let sys = Flat(MSys {
			name: format!("{name}/deviation/n={min}..={maxn}"),
			spec: spec(name),
			params: ns.iter().map(|n| Params::N(*n as PeriodType)).collect(),
			v0s: vals(&[1.0, -3.0, 0.0]),
			alphabet: vals(&arith),
			mk_ref: mk_ref(name),
			shape: Shape::Flat,
			span: n_of,
			keyed: false,
			positions: if thorough { None } else { Some(boundary_positions) },
			check_peek: true,
				extra: None,
		});
		h.go(&sys, &Limits::deviation(1, 2 * maxn as u32 + 4).wall_secs(if thorough { 900 } else { 30 }).states(400_000_000), true);
		if thorough {
			let ns2: Vec<usize> = (min..=maxn).filter(|n| *n <= 48 || [63, 64, 127, 128, 253, 254].contains(n)).collect();
			let sys2 = Flat(MSys {
				name: format!("{name}/deviation-2/n<=48+boundary"),
				spec: spec(name),
				params: ns2.iter().map(|n| Params::N(*n as PeriodType)).collect(),
				v0s: vals(&[1.0, -3.0]),
				alphabet: vals(&arith[..4]),
				mk_ref: mk_ref(name),
				shape: Shape::Flat,
				span: n_of,
				keyed: false,
				positions: Some(boundary_positions),
				check_peek: true,
				extra: None,
			});
			h.go(&sys2, &Limits::deviation(2, 2 * maxn as u32 + 4).wall_secs(900).states(400_000_000), true);
		}
	}
	// wide period types (C20): window lengths beyond 255
	if (PeriodType::MAX as u64) > 255 {
		for name in VV_SUBJECTS {
			let mut ns: Vec<usize> = vec![255, 256, 257, 300, 1000];
			if std::env::var("VERIF_WIDE").as_deref() == Ok("2") {
				ns.push(4096);
			}
			let sys = Flat(MSys {
				name: format!("{name}/deviation/wide-lengths"),
				spec: spec(name),
				params: ns.iter().map(|n| Params::N(*n as PeriodType)).collect(),
				v0s: vals(&[1.0]),
				alphabet: vals(&[1.0, -3.0, alpha::big() as ValueType]),
				mk_ref: mk_ref(name),
				shape: Shape::Flat,
				span: n_of,
				keyed: false,
				positions: Some(|n| vec![0, n as u32, n as u32 + 1]),
				check_peek: true,
				extra: None,
			});
			h.go(&sys, &Limits::deviation(1, 9000).wall_secs(120).states(200_000_000), true);
		}
	}
	// (c) Conv: weight vectors
	{
		let ws: [ValueType; 4] = [0.5, 1.0, 2.0, -1.0];
		let mut params = vec![];
		for len in 1..=(if thorough { 4 } else { 3 }) {
			let mut idx = vec![0usize; len];
			loop {
				let w: Vec<ValueType> = idx.iter().map(|i| ws[*i]).collect();
				if w.iter().sum::<ValueType>() != 0.0 {
					params.push(Params::W(w));
				}
				let mut k = 0;
				while k < len {
					idx[k] += 1;
					if idx[k] < ws.len() {
						break;
					}
					idx[k] = 0;
					k += 1;
				}
				if k == len {
					break;
				}
			}
		}
		let sys = MSys {
			name: "Conv/depth/all-weight-vectors".into(),
			spec: spec("Conv"),
			params,
			v0s: vals(&arith4[..3]),
			alphabet: vals(&arith4),
			mk_ref: mk_ref("Conv"),
			shape: Shape::Free,
			span: n_of,
			keyed: false,
			positions: None,
			check_peek: true,
				extra: None,
		};
		h.go(&sys, &Limits::depth(if thorough { 7 } else { 5 }).wall_secs(120), true);
		// unit vectors, all-ones and ramp for every length
		let mut params = vec![];
		for len in 1..=maxn {
			let ks: Vec<usize> = if thorough || len <= 16 { (0..len).collect() } else { vec![0, 1, len / 2, len - 2, len - 1] };
			for k in ks {
				let mut w = vec![0.0 as ValueType; len];
				w[k] = 1.0;
				params.push(Params::W(w));
			}
			params.push(Params::W(vec![1.0; len]));
			params.push(Params::W((1..=len).map(|i| i as ValueType).collect()));
		}
		let sys = Flat(MSys {
			name: format!("Conv/deviation/unit-ones-ramp/len=1..={maxn}"),
			spec: spec("Conv"),
			params,
			v0s: vals(&[1.0, 0.0]),
			alphabet: vals(&[0.0, 1.0, -3.0]),
			mk_ref: mk_ref("Conv"),
			shape: Shape::Flat,
			span: n_of,
			keyed: false,
			positions: Some(|_| vec![0, 1]),
			check_peek: true,
				extra: None,
		});
		h.go(&sys, &Limits::deviation(1, 2 * maxn as u32 + 4).wall_secs(300).states(200_000_000), true);
	}
	// VWMA: (price, volume) pairs
	{
		let mut pairs = vec![];
		for p in [1.0, -3.0, 0.5] {
			for v in [0.0, 1.0, 4.0, alpha::big()] {
				pairs.push(In::P(p as ValueType, v as ValueType));
			}
		}
		// candles of EQUAL turnover (price x volume) and different volume - (1,4)/(0.5,8), (0.5,4)/(2,1) - and
		// a zero price at two volumes: the numerator of the quotient stands still while the denominator moves
		for (p, v) in [(0.5, 8.0), (2.0, 1.0), (0.0, 1.0), (0.0, 4.0)] {
			pairs.push(In::P(p as ValueType, v as ValueType));
		}
		for n in 1..=(if thorough { 4 } else { 3 }) {
			let sys = MSys {
				name: format!("VWMA/depth/n={n}"),
				spec: spec("VWMA"),
				params: vec![Params::N(n as PeriodType)],
				v0s: vec![In::P(1.0, 1.0), In::P(-3.0, 4.0), In::P(1.0, 0.0)],
				alphabet: pairs.clone(),
				mk_ref: mk_ref("VWMA"),
				shape: Shape::Free,
				span: n_of,
				keyed: false,
				positions: None,
				check_peek: true,
				extra: None,
			};
			h.go(&sys, &Limits::depth(if thorough { 6 } else { 5 }).wall_secs(120), true);
		}
		let sys = Flat(MSys {
			name: format!("VWMA/deviation/n=1..={maxn}"),
			spec: spec("VWMA"),
			params: (1..=maxn).map(|n| Params::N(n as PeriodType)).collect(),
			v0s: vec![In::P(1.0, 1.0), In::P(-3.0, 4.0)],
			alphabet: vec![In::P(1.0, 1.0), In::P(-3.0, 4.0), In::P(0.5, 0.0), In::P(2.0, alpha::big() as ValueType),
				// same turnover as the two flat candles, other volume
				In::P(0.5, 2.0), In::P(-1.5, 8.0)],
			mk_ref: mk_ref("VWMA"),
			shape: Shape::Flat,
			span: n_of,
			keyed: false,
			positions: if thorough { None } else { Some(boundary_positions) },
			check_peek: true,
				extra: None,
		});
		h.go(&sys, &Limits::deviation(1, 2 * maxn as u32 + 4).wall_secs(600).states(400_000_000), true);
	}
	// ADI windowed
	{
		for n in 1..=(if thorough { 4 } else { 3 }) {
			let sys = MSys {
				name: format!("ADI/depth/n={n}"),
				spec: spec("ADI"),
				params: vec![Params::N(n as PeriodType)],
				v0s: candles(),
				alphabet: candles(),
				mk_ref: mk_ref("ADI"),
				shape: Shape::Free,
				span: n_of,
				keyed: false,
				positions: None,
				check_peek: true,
				extra: None,
			};
			h.go(&sys, &Limits::depth(if thorough { 7 } else { 5 }).wall_secs(120), true);
		}
		let sys = Flat(MSys {
			name: format!("ADI/deviation/n=1..={maxn}"),
			spec: spec("ADI"),
			params: (1..=maxn).map(|n| Params::N(n as PeriodType)).collect(),
			v0s: candles()[..2].to_vec(),
			alphabet: candles(),
			mk_ref: mk_ref("ADI"),
			shape: Shape::Flat,
			span: n_of,
			keyed: false,
			positions: if thorough { None } else { Some(boundary_positions) },
			check_peek: true,
				extra: None,
		});
		h.go(&sys, &Limits::deviation(1, 2 * maxn as u32 + 4).wall_secs(600).states(400_000_000), true);
	}
	h.run.assume("reference definitions in /verif/mc/refmodel are written from the doc comments; radius per DESIGN.md §4.2");
	h.run.note("allowance", serde_json::json!("window functional: 16*eps*(t+n+8)*sum|w|*M_t; compositions by interval propagation"));
	h.finish();
}
