//! C03 — recursive methods follow their documented recurrences.

use checks::mvr::*;
use checks::subj::*;
use checks::*;
use refmodel::methods as rm;
use refmodel::Q;

fn n_of(p: &Params) -> usize {
	match p {
		Params::N(n) => *n as usize,
		Params::NN(a, b) => (*a).max(*b) as usize,
		_ => 1,
	}
}
fn span2(p: &Params) -> usize {
	2 * n_of(p)
}

fn rc(c: &yata::core::Candle) -> rm::RC {
	rm::RC { o: c.open as f64, h: c.high as f64, l: c.low as f64, c: c.close as f64, v: c.volume as f64 }
}

#[derive(Clone)]
struct TrRef(f64);
impl RefAny for TrRef {
	fn next(&mut self, i: &In) -> (Expect, &'static str) {
		let In::C(c) = i else { unreachable!() };
		let q = rc(c).tr(self.0);
		self.0 = c.close as f64;
		(Expect::Q(q.widen(4.0 * eps() * q.v.abs())), "value")
	}
	fn box_clone(&self) -> Box<dyn RefAny> {
		Box::new(self.clone())
	}
}
#[derive(Clone)]
struct HaRef(rm::HeikinAshi);
impl RefAny for HaRef {
	fn next(&mut self, i: &In) -> (Expect, &'static str) {
		let In::C(c) = i else { unreachable!() };
		let (o, h, l, cl) = self.0.step(&rc(c));
		(Expect::Candle([o, h, l, cl], c.volume as f64), "value")
	}
	fn box_clone(&self) -> Box<dyn RefAny> {
		Box::new(self.clone())
	}
}
#[derive(Clone)]
struct AdiRef(rm::Adi);
impl RefAny for AdiRef {
	fn next(&mut self, i: &In) -> (Expect, &'static str) {
		let In::C(c) = i else { unreachable!() };
		(Expect::Q(self.0.step(&rc(c))), "value")
	}
	fn box_clone(&self) -> Box<dyn RefAny> {
		Box::new(self.clone())
	}
}

fn mk_ref(name: &'static str) -> fn(&Params, &In) -> Box<dyn RefAny> {
	match name {
		"EMA" => |p, i| vv(rm::Ema::new(n_of(p), i.v() as f64)),
		"RMA" => |p, i| vv(rm::Ema::rma(n_of(p), i.v() as f64)),
		"WSMA" => |p, i| vv(rm::Ema::wsma(n_of(p), i.v() as f64)),
		"DMA" => |p, i| vv(rm::EmaCascade::new(rm::CascadeKind::Dma, n_of(p), i.v() as f64)),
		"TMA" => |p, i| vv(rm::EmaCascade::new(rm::CascadeKind::Tma, n_of(p), i.v() as f64)),
		"DEMA" => |p, i| vv(rm::EmaCascade::new(rm::CascadeKind::Dema, n_of(p), i.v() as f64)),
		"TEMA" => |p, i| vv(rm::EmaCascade::new(rm::CascadeKind::Tema, n_of(p), i.v() as f64)),
		"TSI" => |p, i| {
			let Params::NN(s, l) = p else { unreachable!() };
			vv(rm::Tsi::new(*s as usize, *l as usize, i.v() as f64))
		},
		"Vidya" => |p, i| Box::new(checks::mrefs::VidyaRef::new(n_of(p), i.v() as f64)),
		"Integral" => |_, i| vv(rm::Win::new(rm::WinKind::Integral, 0, i.v() as f64)),
		"TR" => |_, i| {
			let In::C(c) = i else { unreachable!() };
			Box::new(TrRef(c.close as f64))
		},
		"HeikinAshi" => |_, i| {
			let In::C(c) = i else { unreachable!() };
			Box::new(HaRef(rm::HeikinAshi::new(&rc(c))))
		},
		"ADI" => |_, i| {
			let In::C(c) = i else { unreachable!() };
			Box::new(AdiRef(rm::Adi::new(0, &rc(c))))
		},
		_ => panic!("no reference for {name}"),
	}
}

fn vals(v: &[ValueType]) -> Vec<In> {
	v.iter().map(|x| In::V(*x)).collect()
}
fn boundary_positions(span: usize) -> Vec<u32> {
	let n = (span / 2) as u32;
	let mut v = vec![0, 1, 2, n.saturating_sub(1), n, n + 1];
	v.sort_unstable();
	v.dedup();
	v
}
pub fn candles() -> Vec<In> {
	use yata::core::Candle;
	let c = |o: f64, h: f64, l: f64, c: f64, v: f64| In::C(Candle { open: o as ValueType, high: h as ValueType, low: l as ValueType, close: c as ValueType, volume: v as ValueType });
	vec![c(10., 10., 10., 10., 8.), c(10., 12., 9., 11., 16.), c(11., 12., 8., 9., 4.), c(20., 24., 18., 22., 0.), c(11., 13., 9., 11., 32.), c(10.1, 10.7, 9.3, 10.3, 1.7)]
}

const SUBJ: [&str; 8] = ["EMA", "DMA", "TMA", "DEMA", "TEMA", "RMA", "WSMA", "Vidya"];

fn main() {
	refmodel::set_eps(eps());
	refmodel::set_floor(ValueType::MIN_POSITIVE as f64);
	let mut h = H::start("C03");
	let thorough = h.thorough();
	let maxp = PeriodType::MAX as usize;
	let arith = alpha::v_arith();
	for name in SUBJ {
		let maxn = if name == "WSMA" { (maxp / 2).min(127) } else { (maxp - 1).min(254) };
		// the length PeriodType::MAX itself, where the constructor takes it
		let maxn = if maxn == 254 && matches!(catch(|| (spec(name).ctor)(&Params::N(255), &In::V(1.0))), Ok(Ok(_))) { 255 } else { maxn };
		for n in [1usize, 2, 3, 4, 5, 7] {
			let sys = MSys {
				name: format!("{name}/depth-arith/n={n}"),
				spec: spec(name),
				params: vec![Params::N(n as PeriodType)],
				v0s: vals(&arith[..3]),
				alphabet: vals(&arith),
				mk_ref: mk_ref(name),
				shape: Shape::Free,
				span: span2,
				keyed: false,
				positions: None,
				check_peek: true,
				extra: None,
			};
			h.go(&sys, &Limits::depth(if thorough { 9 } else { 7 }).wall_secs(120), true);
			let sys = MSys {
				name: format!("{name}/depth-round/n={n}"),
				spec: spec(name),
				params: vec![Params::N(n as PeriodType)],
				v0s: vals(&alpha::v_round3()[..1]),
				alphabet: vals(&if thorough { alpha::v_round() } else { alpha::v_round3() }),
				mk_ref: mk_ref(name),
				shape: Shape::Free,
				span: span2,
				keyed: false,
				positions: None,
				check_peek: true,
				extra: None,
			};
			h.go(&sys, &Limits::depth(if thorough { 9 } else { 8 }).wall_secs(120), true);
		}
		// tiny units (2^-60 / 2^-40): every recurrence is homogeneous of degree 1, guards written as
		// `!= 0` / `> 0` must not act as absolute thresholds
		{
			let t = (2.0f64).powi(if IS_F32 { -40 } else { -60 }) as ValueType;
			let sys = MSys {
				name: format!("{name}/depth/tiny-units"),
				spec: spec(name),
				params: [2usize, 3, 4].iter().map(|n| Params::N(*n as PeriodType)).collect(),
				v0s: vals(&[0.0, t]),
				alphabet: vals(&[0.0, t, -3.0 * t, 2.0 * t]),
				mk_ref: mk_ref(name),
				shape: Shape::Free,
				span: span2,
				keyed: false,
				positions: None,
				check_peek: true,
				extra: None,
			};
			h.go(&sys, &Limits::depth(if thorough { 8 } else { 6 }).wall_secs(120), true);
		}
		// wider period types: the windowless recurrences take ANY length, the largest value of the type included
		if (PeriodType::MAX as u64) > 255 && ["EMA", "DMA", "TMA", "DEMA", "TEMA", "RMA"].contains(&name) {
			let sys = Flat(MSys {
				name: format!("{name}/deviation/largest-lengths-of-the-period-type"),
				spec: spec(name),
				params: [PeriodType::MAX, PeriodType::MAX - 1, PeriodType::MAX / 2 + 1].iter().map(|n| Params::N(*n)).collect(),
				v0s: vals(&[1.0, -3.0]),
				alphabet: vals(&[0.0, 1.0, -3.0, alpha::big() as ValueType]),
				mk_ref: mk_ref(name),
				shape: Shape::Flat,
				span: |_| 8,
				keyed: false,
				positions: Some(|_| vec![0, 1, 2, 5]),
				check_peek: true,
				extra: None,
			});
			h.go(&sys, &Limits::deviation(2, 40).wall_secs(120), true);
		}
		let sys = Flat(MSys {
			name: format!("{name}/deviation/n=1..={maxn}"),
			spec: spec(name),
			params: (1..=maxn).map(|n| Params::N(n as PeriodType)).collect(),
			v0s: vals(&[1.0, -3.0, 0.0]),
			alphabet: vals(&[0.0, 1.0, -3.0, alpha::big() as ValueType, 1.7]),
			mk_ref: mk_ref(name),
			shape: Shape::Flat,
			span: span2,
			keyed: false,
			positions: if thorough { None } else { Some(boundary_positions) },
			check_peek: true,
				extra: None,
		});
		h.go(&sys, &Limits::deviation(1, 600).wall_secs(600).states(400_000_000), true);
		if thorough {
			// two deviations: small and boundary lengths (every length took half an hour in all)
			let sys2 = Flat(MSys {
				name: format!("{name}/deviation-2/n<=32+boundary"),
				spec: spec(name),
				params: (1..=maxn).filter(|n| *n <= 32 || [63, 64, 126, 127, 128].contains(n) || *n + 1 >= maxn).map(|n| Params::N(n as PeriodType)).collect(),
				v0s: vals(&[1.0, -3.0, 0.0]),
				alphabet: vals(&[0.0, 1.0, -3.0, alpha::big() as ValueType, 1.7]),
				mk_ref: mk_ref(name),
				shape: Shape::Flat,
				span: span2,
				keyed: false,
				positions: None,
				check_peek: true,
				extra: None,
			});
			h.go(&sys2, &Limits::deviation(2, 600).wall_secs(600).states(400_000_000), true);
		}
	}
	// TSI: (short, long) pairs
	{
		let small: Vec<PeriodType> = vec![1, 2, 3, 4, 5];
		let mut edge: Vec<PeriodType> = vec![1, 2, 127, 128, (maxp - 2).min(253) as PeriodType, (maxp - 1).min(254) as PeriodType];
		if matches!(catch(|| (spec("TSI").ctor)(&Params::NN(255, 255), &In::V(1.0))), Ok(Ok(_))) {
			edge.push(255);
		}
		let mut pairs = vec![];
		for a in &small {
			for b in &small {
				pairs.push(Params::NN(*a, *b));
			}
		}
		let sys = MSys {
			name: "TSI/depth/small-pairs".into(),
			spec: spec("TSI"),
			params: pairs,
			v0s: vals(&[1.0, -3.0]),
			alphabet: vals(&[0.0, 1.0, -3.0, 1.7]),
			mk_ref: mk_ref("TSI"),
			shape: Shape::Free,
			span: span2,
			keyed: false,
			positions: None,
			check_peek: true,
				extra: None,
		};
		h.go(&sys, &Limits::depth(if thorough { 8 } else { 6 }).wall_secs(120), true);
		// tiny units (2^-60): ratios must not depend on the unit of the prices; and long flat tails, on
		// which the double-smoothed sums decay geometrically towards (but never to) zero
		let mut small_pairs = vec![];
		for a in 1..=3 {
			for b in 1..=3 {
				small_pairs.push(Params::NN(a, b));
			}
		}
		let tiny = (2.0f64).powi(if IS_F32 { -40 } else { -60 }) as ValueType;
		let sys = MSys {
			name: "TSI/depth/tiny-units".into(),
			spec: spec("TSI"),
			params: small_pairs.clone(),
			v0s: vals(&[0.0, tiny]),
			alphabet: vals(&[0.0, tiny, -3.0 * tiny, 2.0 * tiny]),
			mk_ref: mk_ref("TSI"),
			shape: Shape::Free,
			span: span2,
			keyed: false,
			positions: None,
			check_peek: true,
			extra: None,
		};
		h.go(&sys, &Limits::depth(if thorough { 8 } else { 6 }).wall_secs(120), true);
		let sys = Flat(MSys {
			name: "TSI/deviation/long-flat-tail".into(),
			spec: spec("TSI"),
			params: small_pairs,
			v0s: vals(&[1.0]),
			alphabet: vals(&[1.0, -3.0, 1.7]),
			mk_ref: mk_ref("TSI"),
			shape: Shape::Flat,
			span: |_| 150,
			keyed: false,
			positions: Some(|_| vec![0, 1, 2]),
			check_peek: true,
			extra: None,
		});
		h.go(&sys, &Limits::deviation(2, 320).wall_secs(300), true);
		let mut pairs = vec![];
		if thorough {
			for a in 1..=(maxp - 1).min(254) {
				for b in 1..=(maxp - 1).min(254) {
					pairs.push(Params::NN(a as PeriodType, b as PeriodType));
				}
			}
		} else {
			for a in &edge {
				for b in &edge {
					pairs.push(Params::NN(*a, *b));
				}
			}
		}
		let sys = Flat(MSys {
			name: format!("TSI/deviation/{}", if thorough { "all-pairs" } else { "edge-pairs" }),
			spec: spec("TSI"),
			params: pairs,
			v0s: vals(&[1.0]),
			alphabet: vals(&[1.0, -3.0, alpha::big() as ValueType]),
			mk_ref: mk_ref("TSI"),
			shape: Shape::Flat,
			span: |_| 10,
			keyed: false,
			positions: Some(|_| vec![0, 1, 5]),
			check_peek: true,
				extra: None,
		});
		h.go(&sys, &Limits::deviation(if thorough { 2 } else { 2 }, 40).wall_secs(600).states(400_000_000), true);
	}
	// cumulative Integral
	{
		let sys = MSys {
			name: "Integral(0)/depth".into(),
			spec: spec("Integral"),
			params: vec![Params::N(0)],
			v0s: vals(&[0.0, 1.0, -3.0]),
			alphabet: vals(&arith),
			mk_ref: mk_ref("Integral"),
			shape: Shape::Free,
			span: span2,
			keyed: false,
			positions: None,
			check_peek: true,
				extra: None,
		};
		h.go(&sys, &Limits::depth(if thorough { 9 } else { 7 }).wall_secs(120), true);
	}
	// candle subjects
	for name in ["TR", "HeikinAshi", "ADI"] {
		let sys = MSys {
			name: format!("{name}{}/depth", if name == "ADI" { "(0)" } else { "" }),
			spec: spec(name),
			params: vec![if name == "ADI" { Params::N(0) } else { Params::Unit }],
			v0s: candles(),
			alphabet: candles(),
			mk_ref: mk_ref(name),
			shape: Shape::Free,
			span: span2,
			keyed: false,
			positions: None,
			check_peek: true,
				extra: None,
		};
		h.go(&sys, &Limits::depth(if thorough { 7 } else { 6 }).wall_secs(120), true);
	}
	let _ = Q::exact(0.0);
	h.run.note("allowance", serde_json::json!("recursive filter: R <- (1-a)R + a*R_in + 8*eps*max(|y|,|x|,|y_prev|); Vidya sums: window allowance; exact predicate for a window without any change"));
	h.finish();
}
