//! C05 — indicator raw values equal the documented formulas.
//! C06 — indicator signals fire exactly under their documented conditions (same explorations, second oracle;
//!       this binary serves both: the property id is taken from the executable's name).

use checks::indcheck::*;
use checks::*;

pub fn main() {
	refmodel::set_eps(eps());
	refmodel::set_floor(ValueType::MIN_POSITIVE as f64);
	let exe = std::env::args().next().unwrap_or_default();
	let is_c06 = exe.ends_with("c06");
	let prop = if is_c06 { "C06" } else { "C05" };
	let oracle = if is_c06 { Oracle::Signals } else { Oracle::Values };
	let mut h = H::start(prop);
	let thorough = h.thorough();
	if let Err(e) = ind::registry_complete() {
		h.run.machinery_error(e);
	}
	let only = std::env::var("VERIF_ONLY").ok();
	let ks = alpha::k_candles();
	let mut missing = vec![];
	let mut not_exercised = vec![];
	let mut totals: std::collections::BTreeMap<(String, usize), [u64; 4]> = Default::default();
	macro_rules! tally {
		($sys:expr) => {
			for (n, s, c) in $sys.totals() {
				let e = totals.entry((n, s)).or_insert([0; 4]);
				for k in 0..4 {
					e[k] += c[k];
				}
			}
		};
	}
	for c in ind::defaults() {
		let name = c.const_name();
		if let Some(o) = &only {
			if o != name {
				continue;
			}
		}
		if refmodel::ind::make(name, &ref_cfg(c.as_ref()), &rc(&ks[0])).is_none() {
			missing.push(name.to_string());
			continue;
		}
		// (7) builds with a wider PeriodType (run as a sub-check of C20): one parameter at a time beyond
		// the capacity of u8, long steady streams (constant, ramps, zigzags) with at most one deviation
		if std::env::var("VERIF_WIDE").is_ok() && (PeriodType::MAX as u64) > 255 {
			let mut cfgs = vec![];
			for (key, val) in ind::json_map(&c.to_json().unwrap()) {
				let texts: Vec<String> = if val.is_u64() {
					vec!["300".into(), "511".into()]
				} else if let Some(o) = val.as_object() {
					let kind = o.keys().next().unwrap().clone();
					let kind = if kind == "lin_reg" { "linreg".to_string() } else { kind };
					vec![format!("{kind}-300")]
				} else {
					vec![]
				};
				for t in texts {
					let mut x = c.boxed_clone();
					if x.set(&key, t).is_ok() && x.validate() {
						cfgs.push(x);
					}
				}
			}
			if !cfgs.is_empty() {
				let hi = yata::core::Candle { open: ks[1].open + 3000.0, high: ks[1].high + 3000.0, low: ks[1].low + 3000.0, close: ks[1].close + 3000.0, volume: ks[1].volume };
				let sys = IndSys::new(&format!("{name}/deviation/wide-periods"), cfgs, vec![ks[1], hi], vec![ks[1], ks[2]], oracle, true).with_zigzag();
				h.go(&sys, &Limits::deviation(0, 1300).wall_secs(600), true);
				tally!(sys);
			}
			continue;
		}
		// (1) default + small-period configuration: every candle sequence to a depth
		let base = indicator_configs_small3(name);
		let sys = IndSys::new(&format!("{name}/depth/default+small"), base, ks[..2].to_vec(), ks.clone(), oracle, false);
		h.go(&sys, &Limits::depth(if thorough { 7 } else { 6 }).wall_secs(600), true);
		tally!(sys);
		// (1b) values only: the first candle fed is NOT the construction candle - an instance created from
		// c0 must already be in the state "c0 has been seen forever" (a wrong seed in `init` that the
		// prescribed first step would overwrite shows here)
		if !is_c06 {
			let sys = IndSys::new(&format!("{name}/depth/first-candle-free"), indicator_configs_small3(name), ks[..2].to_vec(), ks.clone(), oracle, false).with_first_free();
			h.go(&sys, &Limits::depth(if thorough { 6 } else { 5 }).wall_secs(600), true);
		}
		not_exercised.extend(sys.unexercised());
		// (1c) the same configurations with one more state-dependent symbol: a candle lying exactly on the
		// indicator's own previous first value (touches and crossings by equality), a shorter depth
		{
			let sys = IndSys::new(&format!("{name}/depth/default+small/with-touch"), indicator_configs_small3(name), ks[..2].to_vec(), ks[..4].to_vec(), oracle, false).with_touch();
			h.go(&sys, &Limits::depth(if thorough { 7 } else { 6 }).wall_secs(600), true);
			tally!(sys);
		}
		// (2) every MA kind in every MA slot and every source, one slot varied at a time
		let mut kinds = indicator_configs(Some(name), true);
		kinds.drain(..kinds.len().min(2));
		if !kinds.is_empty() {
			let sys = IndSys::new(&format!("{name}/depth/ma-kinds+sources"), kinds, ks[1..2].to_vec(), ks.clone(), oracle, false);
			h.go(&sys, &Limits::depth(if thorough { 6 } else { 5 }).wall_secs(600), true);
			tally!(sys);
		}
		// (3) default configuration: long flat streams with deviations (periods of the default config are 10-50)
		let sys = IndSys::new(&format!("{name}/deviation/default"), indicator_configs(Some(name), false), vec![ks[1], ks[5]], vec![ks[1], ks[2], ks[3], ks[0], ks[5]], oracle, true);
		h.go(&sys, &Limits::deviation(if thorough { 2 } else { 1 }, if thorough { 120 } else { 90 }).wall_secs(600), true);
		tally!(sys);
		let sys2 = IndSys::new(&format!("{name}/deviation-2/default"), indicator_configs(Some(name), false), vec![ks[1]], vec![ks[1], ks[2], ks[3]], oracle, true);
		h.go(&sys2, &Limits::deviation(if thorough { 3 } else { 2 }, if thorough { 48 } else { 36 }).wall_secs(600), true);
		tally!(sys2);
		not_exercised.extend(sys.unexercised().into_iter().map(|s| format!("[deviation] {s}")));
		// (4) tiny units: the same candles scaled by 2^-60 (guards written as `> 0` / `!= 0` must not become thresholds)
		{
			let sc = (2.0f64).powi(if IS_F32 { -30 } else { -60 }) as ValueType;
			let tiny: Vec<yata::core::Candle> = ks.iter().map(|c| yata::core::Candle { open: c.open * sc, high: c.high * sc, low: c.low * sc, close: c.close * sc, volume: c.volume }).collect();
			let sys = IndSys::new(&format!("{name}/depth/tiny-units"), indicator_configs(Some(name), false), tiny[1..2].to_vec(), tiny.clone(), oracle, false);
			h.go(&sys, &Limits::depth(if thorough { 5 } else { 4 }).wall_secs(600), true);
			tally!(sys);
			// (4b) and tiny units of volume alone (a lot of 2^-60 shares): zero-volume guards are guards for zero
			let tv: Vec<yata::core::Candle> = ks.iter().map(|c| yata::core::Candle { volume: c.volume * sc, ..*c }).collect();
			let sys = IndSys::new(&format!("{name}/depth/tiny-volume-units"), indicator_configs(Some(name), false), tv[1..2].to_vec(), tv.clone(), oracle, false);
			h.go(&sys, &Limits::depth(if thorough { 5 } else { 4 }).wall_secs(600), true);
			tally!(sys);
		}
		// (5) every float parameter at small / large values, long streams with sustained trends
		{
			let mut cfgs = vec![];
			for (key, val) in ind::json_map(&c.to_json().unwrap()) {
				if val.is_f64() {
					for t in ["0.0005", "0.01", "0.45", "0.9", "2.5"] {
						let mut x = c.boxed_clone();
						if x.set(&key, t.to_string()).is_ok() && x.validate() {
							cfgs.push(x);
						}
					}
				}
			}
			if !cfgs.is_empty() {
				let sys = IndSys::new(&format!("{name}/deviation/float-parameters"), cfgs.iter().map(|c| c.boxed_clone()).collect(), vec![ks[1]], vec![ks[1], ks[2], ks[3]], oracle, true);
				h.go(&sys, &Limits::deviation(1, if thorough { 400 } else { 300 }).wall_secs(600), true);
				if thorough {
					let sys = IndSys::new(&format!("{name}/deviation-2/float-parameters"), cfgs, vec![ks[1]], vec![ks[1], ks[2], ks[3]], oracle, true);
					h.go(&sys, &Limits::deviation(2, 100).wall_secs(600), true);
					tally!(sys);
				}
				tally!(sys);
			}
		}
		// (6) hundreds of swing highs / lows on one side of the slow averages: a zigzag on a steady trend
		// (consecutive-peak counters, pivot rules, position counters) with at most one deviation
		{
			let sys = IndSys::new(&format!("{name}/deviation/zigzag-trend"), indicator_configs_small3(name), vec![ks[1]], vec![ks[1], ks[2]], oracle, true).with_zigzag();
			h.go(&sys, &Limits::deviation(if thorough { 1 } else { 0 }, if thorough { 900 } else { 640 }).wall_secs(600), true);
			tally!(sys);
		}
		// (8) one parameter at a time in the middle range (the default and the small variants leave the
		// lengths 6..250 of most parameters untouched) and a volatile stream on which every step has a
		// new value: constant / ramp / zigzag / volatile base streams with at most one deviation
		{
			let mut cfgs = vec![];
			for (key, val) in ind::json_map(&c.to_json().unwrap()) {
				let texts: Vec<String> = if val.is_u64() {
					["7", "33", "120", "251", "254", "255"].iter().map(|s| s.to_string()).collect()
				} else if let Some(o) = val.as_object() {
					let kind = o.keys().next().unwrap().clone();
					let kind = if kind == "lin_reg" { "linreg".to_string() } else { kind };
					["7", "33", "120", "254", "255"].iter().map(|n| format!("{kind}-{n}")).collect()
				} else {
					vec![]
				};
				for t in texts {
					let mut x = c.boxed_clone();
					if x.set(&key, t).is_ok() && x.validate() {
						cfgs.push(x);
					}
				}
			}
			let mut all = indicator_configs_small3(name);
			all.extend(cfgs);
			let sys = IndSys::new(&format!("{name}/deviation/mid-range-parameters+volatile"), all, vec![ks[1]], vec![ks[1], ks[2]], oracle, true).with_zigzag().with_volatile();
			h.go(&sys, &Limits::deviation(if thorough { 1 } else { 0 }, if thorough { 520 } else { 700 }).wall_secs(600), true);
			tally!(sys);
		}
		// (10) every length parameter at once at its largest / its smallest accepted value (greedily, in the
		// order of the fields and in the reverse order): steady / zigzag / volatile streams without deviation
		{
			let map = ind::json_map(&c.to_json().unwrap());
			let mut cfgs: Vec<Box<dyn ind::IndCfg>> = vec![];
			for (vals, rev) in [(["255", "254", "127", "100"], false), (["255", "254", "127", "100"], true), (["1", "2", "3", "4"], false), (["1", "2", "3", "4"], true)] {
				let mut x = c.boxed_clone();
				let mut keys: Vec<(&String, &serde_json::Value)> = map.iter().collect();
				if rev {
					keys.reverse();
				}
				for (k, v) in keys {
					let kind = v.as_object().map(|o| { let k = o.keys().next().unwrap().clone(); if k == "lin_reg" { "linreg".to_string() } else { k } });
					if !v.is_u64() && kind.is_none() {
						continue;
					}
					for t in vals {
						let text = match &kind { Some(kd) => format!("{kd}-{t}"), None => t.to_string() };
						let mut y = x.boxed_clone();
						if y.set(k, text).is_ok() && y.validate() {
							x = y;
							break;
						}
					}
				}
				if x.validate() && !cfgs.iter().any(|o| o.to_json().ok() == x.to_json().ok()) {
					cfgs.push(x);
				}
			}
			if !cfgs.is_empty() {
				let sys = IndSys::new(&format!("{name}/deviation/all-lengths-at-an-extreme"), cfgs, vec![ks[1]], vec![ks[1], ks[2]], oracle, true).with_zigzag().with_volatile();
				h.go(&sys, &Limits::deviation(0, if thorough { 900 } else { 600 }).wall_secs(600), true);
				tally!(sys);
			}
		}
		// (11) two events on a steady stream (the high pushed up / the low pushed down, for one candle or for
		// good, amplitudes 1..6, both orders, every gap 0..=8) for every overshooting MA kind at the lengths 3, 5 and 7 in every MA slot (one at a
		// time) and for the default configuration
		{
			let map = ind::json_map(&c.to_json().unwrap());
			let mut cfgs: Vec<Box<dyn ind::IndCfg>> = vec![c.boxed_clone()];
			for (k, v) in &map {
				if v.is_object() {
					for kind in ["linreg", "hma", "dema", "tema"] {
						for n in [3, 5, 7] {
							for base_cfg in [c.boxed_clone(), small_variant(c.as_ref(), 3)] {
								let mut x = base_cfg;
								if x.set(k, format!("{kind}-{n}")).is_ok() && x.validate() {
									cfgs.push(x);
								}
							}
						}
					}
				}
			}
			let amps: &[f64] = if thorough { &[1.0, 2.0, 3.0, 4.0, 5.0, 6.0] } else { &[1.0, 2.0, 4.0, 5.0] };
			let sys = ImpulsePairs::new(&format!("{name}/two-events/overshooting-kinds"), cfgs, ks[1], amps, oracle, 8, 12);
			h.go(&sys, &Limits::depth(1).wall_secs(600), true);
			tally!(sys.inner);
		}
		// (9) pairs of one length and one float parameter (thresholds scaled by a length, factors applied to
		// a window): every combination of the mid-range lengths with the float values, steady / zigzag /
		// volatile streams without deviation
		{
			let map = ind::json_map(&c.to_json().unwrap());
			let ints: Vec<(&String, Vec<String>)> = map
				.iter()
				.filter_map(|(k, v)| {
					if v.is_u64() {
						Some((k, ["3", "20", "25", "100"].iter().map(|s| s.to_string()).collect()))
					} else if let Some(o) = v.as_object() {
						let kind = o.keys().next().unwrap().clone();
						let kind = if kind == "lin_reg" { "linreg".to_string() } else { kind };
						Some((k, ["3", "20", "25", "100"].iter().map(|n| format!("{kind}-{n}")).collect()))
					} else {
						None
					}
				})
				.collect();
			let floats: Vec<&String> = map.iter().filter(|(_, v)| v.is_f64()).map(|(k, _)| k).collect();
			let mut cfgs = vec![];
			for (ik, its) in &ints {
				for fk in &floats {
					for it in its {
						for ft in ["0.01", "0.44", "0.45", "0.9", "2.5"] {
							let mut x = c.boxed_clone();
							if x.set(ik, it.clone()).is_ok() && x.set(fk, ft.to_string()).is_ok() && x.validate() {
								cfgs.push(x);
							}
						}
					}
				}
			}
			if !cfgs.is_empty() {
				let sys = IndSys::new(&format!("{name}/deviation/length-x-float-pairs"), cfgs, vec![ks[1]], vec![ks[1], ks[2]], oracle, true).with_zigzag().with_volatile();
				h.go(&sys, &Limits::deviation(0, if thorough { 700 } else { 420 }).wall_secs(600), true);
				tally!(sys);
			}
		}
	}
	if !missing.is_empty() {
		h.run.machinery_error(format!("no reference model for: {missing:?}"));
	}
	h.run.note("signal_slots_not_fully_exercised", serde_json::json!(not_exercised));
	if is_c06 {
		let never: Vec<String> = totals.iter().filter(|(_, c)| c[0] == 0 || c[1] == 0 || c[2] == 0).map(|((n, s), c)| format!("{n} signal #{s}: documented rule said buy {} times, sell {}, silent {}, open {}", c[0], c[1], c[2], c[3])).collect();
		h.run.note("signal_slots_never_expected_in_any_system", serde_json::json!(never));
		h.run.note("signal_slot_expectations", serde_json::json!(totals.iter().map(|((n, s), c)| format!("{n}#{s}: buy {} sell {} silent {} open {}", c[0], c[1], c[2], c[3])).collect::<Vec<_>>()));
	}
	h.run.assume("reference formulas are my reading of each indicator's doc comment and linked formula (DESIGN.md Appendix A); entries marked there with a dagger follow the implementation where the documentation is silent");
	h.finish();
}
