//! C07 — accuracy does not decay with the length of the stream.
//!
//! (1) counters: closure BFS of the detectors / index methods runs THROUGH the capacity of
//!     PeriodType (the implementation state contains the counters) — any stream length.
//! (2) long histories: macro-steps "feed the next L elements of regime r" (L up to 65 536 quick,
//!     10^7 thorough; regimes: volatile Weyl sequence, flat, ramp, scale jump x BIG, negative)
//!     carry the REAL instance deep into a long history; every script of <= 2 (3) macro-steps is
//!     enumerated, the from-scratch definition is compared at EVERY inner step (radius with the
//!     true t), and all micro-sequences of depth 2-3 are explored from every state so reached.
//!     Methods use the definitional references of C02-C04/C14, indicators those of C05/C06.

use checks::ind::*;
use checks::mrefs::*;
use checks::mvr::*;
use checks::subj::*;
use checks::*;
use yata::core::Candle;

type V = ValueType;
const PHI: f64 = 0.618_033_988_749_894_9;

#[derive(Clone, Copy, Debug, PartialEq)]
enum Regime {
	Volatile,
	Flat,
	Ramp,
	Jump,
	Negative,
	/// exactly summable history: 0 / AMP alternating (every running sum of a window stays exact; anything
	/// that accumulates over the WHOLE stream passes 1/eps within a few thousand steps)
	Swing,
	/// 1, 0, 1, 0, ... (after a Swing: unit changes next to a huge travelled path)
	Calm,
}
#[derive(Clone, Debug)]
enum Act {
	Macro(Regime, u64),
	Micro(usize),
}

fn tclass(t: u64) -> &'static str {
	if t < 1_000 {
		"t<1e3"
	} else if t < 100_000 {
		"t<1e5"
	} else if t < 2_000_000 {
		"t<2e6"
	} else {
		"t>=2e6"
	}
}

#[derive(Clone)]
struct Gen {
	t: u64,
	last: f64,
	scale: f64,
	jumped: bool,
}
impl Gen {
	fn next(&mut self, r: Regime) -> f64 {
		self.t += 1;
		let w = ((self.t as f64) * PHI).fract();
		let v = match r {
			Regime::Volatile => self.scale * (1.0 + w),
			Regime::Flat => self.last,
			Regime::Ramp => self.last + self.scale * 0.001,
			Regime::Jump => {
				// one scale change, then volatile at the new scale
				if !self.jumped || self.scale.abs() < 2.0 {
					self.scale = alpha::big();
				} else {
					self.scale = 1.0;
				}
				self.jumped = true;
				self.scale * (1.0 + w)
			}
			Regime::Negative => -self.scale * (1.0 + w),
			Regime::Swing => {
				if self.last == 0.0 {
					if IS_F32 { 32768.0 } else { 17592186044416.0 }
				} else {
					0.0
				}
			}
			Regime::Calm => {
				if self.last == 1.0 {
					0.0
				} else {
					1.0
				}
			}
		};
		self.last = v;
		v
	}
}

// ------------------------------------------------------------------ methods

#[derive(Clone)]
struct LSt {
	imp: Box<dyn Subject>,
	rf: Box<dyn RefAny>,
	g: Gen,
	macros: u32,
	micros: u32,
}
struct LongSys {
	name: String,
	spec_name: &'static str,
	params: Vec<Params>,
	menu: Vec<(Regime, u64)>,
	max_macros: u32,
	micro: Vec<In>,
	micro_depth: u32,
	total_cap: u64,
}
fn mk_in(kind: InKind, v: f64, t: u64) -> In {
	match kind {
		InKind::Value => In::V(v as V),
		InKind::Pair => In::P(v as V, (1.0 + (t % 3) as f64) as V),
		InKind::Candle => {
			let a = v.abs().max(1e-3);
			In::C(Candle { open: a as V, high: (a * 1.01) as V, low: (a * 0.99) as V, close: a as V, volume: (1.0 + (t % 4) as f64) as V })
		}
	}
}
impl System for LongSys {
	type State = LSt;
	type Act = Act;
	fn name(&self) -> String {
		self.name.clone()
	}
	fn inits(&self) -> Vec<(LSt, String)> {
		let sp = spec(self.spec_name);
		let mut v = vec![];
		for p in &self.params {
			let v0 = mk_in(sp.input, 1.0, 0);
			let (Ok(Ok(imp)), Some(rf)) = (catch(|| (sp.ctor)(p, &v0)), method_ref(self.spec_name, p, &v0)) else { continue };
			// prescribed use: the first value fed is the construction value
			let (mut imp, mut rf) = (imp, rf);
			if catch(|| imp.next(&v0)).is_err() {
				continue;
			}
			let _ = rf.next(&v0);
			v.push((LSt { imp, rf, g: Gen { t: 1, last: 1.0, scale: 1.0, jumped: false }, macros: 0, micros: 0 }, format!("{}({}) v0={}", sp.name, p.show(), v0.show())));
		}
		v
	}
	fn actions(&self, s: &LSt, _: u32) -> Vec<(Act, u8)> {
		let mut v = vec![];
		if s.micros == 0 && s.macros < self.max_macros {
			for (r, l) in &self.menu {
				if s.g.t + l <= self.total_cap {
					v.push((Act::Macro(*r, *l), 0));
				}
			}
		}
		if s.macros > 0 && s.micros < self.micro_depth {
			for i in 0..self.micro.len() {
				v.push((Act::Micro(i), 0));
			}
		}
		v
	}
	fn show_act(&self, a: &Act) -> String {
		match a {
			Act::Macro(r, l) => format!("{r:?} x {l}"),
			Act::Micro(i) => self.micro[*i].show(),
		}
	}
	fn step(&self, s: &LSt, a: &Act) -> Step<LSt> {
		let sp_name = self.spec_name;
		let kind = spec(sp_name).input;
		let mut n = s.clone();
		let mut exempt = false;
		let mut one = |n: &mut LSt, x: In, inner: u64| -> Result<(), Failure> {
			let out = match catch(|| n.imp.next(&x)) {
				Ok(o) => o,
				Err(p) => return Err(Failure::new(format!("{sp_name}/next/panic"), format!("inner step {inner}: panicked at {}: {}", p.at(), p.msg))),
			};
			let (exp, class) = n.rf.next(&x);
			match agree(sp_name, "next", &out, &exp, class) {
				Ok(e) => {
					exempt |= e;
					Ok(())
				}
				Err(mut f) => {
					let jump = if n.g.jumped { "/after-scale-jump" } else { "" };
					// by how much the allowance is exceeded (a drift that creeps past the allowance is
					// a different thing from a value that is plainly wrong)
					let excess = match (&out, &exp) {
						(Out::V(v), Expect::Q(q)) if q.r > 0.0 => {
							let k = (*v as f64 - q.v).abs() / q.r;
							if k <= 8.0 {
								"/within-8-allowances"
							} else if k <= 512.0 {
								"/within-512-allowances"
							} else {
								"/beyond-512-allowances"
							}
						}
						_ => "",
					};
					f.sig = format!("{}/{}{jump}{excess}", f.sig, tclass(n.g.t));
					f.detail = format!("after {} values (inner step {inner} of {a:?}): {}", n.g.t, f.detail);
					Err(f)
				}
			}
		};
		match a {
			Act::Macro(r, l) => {
				n.macros += 1;
				for j in 0..*l {
					let v = n.g.next(*r);
					let t = n.g.t;
					if let Err(f) = one(&mut n, mk_in(kind, v, t), j) {
						return Step::Violation(f);
					}
				}
			}
			Act::Micro(i) => {
				n.micros += 1;
				n.g.t += 1;
				let x = self.micro[*i];
				// micro symbols are relative to the current scale
				let x = match x {
					In::V(v) => In::V((v as f64 * n.g.scale) as V),
					o => o,
				};
				if let Err(f) = one(&mut n, x, 0) {
					return Step::Violation(f);
				}
			}
		}
		if exempt {
			Step::Exempt(n, "formula undefined")
		} else {
			Step::Next(n)
		}
	}
}

// ------------------------------------------------------------------ indicators
// "an instance with a long past behaves like a fresh instance primed with the recent inputs":
// reference-free, so documentation-vs-code discrepancies (C05/C06) cannot show up here.

#[derive(Clone)]
struct ISt {
	old: Box<dyn IndInst>,
	fresh: Option<Box<dyn IndInst>>,
	ring: std::collections::VecDeque<Candle>,
	g: Gen,
	macros: u32,
	micros: u32,
	cfg: usize,
	w: usize,
	/// old and fresh instance returned bit-identical values on the previous step
	prev_equal: bool,
}
struct ILongSys {
	name: String,
	cfgs: Vec<Box<dyn IndCfg>>,
	menu: Vec<(Regime, u64)>,
	max_macros: u32,
	micro: Vec<Candle>,
	micro_depth: u32,
	total_cap: u64,
}
fn mk_candle(v: f64, prev: f64, t: u64) -> Candle {
	let (a, b) = (v.abs().max(1e-3), prev.abs().max(1e-3));
	let hi = a.max(b) * (1.0 + 0.01 * ((t % 5) as f64));
	let lo = a.min(b) * (1.0 - 0.01 * ((t % 3) as f64));
	Candle { open: b as V, high: hi as V, low: lo as V, close: a as V, volume: (1.0 + (t % 4) as f64) as V }
}
fn cfg_span(c: &dyn IndCfg) -> usize {
	let mut n = 1usize;
	for (_, v) in json_map(&c.to_json().unwrap_or_default()) {
		if let Some(u) = v.as_u64() {
			n = n.max(u as usize);
		}
		if let Some(o) = v.as_object() {
			if let Some(u) = o.values().next().and_then(|x| x.as_u64()) {
				n = n.max(u as usize);
			}
		}
	}
	n
}
/// indicators whose state has unbounded memory (path-dependent recursion, latches, cumulative sums)
fn unbounded_memory(name: &str, c: &dyn IndCfg) -> bool {
	matches!(name, "ParabolicSAR" | "Kaufman") || (name == "ChaikinOscillator" && json_map(&c.to_json().unwrap_or_default()).get("window").and_then(|v| v.as_u64()) == Some(0)) || c.to_json().unwrap_or_default().contains("vidya")
}
fn latched_signals(name: &str) -> bool {
	matches!(name, "CommodityChannelIndex" | "AwesomeOscillator" | "FisherTransform" | "Kaufman" | "ParabolicSAR")
}
impl ILongSys {
	fn compare(&self, name: &str, a: &yata::core::IndicatorResult, b: &yata::core::IndicatorResult, t: u64, jumped: bool, prev_equal: &mut bool) -> Result<bool, Failure> {
		let jump = if jumped { "/after-scale-jump" } else { "" };
		let mut bit_equal = true;
		let mut exempt = false;
		for (i, (x, y)) in a.values().iter().zip(b.values()).enumerate() {
			if x.to_bits() != y.to_bits() {
				bit_equal = false;
			}
			if x.is_nan() || y.is_nan() || x.is_infinite() || y.is_infinite() {
				exempt = true; // undefined regions are C12's business
				continue;
			}
			let (x, y) = (*x as f64, *y as f64);
			// coarse on purpose: this oracle looks for gross decay (saturating counters, ring phase, corrupted
			// state), the sharp rounding allowance is applied to the methods above. sqrt(variance residue) of a
			// running standard deviation is ~1e-5 after 1e5 steps; after a x2^20 scale jump every running sum
			// legitimately carries an absolute error proportional to the LARGEST magnitude it has seen.
			let tol = 1e-4 * x.abs().max(y.abs()).max(1.0);
			// after a scale jump values are not compared at indicator level (see above); signals still are
			if !jumped && (x - y).abs() > tol {
				return Err(Failure::new(format!("{name}/value#{i}/long-past-differs-from-fresh/{}{jump}", tclass(t)), format!("after {t} candles: value #{i} = {x:?}, a fresh instance primed with the recent window gives {y:?}")));
			}
		}
		let both = bit_equal && *prev_equal;
		*prev_equal = bit_equal;
		// signals are judged only where the deciding values (this and the previous step) are bit-identical
		if both && !latched_signals(name) {
			for (i, (x, y)) in a.signals().iter().zip(b.signals()).enumerate() {
				if format!("{x:?}") != format!("{y:?}") {
					return Err(Failure::new(format!("{name}/signal#{i}/long-past-differs-from-fresh/{}{jump}", tclass(t)), format!("after {t} candles: signal #{i} = {x:?}, fresh instance {y:?} (all values bit-identical)")));
				}
			}
		}
		Ok(exempt)
	}
}
impl System for ILongSys {
	type State = ISt;
	type Act = Act;
	fn name(&self) -> String {
		self.name.clone()
	}
	fn inits(&self) -> Vec<(ISt, String)> {
		let mut v = vec![];
		for (i, c) in self.cfgs.iter().enumerate() {
			if unbounded_memory(c.const_name(), c.as_ref()) {
				continue;
			}
			let c0 = mk_candle(1.0, 1.0, 0);
			let Ok(Ok(mut old)) = catch(|| c.init(&c0)) else { continue };
			if catch(|| old.next(&c0)).is_err() {
				continue;
			}
			let w = (60 * cfg_span(c.as_ref()) + 100).min(4000);
			let mut ring = std::collections::VecDeque::new();
			ring.push_back(c0);
			v.push((ISt { old, fresh: None, ring, g: Gen { t: 1, last: 1.0, scale: 1.0, jumped: false }, macros: 0, micros: 0, cfg: i, w, prev_equal: false }, format!("{} {}", c.const_name(), c.to_json().unwrap_or_default())));
		}
		v
	}
	fn actions(&self, s: &ISt, _: u32) -> Vec<(Act, u8)> {
		let mut v = vec![];
		if s.micros == 0 && s.macros < self.max_macros {
			for (r, l) in &self.menu {
				if !matches!(r, Regime::Negative | Regime::Swing | Regime::Calm) && s.g.t + l <= self.total_cap {
					v.push((Act::Macro(*r, *l), 0));
				}
			}
		}
		if s.macros > 0 && s.micros < self.micro_depth {
			for i in 0..self.micro.len() {
				v.push((Act::Micro(i), 0));
			}
		}
		v
	}
	fn show_act(&self, a: &Act) -> String {
		match a {
			Act::Macro(r, l) => format!("{r:?} x {l}"),
			Act::Micro(i) => In::C(self.micro[*i]).show(),
		}
	}
	fn step(&self, s: &ISt, a: &Act) -> Step<ISt> {
		let cfg = &self.cfgs[s.cfg];
		let name = cfg.const_name();
		let mut n = s.clone();
		let mut exempt = false;
		let mut pe = s.prev_equal;
		match a {
			Act::Macro(r, l) => {
				n.macros += 1;
				for j in 0..*l {
					let prev = n.g.last;
					let v = n.g.next(*r);
					let c = mk_candle(v, prev, n.g.t);
					let ro = match catch(|| n.old.next(&c)) {
						Ok(r) => r,
						Err(p) => return Step::Violation(Failure::new(format!("{name}/next/panic"), format!("inner step {j}: {}", p.msg))),
					};
					// an already primed fresh twin keeps running in lock-step
					if let Some(f) = n.fresh.as_mut() {
						if let Ok(rf) = catch(|| f.next(&c)) {
							match self.compare(name, &ro, &rf, n.g.t, n.g.jumped, &mut pe) {
								Ok(e) => exempt |= e,
								Err(f) => return Step::Violation(f),
							}
						}
					}
					n.ring.push_back(c);
					if n.ring.len() > n.w {
						n.ring.pop_front();
					}
				}
				// prime a fresh instance with the recent window
				let first = n.ring[0];
				let Ok(Ok(mut f)) = catch(|| cfg.init(&first)) else { return Step::Prune };
				for c in n.ring.iter() {
					if catch(|| f.next(c)).is_err() {
						return Step::Prune;
					}
				}
				n.fresh = Some(f);
				pe = false;
			}
			Act::Micro(i) => {
				n.micros += 1;
				n.g.t += 1;
				let sc = n.g.scale as V;
				let m = self.micro[*i];
				let c = Candle { open: m.open * sc, high: m.high * sc, low: m.low * sc, close: m.close * sc, volume: m.volume };
				let ro = match catch(|| n.old.next(&c)) {
					Ok(r) => r,
					Err(p) => return Step::Violation(Failure::new(format!("{name}/next/panic"), p.msg)),
				};
				if let Some(f) = n.fresh.as_mut() {
					if let Ok(rf) = catch(|| f.next(&c)) {
						match self.compare(name, &ro, &rf, n.g.t, n.g.jumped, &mut pe) {
							Ok(e) => exempt |= e,
							Err(f) => return Step::Violation(f),
						}
					}
				}
				n.ring.push_back(c);
				if n.ring.len() > n.w {
					n.ring.pop_front();
				}
			}
		}
		n.prev_equal = pe;
		if exempt {
			Step::Exempt(n, "undefined value")
		} else {
			Step::Next(n)
		}
	}
}

fn main() {
	refmodel::set_eps(eps());
	refmodel::set_floor(ValueType::MIN_POSITIVE as f64);
	let mut h = H::start("C07");
	let thorough = h.thorough();
	let only = std::env::var("VERIF_ONLY").ok();
	// ---- (1) counters: closure through the capacity of PeriodType
	if only.is_none() && PeriodType::MAX as u64 == 255 {
		for (name, p) in [
			("UpperReversalSignal", Params::NN(2, 1)),
			("LowerReversalSignal", Params::NN(1, 2)),
			("ReversalSignal", Params::NN(1, 1)),
			("HighestIndex", Params::N(3)),
			("LowestIndex", Params::N(3)),
			("Highest", Params::N(3)),
			("SMM", Params::N(3)),
			("Past", Params::N(3)),
		] {
			let syms: Vec<V> = vec![0.0, 1.0, 2.0];
			let sys = MSys {
				name: format!("{name}/counters-closure/({})", p.show()),
				spec: spec(name),
				params: vec![p.clone()],
				v0s: syms.iter().map(|x| In::V(*x)).collect(),
				alphabet: syms.iter().map(|x| In::V(*x)).collect(),
				mk_ref: |p, i| method_ref_dispatch(p, i),
				shape: Shape::Free,
				span: n_of,
				keyed: true,
				positions: None,
				check_peek: false,
				extra: None,
			};
			CUR.with(|c| *c.borrow_mut() = name);
			let sys = NamedRef(sys, name);
			h.go(&sys, &Limits::closure().states(8_000_000).wall_secs(120), false);
		}
	}
	// ---- (2) long histories
	let lens: Vec<u64> = if thorough { vec![254, 255, 256, 65_535, 65_536, 1_000_000] } else { vec![254, 255, 256, 65_536] };
	let mut menu: Vec<(Regime, u64)> = vec![];
	for l in &lens {
		menu.push((Regime::Volatile, *l));
	}
	menu.push((Regime::Flat, 300));
	menu.push((Regime::Ramp, 300));
	menu.push((Regime::Jump, if thorough { 65_536 } else { 4096 }));
	menu.push((Regime::Negative, 300));
	menu.push((Regime::Swing, 4096));
	menu.push((Regime::Calm, 64));
	// thorough: histories of 10^7 steps for the lengths 2 and 14 only (a second system per subject); every
	// length with the 10^6-step menu
	let mut menu_vl = menu.clone();
	if thorough {
		menu_vl.push((Regime::Volatile, 10_000_000));
		menu_vl.push((Regime::Jump, 1_000_000));
	}
	let total_cap: u64 = if thorough { 12_000_000 } else { 70_000 };
	for sp in registry() {
		let name: &'static str = sp.name;
		if let Some(o) = &only {
			if o != name {
				continue;
			}
		}
		if matches!(name, "Renko" | "CollapseTimeframe") {
			continue; // converters: C17
		}
		let params: Vec<Params> = match sp.par {
			ParKind::N => [2usize, 3, 14, 33, 100].iter().filter(|n| **n as u32 >= sp.min_len.max(1)).map(|n| Params::N(*n as PeriodType)).collect(),
			ParKind::NN => vec![Params::NN(2, 2), Params::NN(3, 10)],
			ParKind::Weights => vec![Params::W(vec![1.0, 2.0, 3.0])],
			ParKind::Unit => vec![Params::Unit],
			ParKind::Ma => vec![],
			_ => vec![],
		};
		let micro: Vec<In> = match sp.input {
			InKind::Value => vec![In::V(1.0), In::V(0.0), In::V(-3.0), In::V(1.5)],
			InKind::Pair => vec![In::P(1.0, 1.0), In::P(-3.0, 4.0), In::P(1.5, 0.0)],
			InKind::Candle => alpha::k_candles()[..3].iter().map(|c| In::C(*c)).collect(),
		};
		if sp.par == ParKind::Ma {
			// MA::init dispatch: one system per kind so that findings are attributed to the kind
			for k in MA_KINDS {
				let sys = LongSys { name: format!("MAInstance[{k}]/long-history"), spec_name: name, params: vec![Params::Ma(ma_of(k, 5))], menu: menu_vl.clone(), max_macros: 2, micro: micro.clone(), micro_depth: 1, total_cap };
				h.go(&sys, &Limits::depth(6).wall_secs(if thorough { 3600 } else { 120 }), true);
			}
			continue;
		}
		let sys = LongSys { name: format!("{name}/long-history"), spec_name: name, params: params.clone(), menu: menu.clone(), max_macros: 2, micro: micro.clone(), micro_depth: 2, total_cap };
		h.go(&sys, &Limits::depth(6).wall_secs(if thorough { 3600 } else { 120 }), true);
		if thorough {
			let few: Vec<Params> = params.iter().filter(|p| checks::grid::span(p) <= 14).cloned().collect();
			let only_vl: Vec<(Regime, u64)> = menu_vl.iter().filter(|(_, l)| *l >= 1_000_000 || *l == 300 || *l == 256).cloned().collect();
			let sys = LongSys { name: format!("{name}/long-history/1e7"), spec_name: name, params: few, menu: only_vl, max_macros: 2, micro, micro_depth: 1, total_cap };
			h.go(&sys, &Limits::depth(6).wall_secs(3600), true);
		}
	}
	// indicators with a reference model
	let ks = alpha::k_candles();
	for c in defaults() {
		let name = c.const_name();
		if let Some(o) = &only {
			if o != name {
				continue;
			}
		}
		let cfgs = checks::indcheck::indicator_configs(Some(name), false);
		let sys = ILongSys { name: format!("{name}/long-history-vs-fresh"), cfgs, menu: menu_vl.clone(), max_macros: 2, micro: ks[..3].to_vec(), micro_depth: 2, total_cap };
		h.go(&sys, &Limits::depth(5).wall_secs(if thorough { 3600 } else { 120 }), true);
	}
	h.run.note("longest_history", serde_json::json!(total_cap));
	h.run.note("macro_menu", serde_json::json!(menu.iter().map(|(r, l)| format!("{r:?} x {l}")).collect::<Vec<_>>()));
	h.finish();
}

// MSys wants a plain fn pointer for the reference constructor; the subject name is passed through a thread-local
thread_local! { static CUR: std::cell::RefCell<&'static str> = const { std::cell::RefCell::new("") }; }
fn method_ref_dispatch(_p: &Params, _i: &In) -> Box<dyn RefAny> {
	unreachable!("NamedRef builds the references")
}
/// wraps an MSys so that its inits use `method_ref(name, ..)`
struct NamedRef(MSys, &'static str);
impl System for NamedRef {
	type State = MState;
	type Act = In;
	fn name(&self) -> String {
		self.0.name.clone()
	}
	fn inits(&self) -> Vec<(MState, String)> {
		let mut v = vec![];
		for p in &self.0.params {
			for v0 in &self.0.v0s {
				let (Ok(Ok(imp)), Some(rf)) = (catch(|| (self.0.spec.ctor)(p, v0)), method_ref(self.1, p, v0)) else { continue };
				v.push((MState { imp, rf, prev: *v0, span: n_of(p), first_dev: None, last_dev: None, last_out: None }, format!("{}({}) v0={}", self.1, p.show(), v0.show())));
			}
		}
		v
	}
	fn actions(&self, s: &MState, depth: u32) -> Vec<(In, u8)> {
		// first input = construction value (prescribed use), then every symbol
		if depth == 0 {
			vec![(s.prev, 0)]
		} else {
			self.0.actions(s, depth)
		}
	}
	fn show_act(&self, a: &In) -> String {
		a.show()
	}
	fn key(&self, s: &MState) -> Option<u128> {
		self.0.key(s)
	}
	fn step(&self, s: &MState, a: &In) -> Step<MState> {
		self.0.step(s, a)
	}
}
