//! C04 — extremum, arg-extremum and median methods are exact selections.

use checks::mvr::*;
use checks::subj::*;
use checks::*;
use refmodel::methods as rm;

fn n_of(p: &Params) -> usize {
	match p {
		Params::N(n) => *n as usize,
		_ => 1,
	}
}

#[derive(Clone, Copy, PartialEq)]
enum Kind {
	Highest,
	Lowest,
	Delta,
	HighestIndex,
	LowestIndex,
	Smm,
}

#[derive(Clone)]
struct SelRef {
	s: rm::Sel,
	kind: Kind,
	mixed_zeros: bool,
}
impl RefAny for SelRef {
	fn next(&mut self, i: &In) -> (Expect, &'static str) {
		self.s.push(i.v() as f64);
		let w = self.s.window_oldest_first();
		let pz = w.iter().any(|x| *x == 0.0 && x.is_sign_positive());
		let nz = w.iter().any(|x| *x == 0.0 && x.is_sign_negative());
		if pz && nz {
			self.mixed_zeros = true;
		}
		let class = if self.mixed_zeros { "mixed-zeros-in-history" } else { "plain" };
		let e = match self.kind {
			Kind::Highest => Expect::Val(self.s.highest()),
			Kind::Lowest => Expect::Val(self.s.lowest()),
			Kind::Delta => Expect::Val(self.s.highest() - self.s.lowest()),
			Kind::HighestIndex => Expect::Exact(Out::I(self.s.highest_index() as u64)),
			Kind::LowestIndex => Expect::Exact(Out::I(self.s.lowest_index() as u64)),
			Kind::Smm => Expect::Val(self.s.median()),
		};
		(e, class)
	}
	fn box_clone(&self) -> Box<dyn RefAny> {
		Box::new(self.clone())
	}
	fn key(&self) -> String {
		format!("{:?}{}", self.s.window_oldest_first().iter().map(|x| x.to_bits()).collect::<Vec<_>>(), self.mixed_zeros)
	}
	fn window(&self) -> Option<Vec<f64>> {
		Some(self.s.window_oldest_first())
	}
}

fn mk_ref(name: &'static str) -> fn(&Params, &In) -> Box<dyn RefAny> {
	macro_rules! k {
		($k:expr) => {
			|p: &Params, i: &In| Box::new(SelRef { s: rm::Sel::new(n_of(p), i.v() as f64), kind: $k, mixed_zeros: false }) as Box<dyn RefAny>
		};
	}
	match name {
		"Highest" => k!(Kind::Highest),
		"Lowest" => k!(Kind::Lowest),
		"HighestLowestDelta" => k!(Kind::Delta),
		"HighestIndex" => k!(Kind::HighestIndex),
		"LowestIndex" => k!(Kind::LowestIndex),
		"SMM" => k!(Kind::Smm),
		_ => panic!(),
	}
}

/// SMM: the exported window holds exactly the last n inputs (read through Serialize)
fn smm_window(imp: &dyn Subject, rf: &dyn RefAny) -> Result<(), Failure> {
	let Some(want) = rf.window() else { return Ok(()) };
	let j = imp.to_json().map_err(|e| Failure::new("SMM/get_window/serialize-error", e))?;
	let v: serde_json::Value = serde_json::from_str(&j).map_err(|e| Failure::new("SMM/get_window/serialize-error", e.to_string()))?;
	let buf: Vec<f64> = v["window"]["buf"].as_array().map(|a| a.iter().map(|x| x.as_f64().unwrap_or(f64::NAN)).collect()).unwrap_or_default();
	let idx = v["window"]["index"].as_u64().unwrap_or(0) as usize;
	if buf.len() != want.len() {
		return Err(Failure::new("SMM/get_window/length", format!("window holds {} elements, expected {}", buf.len(), want.len())));
	}
	let mut got = buf.clone();
	got.rotate_left(idx % buf.len().max(1));
	if got.iter().zip(&want).any(|(a, b)| a.to_bits() != b.to_bits()) {
		return Err(Failure::new("SMM/get_window/contents", format!("window (oldest first) {got:?}, last inputs {want:?}")));
	}
	Ok(())
}

// ---- segment system: macro-steps of constant / ramp-up / ramp-down runs

#[derive(Clone, Copy, Debug, PartialEq)]
enum Shp {
	Const,
	Up,
	Down,
	/// golden-ratio Weyl sequence on 1024 levels: hardly any ties, the extremum leaves the window at irregular ages
	VolFine,
	/// the same quantised to 8 levels: ties and plateaus at irregular distances
	VolCoarse,
}
struct SegSys {
	name: String,
	spec_name: &'static str,
	ns: Vec<usize>,
	max_segs: u32,
}
#[derive(Clone)]
struct SegState {
	imp: Box<dyn Subject>,
	rf: Box<dyn RefAny>,
	cur: f64,
	n: usize,
	k: u64,
}
impl System for SegSys {
	type State = SegState;
	type Act = (Shp, u32);
	fn name(&self) -> String {
		self.name.clone()
	}
	fn inits(&self) -> Vec<(SegState, String)> {
		let sp = spec(self.spec_name);
		self.ns
			.iter()
			.map(|&n| {
				let p = Params::N(n as PeriodType);
				let v0 = In::V(0.0);
				(SegState { imp: (sp.ctor)(&p, &v0).unwrap(), rf: mk_ref(self.spec_name)(&p, &v0), cur: 0.0, n, k: 0 }, format!("{}({n}) v0=0", self.spec_name))
			})
			.collect()
	}
	fn actions(&self, s: &SegState, depth: u32) -> Vec<((Shp, u32), u8)> {
		if depth >= self.max_segs {
			return vec![];
		}
		let n = s.n as u32;
		let mut lens = vec![1, 2, n.saturating_sub(1), n, n + 1];
		lens.retain(|l| *l > 0);
		lens.sort_unstable();
		lens.dedup();
		let mut v = vec![];
		for sh in [Shp::Const, Shp::Up, Shp::Down] {
			for &l in &lens {
				v.push(((sh, l), 0));
			}
		}
		v.push(((Shp::VolFine, 3 * n + 17), 0));
		v.push(((Shp::VolCoarse, 3 * n + 17), 0));
		v
	}
	fn step(&self, s: &SegState, a: &(Shp, u32)) -> Step<SegState> {
		let mut n = s.clone();
		for j in 0..a.1 {
			n.k += 1;
			let w = (n.k as f64 * 0.618_033_988_749_894_9).fract();
			n.cur = match a.0 {
				Shp::Const => n.cur,
				Shp::Up => n.cur + 1.0,
				Shp::Down => n.cur - 1.0,
				// 1024 levels, multiples of 1/16: differences and two-value means are exact in f32 as well
				Shp::VolFine => (w * 1024.0).floor() / 16.0 - 32.0,
				Shp::VolCoarse => (w * 8.0).floor() - 4.0,
			};
			let i = In::V(n.cur as ValueType);
			let out = match catch(|| n.imp.next(&i)) {
				Ok(o) => o,
				Err(p) => return Step::Violation(Failure::new(format!("{}/next/panic", self.spec_name), format!("inner step {j}: panicked at {}: {}", p.at(), p.msg))),
			};
			let (exp, class) = n.rf.next(&i);
			if let Err(mut f) = agree(self.spec_name, "next", &out, &exp, class) {
				f.detail = format!("inner step {j} of {a:?}: {}", f.detail);
				return Step::Violation(f);
			}
			if let Some(p) = n.imp.peek() {
				if let Err(f) = agree(self.spec_name, "peek", &p, &exp, class) {
					return Step::Violation(f);
				}
			}
		}
		Step::Next(n)
	}
}

fn vals(v: &[ValueType]) -> Vec<In> {
	v.iter().map(|x| In::V(*x)).collect()
}

const SUBJ: [&str; 6] = ["Highest", "Lowest", "HighestLowestDelta", "HighestIndex", "LowestIndex", "SMM"];

fn main() {
	refmodel::set_eps(eps());
	refmodel::set_floor(ValueType::MIN_POSITIVE as f64);
	let mut h = H::start("C04");
	let thorough = h.thorough();
	let maxn = (PeriodType::MAX as usize - 1).min(254);
	for name in SUBJ {
		// closure over the order alphabet: covers every stream length and every weak order pattern
		let wide_quick = std::env::var("VERIF_WIDE").as_deref() == Ok("1");
		for n in 1..=(if thorough { 7 } else if wide_quick { 4 } else { 5 }) {
			let al = alpha::v_order(n);
			let sys = MSys {
				name: format!("{name}/closure/n={n}"),
				spec: spec(name),
				params: vec![Params::N(n as PeriodType)],
				v0s: vals(&al),
				alphabet: vals(&al),
				mk_ref: mk_ref(name),
				shape: Shape::Free,
				span: n_of,
				keyed: true,
				positions: None,
				check_peek: true,
				extra: if name == "SMM" { Some(smm_window) } else { None },
			};
			h.go(&sys, &Limits::closure().states(30_000_000).wall_secs(600), false);
		}
		// neighbouring floats are different values (no tolerance in a selection): depth-bounded over
		// {x, next(x), prev(x), x/2, 2x} at a power of two and at 150
		for (tag, x) in [("1.0", 1.0 as ValueType), ("150.0", 150.0 as ValueType)] {
			// (f32 builds: the mean of SMM's two middle values and the difference highest - lowest round in f32 but not in the f64 reference, and
			// the harness compares SMM's window through decimal text - both only meaningful for f64 here)
			if IS_F32 && (name == "SMM" || name == "HighestLowestDelta") {
				continue;
			}
			let up = ValueType::from_bits(x.to_bits() + 1);
			let dn = ValueType::from_bits(x.to_bits() - 1);
			let al = vec![x, up, dn, x / 2.0, x * 2.0];
			let sys = MSys {
				name: format!("{name}/depth/ulp-neighbours-of-{tag}"),
				spec: spec(name),
				params: [2usize, 3, 4].iter().map(|n| Params::N(*n as PeriodType)).collect(),
				v0s: vals(&al[..3]),
				alphabet: vals(&al),
				mk_ref: mk_ref(name),
				shape: Shape::Free,
				span: n_of,
				keyed: false,
				positions: None,
				check_peek: true,
				extra: if name == "SMM" { Some(smm_window) } else { None },
			};
			h.go(&sys, &Limits::depth(if thorough { 8 } else { 6 }).wall_secs(300), true);
		}
		// every length: <= 2 (3) segments of constant / ramp up / ramp down
		let mut ns: Vec<usize> = (1..=maxn).collect();
		if !thorough {
			ns.retain(|n| *n <= 32 || [63, 64, 65, 100, 127, 128, 129, 200, 253, 254].contains(n));
		}
		if PeriodType::MAX as u64 > 255 {
			ns.extend_from_slice(&[255, 256, 257, 300, 1000]);
		}
		let sys = SegSys { name: format!("{name}/segments-2/n={}..={}", ns[0], ns[ns.len() - 1]), spec_name: name, ns: ns.clone(), max_segs: 2 };
		h.go(&sys, &Limits::depth(2).wall_secs(600), true);
		let ns3: Vec<usize> = ns.iter().copied().filter(|n| *n <= (if thorough { 24 } else { 8 }) || (thorough && [127, 128, 253, 254].contains(n))).collect();
		let sys = SegSys { name: format!("{name}/segments-3/small-n"), spec_name: name, ns: ns3, max_segs: 3 };
		h.go(&sys, &Limits::depth(3).wall_secs(600), true);
	}
	h.run.assume("these algorithms only compare and copy: covering every weak order pattern and bit-equality pattern (both zeros) of a window covers all inputs of that length");
	h.finish();
}
