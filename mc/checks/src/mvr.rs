//! "Method versus reference": the generic product system (real yata method x reference
//! model) used by C02, C03, C04, C07, C15, C20.

use crate::subj::{In, Out, Params, Spec, Subject};
use crate::{catch, hash128_str, Failure, Step, System};
use refmodel::methods as rm;
use refmodel::Q;

/// what the reference expects of one output
#[derive(Clone, Debug)]
pub enum Expect {
	/// arithmetic output inside value ± radius
	Q(Q),
	/// the square of the output inside value ± radius (StDev compared on the variance)
	Sq(Q),
	/// exact value, up to the sign of zero
	Val(f64),
	/// exact output (index, action, candle ...), bitwise
	Exact(Out),
	/// candle with per-field radii (open, high, low, close), volume exact
	Candle([Q; 4], f64),
	/// the definition is silent
	Silent,
}

pub trait RefAny: Send + Sync {
	/// advance with one input and say what the output must be; `class` names the input class of this step
	fn next(&mut self, i: &In) -> (Expect, &'static str);
	fn box_clone(&self) -> Box<dyn RefAny>;
	/// canonical text of the reference state for closure keys (bounded suffix of the input)
	fn key(&self) -> String {
		String::new()
	}
	/// the inputs the definition currently looks at, oldest first (for extra diagnostics)
	fn window(&self) -> Option<Vec<f64>> {
		None
	}
}
impl Clone for Box<dyn RefAny> {
	fn clone(&self) -> Self {
		self.box_clone()
	}
}

/// adapter for value->value references
#[derive(Clone)]
pub struct VVRef {
	pub r: Box<dyn rm::RefVV>,
	pub sq: bool,
}
impl RefAny for VVRef {
	fn next(&mut self, i: &In) -> (Expect, &'static str) {
		let q = self.r.next(i.v() as f64);
		(if self.sq { Expect::Sq(q) } else { Expect::Q(q) }, "value")
	}
	fn box_clone(&self) -> Box<dyn RefAny> {
		Box::new(self.clone())
	}
}

pub fn vv(r: impl rm::RefVV + 'static) -> Box<dyn RefAny> {
	Box::new(VVRef { r: Box::new(r), sq: false })
}

/// compare one output with the expectation. Ok(true) = exempt.
pub fn agree(subject: &str, what: &str, out: &Out, exp: &Expect, class: &str) -> Result<bool, Failure> {
	let fail = |kind: &str, d: String| Failure::new(format!("{subject}/{what}/{kind}/{class}"), d);
	match exp {
		Expect::Silent => Ok(true),
		Expect::Q(q) => {
			let Out::V(v) = out else { return Err(fail("kind", format!("output {} is not a value", out.show()))) };
			if !q.is_defined() {
				// formula undefined: no value is demanded (finiteness is C12's business)
				return Ok(true);
			}
			if q.contains(*v as f64) {
				Ok(false)
			} else {
				Err(fail("value", format!("output {:?}, definition {:?} ± {:.3e} (off by {:.3e})", v, q.v, q.r, (*v as f64 - q.v).abs())))
			}
		}
		Expect::Sq(q) => {
			let Out::V(v) = out else { return Err(fail("kind", format!("output {} is not a value", out.show()))) };
			if !q.is_defined() {
				return Ok(true);
			}
			let s = (*v as f64) * (*v as f64);
			if (*v as f64) >= 0.0 && q.widen(4.0 * refmodel::eps() * s.abs()).contains(s) {
				Ok(false)
			} else {
				Err(fail("value", format!("output {:?} (square {:?}), definition of the square {:?} ± {:.3e}", v, s, q.v, q.r)))
			}
		}
		Expect::Val(x) => {
			let Out::V(v) = out else { return Err(fail("kind", format!("output {} is not a value", out.show()))) };
			if (*v as f64) == *x {
				Ok(false)
			} else {
				Err(fail("exact", format!("output {:?}, definition {:?} (exact selection)", v, x)))
			}
		}
		Expect::Exact(o) => {
			if out.same_bits(o) {
				Ok(false)
			} else {
				Err(fail("exact", format!("output {}, definition {}", out.show(), o.show())))
			}
		}
		Expect::Candle(qs, vol) => {
			let Out::C(c) = out else { return Err(fail("kind", format!("output {} is not a candle", out.show()))) };
			let got = [c.open, c.high, c.low, c.close];
			for (i, nm) in ["open", "high", "low", "close"].iter().enumerate() {
				if !qs[i].contains(got[i] as f64) {
					return Err(fail(&format!("candle-{nm}"), format!("{nm} = {:?}, definition {:?} ± {:.3e}", got[i], qs[i].v, qs[i].r)));
				}
			}
			if !(c.volume as f64 == *vol || (c.volume.is_nan() && vol.is_nan())) {
				return Err(fail("candle-volume", format!("volume = {:?}, definition {:?}", c.volume, vol)));
			}
			Ok(false)
		}
	}
}

#[derive(Clone, Copy, Debug, PartialEq)]
pub enum Shape {
	/// every symbol at every step
	Free,
	/// flat continuation costs 0, any other symbol costs 1; the second deviation only at the
	/// offsets {1, 2, n-1, n, n+1} after the first; the run ends n+3 steps after the last deviation
	Flat,
}

pub struct MSys {
	pub name: String,
	pub spec: Spec,
	pub params: Vec<Params>,
	pub v0s: Vec<In>,
	pub alphabet: Vec<In>,
	pub mk_ref: fn(&Params, &In) -> Box<dyn RefAny>,
	pub shape: Shape,
	/// window length of a parameter set (for the Flat horizon)
	pub span: fn(&Params) -> usize,
	/// use (impl debug text + reference key) as the merge key
	pub keyed: bool,
	/// restrict first-deviation positions (Flat shape); None = all
	pub positions: Option<fn(usize) -> Vec<u32>>,
	/// compare peek() after every step
	pub check_peek: bool,
	/// additional observer evaluated after every step
	pub extra: Option<fn(&dyn Subject, &dyn RefAny) -> Result<(), Failure>>,
}

#[derive(Clone)]
pub struct MState {
	pub imp: Box<dyn Subject>,
	pub rf: Box<dyn RefAny>,
	pub prev: In,
	pub span: usize,
	pub first_dev: Option<u32>,
	pub last_dev: Option<u32>,
	pub last_out: Option<Out>,
}

impl System for MSys {
	type State = MState;
	type Act = In;
	fn name(&self) -> String {
		self.name.clone()
	}
	fn inits(&self) -> Vec<(MState, String)> {
		let mut v = vec![];
		for p in &self.params {
			for v0 in &self.v0s {
				let imp = match catch(|| (self.spec.ctor)(p, v0)) {
					Ok(Ok(i)) => i,
					_ => continue, // constructor behaviour is C10's business
				};
				v.push((
					MState { imp, rf: (self.mk_ref)(p, v0), prev: *v0, span: (self.span)(p), first_dev: None, last_dev: None, last_out: None },
					format!("{}({}) v0={}", self.spec.name, p.show(), v0.show()),
				));
			}
		}
		v
	}
	fn actions(&self, s: &MState, depth: u32) -> Vec<(In, u8)> {
		match self.shape {
			Shape::Free => self.alphabet.iter().map(|a| (*a, 0)).collect(),
			Shape::Flat => {
				let n = s.span as u32;
				if let Some(l) = s.last_dev {
					if depth > l + n + 3 {
						return vec![];
					}
				}
				let mut v = vec![(s.prev, 0u8)];
				let allowed = match (s.first_dev, s.last_dev) {
					(None, _) => match self.positions {
						None => true,
						Some(f) => f(s.span).contains(&depth),
					},
					(Some(f), Some(l)) if f == l => {
						let off = depth - f;
						off == 1 || off == 2 || off + 1 == n || off == n || off == n + 1
					}
					_ => false,
				};
				if allowed {
					for a in &self.alphabet {
						if *a != s.prev {
							v.push((*a, 1));
						}
					}
				}
				v
			}
		}
	}
	fn show_act(&self, a: &In) -> String {
		a.show()
	}
	fn key(&self, s: &MState) -> Option<u128> {
		if self.keyed {
			Some(hash128_str(&format!("{}|{}|{:?}", s.imp.debug_key(), s.rf.key(), s.span)))
		} else {
			None
		}
	}
	fn step(&self, s: &MState, a: &In) -> Step<MState> {
		let mut n = s.clone();
		let name = self.spec.name;
		let out = match catch(|| n.imp.next(a)) {
			Ok(o) => o,
			Err(p) => return Step::Violation(Failure::new(format!("{name}/next/panic"), format!("next({}) panicked at {}: {}", a.show(), p.at(), p.msg))),
		};
		let (exp, class) = n.rf.next(a);
		if *a != s.prev {
			// bookkeeping for the Flat shape (depth is not available here; the explorer's depth == number of steps so far)
		}
		let exempt = match agree(name, "next", &out, &exp, class) {
			Ok(e) => e,
			Err(f) => return Step::Violation(f),
		};
		if self.check_peek {
			if let Some(p) = n.imp.peek() {
				if let Err(f) = agree(name, "peek", &p, &exp, class) {
					// the successor state is still well defined: keep exploring `next`
					n.last_out = Some(out);
					n.prev = *a;
					return Step::ViolationContinue(n, f);
				}
			}
		}
		if let Some(x) = self.extra {
			if let Err(f) = x(n.imp.as_ref(), n.rf.as_ref()) {
				return Step::Violation(f);
			}
		}
		n.last_out = Some(out);
		n.prev = *a;
		if exempt {
			Step::Exempt(n, "formula undefined")
		} else {
			Step::Next(n)
		}
	}
}

/// A wrapper that tracks the depth for the Flat shape (positions of deviations).
pub struct Flat(pub MSys);

#[derive(Clone)]
pub struct FState {
	pub m: MState,
	pub depth: u32,
}

impl System for Flat {
	type State = FState;
	type Act = In;
	fn name(&self) -> String {
		self.0.name.clone()
	}
	fn inits(&self) -> Vec<(FState, String)> {
		self.0.inits().into_iter().map(|(m, l)| (FState { m, depth: 0 }, l)).collect()
	}
	fn actions(&self, s: &FState, depth: u32) -> Vec<(In, u8)> {
		self.0.actions(&s.m, depth)
	}
	fn show_act(&self, a: &In) -> String {
		a.show()
	}
	fn key(&self, s: &FState) -> Option<u128> {
		self.0.key(&s.m)
	}
	fn step(&self, s: &FState, a: &In) -> Step<FState> {
		let dev = *a != s.m.prev;
		let wrap = |mut m: MState| {
			if dev {
				if m.first_dev.is_none() {
					m.first_dev = Some(s.depth);
				}
				m.last_dev = Some(s.depth);
			}
			FState { m, depth: s.depth + 1 }
		};
		match self.0.step(&s.m, a) {
			Step::Next(m) => Step::Next(wrap(m)),
			Step::Exempt(m, w) => Step::Exempt(wrap(m), w),
			Step::Violation(f) => Step::Violation(f),
			Step::ViolationContinue(m, f) => Step::ViolationContinue(wrap(m), f),
			Step::Prune => Step::Prune,
		}
	}
}

/// A flat stream with ONE burst: a short pattern of offsets from the level (a compensated bump such as
/// +1, -2, +1 whose sum and first moment vanish, a ramp, a pulse pair ...) inserted at one position; the
/// level is held for span+3 steps afterwards. The patterns are what a running sum / running weighted sum
/// cannot tell from a flat window by looking at its totals. Value inputs only.
pub struct Burst {
	pub sys: MSys,
	/// offsets from the level, one pattern per entry
	pub patterns: Vec<Vec<f64>>,
	/// positions (steps before the burst) allowed for a window length; None = every position up to 2*span+2
	pub positions: Option<fn(usize) -> Vec<u32>>,
}
#[derive(Clone)]
pub struct BState {
	pub m: MState,
	pub depth: u32,
	pub burst_end: Option<u32>,
}
impl System for Burst {
	type State = BState;
	type Act = Option<usize>;
	fn name(&self) -> String {
		self.sys.name.clone()
	}
	fn inits(&self) -> Vec<(BState, String)> {
		self.sys.inits().into_iter().map(|(m, l)| (BState { m, depth: 0, burst_end: None }, l)).collect()
	}
	fn actions(&self, s: &BState, _: u32) -> Vec<(Option<usize>, u8)> {
		let n = s.m.span as u32;
		match s.burst_end {
			Some(e) => {
				if s.depth > e + n + 3 { vec![] } else { vec![(None, 0)] }
			}
			None => {
				let mut v = vec![];
				if s.depth < 2 * n + 2 {
					v.push((None, 0));
				}
				let allowed = match self.positions {
					None => true,
					Some(f) => f(s.m.span).contains(&s.depth),
				};
				if allowed {
					v.extend((0..self.patterns.len()).map(|i| (Some(i), 1)));
				}
				v
			}
		}
	}
	fn show_act(&self, a: &Option<usize>) -> String {
		match a {
			None => "level".into(),
			Some(i) => format!("burst{:?}", self.patterns[*i]),
		}
	}
	fn step(&self, s: &BState, a: &Option<usize>) -> Step<BState> {
		let level = s.m.prev;
		let In::V(lv) = level else { return Step::Prune };
		let seq: Vec<In> = match a {
			None => vec![level],
			Some(i) => self.patterns[*i].iter().map(|d| In::V(lv + *d as yata::core::ValueType)).chain([level]).collect(),
		};
		let mut m = s.m.clone();
		let mut depth = s.depth;
		let mut exempt = None;
		for x in &seq {
			match self.sys.step(&m, x) {
				Step::Next(n) => m = n,
				Step::Exempt(n, w) => {
					m = n;
					exempt = Some(w);
				}
				Step::ViolationContinue(n, f) => {
					let _ = n;
					return Step::Violation(f);
				}
				Step::Violation(f) => return Step::Violation(Failure::new(f.sig, format!("{} [inside the burst, at value {}]", f.detail, x.show()))),
				Step::Prune => return Step::Prune,
			}
			depth += 1;
		}
		// the level is what continues
		m.prev = level;
		let n = BState { m, depth, burst_end: if a.is_some() { Some(depth) } else { s.burst_end } };
		match exempt {
			Some(w) => Step::Exempt(n, w),
			None => Step::Next(n),
		}
	}
}

/// the burst patterns: compensated bumps (zero sum, zero first moment), zero-sum pairs, ramps, a plateau
pub fn burst_patterns() -> Vec<Vec<f64>> {
	vec![vec![1.0, -2.0, 1.0], vec![-1.0, 2.0, -1.0], vec![1.0, -1.0], vec![1.0, 0.0, -1.0], vec![1.0, 1.0, -2.0], vec![1.0, -3.0, 3.0, -1.0], vec![2.0, 2.0, 2.0], vec![1.0, 2.0, 3.0], vec![1.0, -2.0, 0.0, 2.0, -1.0]]
}
