//! Keltner Channel. Doc (and <https://en.wikipedia.org/wiki/Keltner_channel>):
//!   middle line = MA(source) (`ma`, "Middle moving average"), the bounds lie `sigma` ("True range
//!   multiplier") average true ranges above / below it:
//!     upper = MA(source) + sigma * ATR,  lower = MA(source) - sigma * ATR,
//!   TR = max(high - low, |high - previous close|, |low - previous close|).
//! 3 values (documented list): `upper bound`, `source` value, `lower bound`.
//! 1 signal: `source` goes above the `upper bound`: full buy; `source` goes under the `lower bound`:
//!   full sell; otherwise no signal.
use super::*;

#[derive(Clone)]
pub struct Keltner {
	src: String,
	sigma: f64,
	ma: Box<dyn rm::RefVV>,
	atr: rm::Fir,
	prev_close: f64,
	above: CrossD,
	under: CrossD,
}

pub fn make(cfg: &Cfg, c0: &RC) -> Option<Box<dyn IndRef>> {
	let src = cfg.src("source");
	let sigma = cfg.float("sigma");
	let s0 = source(c0, &src);
	let (_, period) = cfg.ma("ma");
	// true range of the constant prehistory: every candle is c0 and follows a close of c0
	let tr0 = c0.tr(c0.c);
	// prehistory: middle = source, bounds = source ± sigma * tr0
	let d0 = sigma * tr0.v;
	Some(Box::new(Keltner {
		ma: cfg.ma_ref("ma", s0),
		// † follows the implementation: the documentation does not say how the true range is averaged
		// (Wikipedia names several variants); the implementation uses a simple moving average over the
		// period of `ma`
		atr: rm::Fir::new(rm::w_sma(period), tr0),
		prev_close: c0.c,
		// previous differences in the prehistory: source - upper = -sigma*tr0, source - lower = +sigma*tr0
		above: CrossD::new(-d0),
		under: CrossD::new(d0),
		src,
		sigma,
	}))
}

impl IndRef for Keltner {
	fn values(&mut self, c: &RC) -> Vec<Q> {
		let s = source(c, &self.src);
		let tr = c.tr(self.prev_close);
		self.prev_close = c.c;
		let m = self.ma.stepq(s);
		let atr = self.atr.step(tr);
		let upper = m + atr.scale(self.sigma);
		let lower = m - atr.scale(self.sigma);
		// † follows the implementation: the documentation lists (upper bound, source, lower bound); the
		// implementation returns (source, upper bound, lower bound). The slots are compared in the
		// implementation's order (reported as a discrepancy).
		vec![s, upper, lower]
	}
	fn signals(&mut self, _c: &RC, own: &[f64]) -> Vec<Sig> {
		let (s, upper, lower) = (own[0], own[1], own[2]);
		let up = self.above.above(s, upper);
		let down = self.under.under(s, lower);
		vec![sig_sign(up as i32 - down as i32)]
	}
	indref!(Keltner);
}
