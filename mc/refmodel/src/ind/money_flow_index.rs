//! Money Flow Index. Doc: 3 values — `upper bound` const value, `MFI` value in [0, 1], `lower bound` const
//! value; `zone` = "signal zone size" (0.5: the bounds coincide), i.e. lower = zone, upper = 1 - zone.
//! Formula (<https://en.wikipedia.org/wiki/Money_flow_index>, scaled to [0, 1] as documented):
//!   typical price tp = (high + low + close) / 3; money flow = tp * volume;
//!   positive (negative) money flow = Σ over the last `period` bars of the money flow of the bars whose tp is
//!   higher (lower) than the previous bar's tp;
//!   money ratio = positive / negative; MFI = 1 - 1 / (1 + money ratio) = positive / (positive + negative).
//! 2 signals:
//!   #0 MFI crosses the lower bound downwards: full buy; crosses the upper bound upwards: full sell;
//!   #1 MFI crosses the lower bound upwards: full buy; crosses the upper bound downwards: full sell.
use super::*;
use std::collections::VecDeque;


#[derive(Clone, Copy)]
struct Bar {
	/// +1: tp rose, -1: tp fell, 0: unchanged
	dir: i8,
	/// the direction could not be decided (sums differ by rounding only)
	ambiguous: bool,
	/// money flow of the bar
	mf: Q,
	/// the money flow is exactly zero (no volume, or a zero price)
	zero: bool,
}

#[derive(Clone)]
pub struct Mfi {
	n: usize,
	zone: f64,
	last_sum: f64,
	bars: VecDeque<Bar>,
	t: usize,
	mag: f64,
	defined: bool,
	prev_defined: bool,
	x_upper: CrossD,
	x_lower: CrossD,
	/// implementation reading (recorded discrepancies): sums plain volume instead of tp*volume, and answers
	/// 0.5 whenever the negative flow of the window is exactly zero
	follow_impl: bool,
	/// implementation reading only: the running negative flow as the implementation maintains it
	/// (+ entering - leaving, rounded in the value type), which is what its `== 0` test looks at
	nmf_sim: f64,
}

/// round to the value type of the build under test
fn rnd(x: f64) -> f64 {
	if crate::eps() > 1e-10 {
		x as f32 as f64
	} else {
		x
	}
}

pub fn make(cfg: &Cfg, c0: &RC) -> Option<Box<dyn IndRef>> {
	build(cfg, c0, false)
}
pub fn make_alt(cfg: &Cfg, c0: &RC) -> Option<Box<dyn IndRef>> {
	build(cfg, c0, true)
}
fn build(cfg: &Cfg, c0: &RC, follow_impl: bool) -> Option<Box<dyn IndRef>> {
	let n = cfg.int("period");
	if n == 0 {
		// the documented range of `period` starts at 2
		return None;
	}
	// prehistory: the typical price never changes, so no bar carries any flow
	let flat = Bar { dir: 0, ambiguous: false, mf: Q::exact(0.0), zero: true };
	Some(Box::new(Mfi {
		n,
		zone: cfg.float("zone"),
		last_sum: c0.h + c0.l + c0.c,
		bars: std::iter::repeat(flat).take(n).collect(),
		t: 0,
		mag: 0.0,
		// MFI of the prehistory is 0/0
		defined: false,
		prev_defined: false,
		x_upper: CrossD::new(f64::NAN),
		x_lower: CrossD::new(f64::NAN),
		follow_impl,
		nmf_sim: 0.0,
	}))
}

impl IndRef for Mfi {
	fn values(&mut self, c: &RC) -> Vec<Q> {
		self.t += 1;
		let s = c.h + c.l + c.c;
		let p = self.last_sum;
		self.last_sum = s;
		let tol = 8.0 * crate::eps() * s.abs().max(p.abs());
		let ambiguous = s != p && (s - p).abs() <= tol;
		let dir = if s > p { 1 } else if s < p { -1 } else { 0 };
		let (mf, zero) = if !self.follow_impl { (c.tp() * Q::exact(c.v), c.v == 0.0 || s == 0.0) } else { (Q::exact(c.v), c.v == 0.0) };
		self.mag = self.mag.max(mf.v.abs());
		self.bars.push_back(Bar { dir, ambiguous, mf, zero });
		let mut left_neg = 0.0;
		while self.bars.len() > self.n {
			let b = self.bars.pop_front().unwrap();
			if b.dir == -1 {
				left_neg = b.mf.v;
			}
		}
		if self.follow_impl {
			let neg = if dir == -1 { mf.v } else { 0.0 };
			self.nmf_sim = rnd(self.nmf_sim + rnd(neg - left_neg));
		}

		let upper = Q::exact(1.0 - self.zone).widen(2.0 * crate::eps());
		let lower = Q::exact(self.zone);

		self.prev_defined = self.defined;
		let undecided = self.bars.iter().any(|b| b.ambiguous || !b.mf.is_defined());
		// exact predicate: no bar of the window carries a flow in either direction -> 0/0
		let no_flow = self.bars.iter().all(|b| b.dir == 0 || b.zero);
		self.defined = !undecided && !no_flow;
		if self.follow_impl && !undecided && self.bars.iter().all(|b| b.dir != -1 || b.zero) {
			// implementation reading: negative flow exactly zero -> ratio 1 -> 0.5; the test is made on the
			// running sum, where a rounding residue of flows that have left the window defeats it
			self.defined = true;
			if self.nmf_sim != 0.0 {
				return vec![upper, Q::undefined(), lower];
			}
			return vec![upper, Q::exact(0.5), lower];
		}
		if !self.defined {
			return vec![upper, Q::undefined(), lower];
		}
		// window sums; the allowance covers sums that are maintained incrementally over the whole stream
		let allow = crate::win_allow(self.t, self.n, self.n as f64, self.mag);
		let sum = |d: i8| {
			let mut v = 0.0;
			let mut r = allow;
			for b in self.bars.iter().filter(|b| b.dir == d && !b.zero) {
				v += b.mf.v;
				r += b.mf.r;
			}
			Q::new(v, r)
		};
		let pos = sum(1);
		let neg = sum(-1);
		let mfi = pos / (pos + neg);
		vec![upper, mfi, lower]
	}
	fn signals(&mut self, _c: &RC, own: &[f64]) -> Vec<Sig> {
		let (upper, mfi, lower) = (own[0], own[1], own[2]);
		let xu = self.x_upper.cross(mfi, upper);
		let xl = self.x_lower.cross(mfi, lower);
		if !self.defined || !self.prev_defined {
			// MFI is 0/0 at this or at the previous step (in particular in the prehistory): "crosses" has no meaning
			return vec![Sig::Any, Sig::Any];
		}
		let enters = (xl < 0) as i32 - (xu > 0) as i32;
		let leaves = (xl > 0) as i32 - (xu < 0) as i32;
		vec![sig_sign(enters), sig_sign(leaves)]
	}
	indref!(Mfi);
}
