//! Hull Moving Average. Doc: 1 value — `HMA value`; linked formula (fidelity):
//!     HMA(n) = WMA( 2 · WMA(src, n/2) − WMA(src, n), sqrt(n) )   (integer parts of n/2 and sqrt(n)).
//! 1 signal: `HMA value` reverses upwards: full positive signal; reverses downwards: full negative
//!   signal; otherwise no signal. `left` / `right` = lags of the reverse point detection.
use super::*;

#[derive(Clone)]
pub struct HullMovingAverage {
	src: String,
	hma: Box<dyn rm::RefVV>,
	rev: Rev,
}

/// the source as a plain number (value of the HMA line on the constant prehistory)
fn src_f64(c: &RC, kind: &str) -> f64 {
	match kind {
		"close" => c.c,
		"open" => c.o,
		"high" => c.h,
		"low" => c.l,
		"hl2" => (c.h + c.l) * 0.5,
		"tp" => (c.h + c.l + c.c) / 3.0,
		"volume" => c.v,
		"volumed_price" => (c.h + c.l + c.c) / 3.0 * c.v,
		o => panic!("unknown source {o}"),
	}
}

pub fn make(cfg: &Cfg, c0: &RC) -> Option<Box<dyn IndRef>> {
	let src = cfg.src("source");
	let n = cfg.int("period");
	Some(Box::new(HullMovingAverage {
		// every weighted average of the constant prehistory is that constant, and so is 2·c − c
		hma: rm::ma_q("hma", n, source(c0, &src)),
		// a reverse point = a pivot of the HMA line (the crate's ReversalSignal(left, right)): a lower pivot
		// is where the line turns upwards, an upper pivot where it turns downwards; the line of the
		// prehistory is the constant source
		rev: Rev::new(cfg.int("left"), cfg.int("right"), src_f64(c0, &src)),
		src,
	}))
}

impl IndRef for HullMovingAverage {
	fn values(&mut self, c: &RC) -> Vec<Q> {
		vec![self.hma.stepq(source(c, &self.src))]
	}
	fn signals(&mut self, _c: &RC, own: &[f64]) -> Vec<Sig> {
		// NOTE (finding, not modelled): the implementation seeds its pivot detector with the raw source of
		// the first candle and credits position 0 with the larger (upper pivots) / smaller (lower pivots) of
		// that seed and the first HMA value, so it reports pivots at the first candle that the HMA line does
		// not have (e.g. a full sell on a constant stream whose HMA sits 1 ulp under the source) and cancels
		// a real one against such a phantom. With that treatment emulated the two agree everywhere explored.
		vec![sig_sign(self.rev.step(own[0]))]
	}
	indref!(HullMovingAverage);
}
