//! Fisher Transform. Doc: 2 values — FT `main value`, `signal value` line. Linked formula
//! (wikipedia / investopedia; the comment above the doc block repeats it):
//!     FT = 1/2 · ln((1 + x)/(1 − x)) = atanh(x),
//!     x = the price converted to a level between −1 and 1 over the last `period1` prices, i.e.
//!     x = 2 · (src − lowest)/(highest − lowest) − 1;
//!   "calculated values are added to the prior calculated value" (investopedia, step 6);
//!   signal line = `signal` moving average of the main value.
//! 2 signals:
//!   #0 "appears when `main value` crosses zero line. When `main value` changes direction, returns signal
//!       corresponds to relative position of `main value` in `zone`";
//!   #1 "appears when `main value` crosses `signal line` and after signal 1 appears".
//! The two sentences of #0 name two different events and #1 does not say how long "after" lasts nor
//! what strength it has, so the firing conditions below follow the implementation (†).
use super::*;
use std::collections::VecDeque;

#[derive(Clone)]
pub struct FisherTransform {
	src: String,
	n: usize,
	zone: f64,
	win: rm::Sel,
	candles: VecDeque<RC>,
	cum: Q,
	sig: Box<dyn rm::RefVV>,
	// signals (on the indicator's own values)
	prev_own: f64,
	rev: CrossD,
	x_sig: CrossD,
	last_rev: i32,
}

pub fn make(cfg: &Cfg, c0: &RC) -> Option<Box<dyn IndRef>> {
	let src = cfg.src("source");
	let n = cfg.int("period1");
	let s0 = source(c0, &src);
	Some(Box::new(FisherTransform {
		win: rm::Sel::new_q(n, s0),
		candles: std::iter::repeat(*c0).take(n).collect(),
		// constant prehistory: highest = lowest, the transform is 0 (see below) and so are the main value
		// and its average
		cum: Q::exact(0.0),
		sig: cfg.ma_ref("signal", Q::exact(0.0)),
		prev_own: 0.0,
		// previous differences in the prehistory: main − previous main = 0, main − signal line = 0
		rev: CrossD::new(0.0),
		x_sig: CrossD::new(0.0),
		last_rev: 0,
		zone: cfg.float("zone"),
		src,
		n,
	}))
}

const BOUND: f64 = 0.999;

impl IndRef for FisherTransform {
	fn values(&mut self, c: &RC) -> Vec<Q> {
		let s = source(c, &self.src);
		self.win.pushq(s);
		self.candles.push_back(*c);
		while self.candles.len() > self.n {
			self.candles.pop_front();
		}
		let rad = self.win.rad();
		let hi = Q::new(self.win.highest(), rad);
		let lo = Q::new(self.win.lowest(), rad);
		// exact predicate of the inputs: every candle of the window is the same candle
		let same_candle = self.candles.iter().all(|x| x == c);
		// hl2 = (high + low)/2 is a single rounded sum (halving is exact): equality of such values is decided
		// exactly as well, whereas tp and volumed_price depend on how the three-term mean is evaluated
		let exact_source = rad == 0.0 || self.src == "hl2";
		let ft = if hi.v == lo.v && (exact_source || same_candle) {
			// † follows the implementation: on a zero range (x = 0/0) the transform counts as 0
			Q::exact(0.0)
		} else if (hi - lo).straddles(0.0) {
			// zero range up to the rounding of the source: the guard cannot be decided
			Q::undefined()
		} else {
			let x = ((s - lo) / (hi - lo)).scale(2.0) - Q::exact(1.0);
			// † follows the implementation: x = ±1 (the price at an end of its range) has no finite
			// transform; x is limited to ±0.999
			x.clamp(-BOUND, BOUND).atanh()
		};
		// † follows the implementation: the prior value enters with the weight 1/2 (Ehlers' recursion;
		// the linked pages only say "added to the prior calculated value")
		self.cum = self.cum.scale(0.5) + ft;
		if !self.cum.is_defined() {
			// the recursion carries an undecidable step forever; the average is not fed with it
			return vec![Q::undefined(), Q::undefined()];
		}
		let line = self.sig.stepq(self.cum);
		vec![self.cum, line]
	}
	fn signals(&mut self, _c: &RC, own: &[f64]) -> Vec<Sig> {
		let (main, line) = (own[0], own[1]);
		// change of direction: the step-to-step change of the main value changes its sign
		let rev = self.rev.cross(main, self.prev_own);
		self.prev_own = main;
		// † follows the implementation: a turn upwards counts while the main value is negative, a turn
		// downwards while it is positive; the strength is the position of the main value in the zone
		let s0 = if (main < 0.0 && rev > 0) || (main > 0.0 && rev < 0) { sig_ratio(main / self.zone) } else { Sig::None };
		let crossed = self.x_sig.cross(main, line);
		if rev != 0 {
			self.last_rev = rev;
		}
		// † follows the implementation: "after signal 1" = the latest change of direction (whether or not
		// signal 1 was emitted for it) points the same way as the crossing; the strength is the position of
		// the signal line in the zone
		let s1 = if (line < 0.0 && self.last_rev > 0 && crossed > 0) || (line > 0.0 && self.last_rev < 0 && crossed < 0) { sig_ratio(line / self.zone) } else { Sig::None };
		vec![s0, s1]
	}
	indref!(FisherTransform);
}
