//! SMIErgodicIndicator. Doc (links motivewave's "SMI Ergodic Indicator"): the SMI is the True Strength
//! Index with a long (`period1`) and a short (`period2`) smoothing, the signal line is a moving
//! average of it, the oscillator is their difference.
//! 3 values: `SMI` main value; `Signal line` value; `Oscillator` value (= SMI - signal line).
//! 1 signal: "When `Signal line` value is below `-zone` and `SMI` value crosses `Signal line` upwards,
//! returns full buy signal. When `Signal line` value is above `+zone` and `SMI` value crosses
//! `Signal line` downwards, returns full sell signal. Otherwise returns no signal."
use super::*;

#[derive(Clone)]
pub struct SMIErgodicIndicator {
	src: String,
	zone: f64,
	tsi: rm::Tsi,
	sig: Box<dyn rm::RefVV>,
	x: CrossD,
}

impl IndRef for SMIErgodicIndicator {
	fn values(&mut self, c: &RC) -> Vec<Q> {
		let s = source(c, &self.src);
		let smi = self.tsi.step(s);
		// an undefined main value makes the signal line undefined for as long as the average remembers it
		// (finite centre: the median average sorts its window)
		let sig = self.sig.stepq(if smi.is_defined() { smi } else { Q::new(0.0, f64::INFINITY) });
		vec![smi, sig, smi - sig]
	}
	fn signals(&mut self, _c: &RC, own: &[f64]) -> Vec<Sig> {
		let (smi, sig) = (own[0], own[1]);
		let x = self.x.cross(smi, sig);
		let s = (x > 0 && sig < -self.zone) as i32 - (x < 0 && sig > self.zone) as i32;
		vec![sig_sign(s)]
	}
	indref!(SMIErgodicIndicator);
}

pub fn make(cfg: &Cfg, c0: &RC) -> Option<Box<dyn IndRef>> {
	let src = cfg.src("source");
	let (long, short) = (cfg.int("period1"), cfg.int("period2"));
	let s0 = source(c0, &src);
	Some(Box::new(SMIErgodicIndicator {
		zone: cfg.float("zone"),
		// constant prehistory: no momentum at all, the TSI is 0 there, and so is its average
		tsi: rm::Tsi::new(short, long, s0.v),
		sig: cfg.ma_ref("signal", Q::exact(0.0)),
		x: CrossD::new(0.0),
		src,
	}))
}
