//! AverageDirectionalIndex. Doc: 3 values — `ADX`, `+DI`, `-DI`, each in [0, 1]; linked formula
//! (stockcharts, without the factor 100):
//!   +DM = high − high[k ago] if it is > low[k ago] − low and > 0, else 0; −DM mirrored (k = `period1`);
//!   +DI = MA1(+DM) / MA1(TR), −DI = MA1(−DM) / MA1(TR);
//!   DX = |+DI − −DI| / (+DI + −DI); ADX = MA2(DX).
//! 2 signals: #0 ADX over `zone` and +DI > −DI: full buy; ADX over `zone` and −DI > +DI: full sell; else none.
//!            #1 digital signal by the difference +DI − −DI.
use super::*;
use crate::Ser;

#[derive(Clone)]
pub struct AverageDirectionalIndex {
	k: usize,
	zone: f64,
	hi: Ser,
	lo: Ser,
	prev_close: f64,
	tr_ma: Box<dyn rm::RefVV>,
	pdm_ma: Box<dyn rm::RefVV>,
	mdm_ma: Box<dyn rm::RefVV>,
	adx_ma: Box<dyn rm::RefVV>,
}

pub fn make(cfg: &Cfg, c0: &RC) -> Option<Box<dyn IndRef>> {
	let k = cfg.int("period1");
	// constant prehistory: true range of the first candle against its own close, no directional
	// movement at all, hence DX = 0 († see below) and ADX = 0
	let tr0 = c0.tr(c0.c);
	Some(Box::new(AverageDirectionalIndex {
		k,
		zone: cfg.float("zone"),
		hi: Ser::exact_cap(c0.h, k + 2),
		lo: Ser::exact_cap(c0.l, k + 2),
		prev_close: c0.c,
		tr_ma: cfg.ma_ref("method1", tr0),
		pdm_ma: cfg.ma_ref("method1", Q::exact(0.0)),
		mdm_ma: cfg.ma_ref("method1", Q::exact(0.0)),
		adx_ma: cfg.ma_ref("method2", Q::exact(0.0)),
	}))
}

fn exactly_zero(q: &Q) -> bool {
	q.v == 0.0 && q.r == 0.0
}

impl IndRef for AverageDirectionalIndex {
	fn values(&mut self, c: &RC) -> Vec<Q> {
		// true range against the previous candle's close
		let tr = c.tr(self.prev_close);
		self.prev_close = c.c;
		self.hi.pushv(c.h);
		self.lo.pushv(c.l);
		// single subtractions of exactly known prices
		let du = self.hi.back(0).v - self.hi.back(self.k).v;
		let dd = self.lo.back(self.k).v - self.lo.back(0).v;
		let pdm = if du > dd && du > 0.0 { du } else { 0.0 };
		let mdm = if dd > du && dd > 0.0 { dd } else { 0.0 };
		let atr = self.tr_ma.stepq(tr);
		let sp = self.pdm_ma.stepq(Q::exact(pdm));
		let sm = self.mdm_ma.stepq(Q::exact(mdm));
		// 0 / 0 while there has never been any range: the directional indicators are undefined
		// (the division is undefined as well whenever the averaged range cannot be told from 0)
		let (pdi, mdi) = (sp / atr, sm / atr);
		let dx = if exactly_zero(&sp) && exactly_zero(&sm) {
			// † follows the implementation: without any directional movement (+DI + −DI = 0, DX = 0 / 0)
			// the averaged index is fed with 0
			Q::exact(0.0)
		} else {
			(pdi - mdi).abs() / (pdi + mdi)
		};
		let adx = self.adx_ma.stepq(dx);
		vec![adx, pdi, mdi]
	}
	fn signals(&mut self, _c: &RC, own: &[f64]) -> Vec<Sig> {
		let (adx, pdi, mdi) = (own[0], own[1], own[2]);
		let s0 = if adx > self.zone { sig_sign((pdi > mdi) as i32 - (mdi > pdi) as i32) } else { Sig::None };
		vec![s0, sig_ratio(pdi - mdi)]
	}
	indref!(AverageDirectionalIndex);
}
