//! AwesomeOscillator. Doc: 1 value — difference between the fast and the slow moving average of the
//!   source (linked page: AO = SMA(hl2, 5) − SMA(hl2, 34)), i.e. MA2(src) − MA1(src): `ma2` is the fast
//!   (short) one, `ma1` the slow (long) one.
//! 2 signals:
//!   #0 "Twin Peaks": value below the zero line and `conseq_peaks` lower peaks (swing lows, troughs —
//!      linked page: "two swing lows of the AO below zero") seen: full buy; value above the zero line
//!      and `conseq_peaks` higher peaks (swing highs): full sell; otherwise none.
//!   #1 value crosses the zero line (upwards: full buy, downwards: full sell).
use super::*;

#[derive(Clone)]
pub struct AwesomeOscillator {
	src: String,
	slow: Box<dyn rm::RefVV>,
	fast: Box<dyn rm::RefVV>,
	peaks: u32,
	rev: Rev,
	lows: u32,
	highs: u32,
	x: CrossD,
	/// implementation reading (recorded discrepancy): the pivot direction is inverted (swing highs counted as lows)
	follow_impl: bool,
}

pub fn make(cfg: &Cfg, c0: &RC) -> Option<Box<dyn IndRef>> {
	build(cfg, c0, false)
}
pub fn make_alt(cfg: &Cfg, c0: &RC) -> Option<Box<dyn IndRef>> {
	build(cfg, c0, true)
}
fn build(cfg: &Cfg, c0: &RC, follow_impl: bool) -> Option<Box<dyn IndRef>> {
	let src = cfg.src("source");
	let s0 = source(c0, &src);
	Some(Box::new(AwesomeOscillator {
		// averages of the constant prehistory are that constant, their difference is 0
		slow: cfg.ma_ref("ma1", s0),
		fast: cfg.ma_ref("ma2", s0),
		peaks: cfg.int("conseq_peaks") as u32,
		rev: Rev::new(cfg.int("left"), cfg.int("right"), 0.0),
		lows: 0,
		highs: 0,
		x: CrossD::new(0.0),
		src,
		follow_impl,
	}))
}

impl IndRef for AwesomeOscillator {
	fn values(&mut self, c: &RC) -> Vec<Q> {
		let s = source(c, &self.src);
		vec![self.fast.stepq(s) - self.slow.stepq(s)]
	}
	fn signals(&mut self, _c: &RC, own: &[f64]) -> Vec<Sig> {
		let v = own[0];
		// +1: a lower peak (swing low) is confirmed now, -1: a higher peak (swing high)
		let r = self.rev.step(v);
		if self.follow_impl {
			// implementation reading, in the implementation's order: the pivot direction is inverted, the counters are
			// incremented first, the signal is taken, and only then a counter is cleared by the side of the zero line
			// the value is on (so a pivot confirmed on the very step the value changes sides still fires)
			let r = -r;
			self.highs = self.highs.saturating_add((r < 0) as u32).min(255);
			self.lows = self.lows.saturating_add((r > 0) as u32).min(255);
			let buy = r > 0 && self.lows >= self.peaks;
			let sell = r < 0 && self.highs >= self.peaks;
			if v < 0.0 {
				self.highs = 0;
			}
			if v > 0.0 {
				self.lows = 0;
			}
			return vec![sig_sign(buy as i32 - sell as i32), sig_sign(self.x.cross(v, 0.0))];
		}
		// † follows the implementation: peaks are counted when they are confirmed (`right` steps after
		// the extremum); a count lasts as long as the value stays on its side of the zero line (a value
		// of exactly 0 belongs to both sides) and is NOT cleared by a signal: once `conseq_peaks` is
		// reached every further peak on that side signals again
		if v > 0.0 {
			self.lows = 0;
		} else if r > 0 {
			self.lows = self.lows.saturating_add(1);
		}
		if v < 0.0 {
			self.highs = 0;
		} else if r < 0 {
			self.highs = self.highs.saturating_add(1);
		}
		let buy = r > 0 && v <= 0.0 && self.lows >= self.peaks;
		let sell = r < 0 && v >= 0.0 && self.highs >= self.peaks;
		vec![sig_sign(buy as i32 - sell as i32), sig_sign(self.x.cross(v, 0.0))]
	}
	indref!(AwesomeOscillator);
}
