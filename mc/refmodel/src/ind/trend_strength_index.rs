//! TrendStrengthIndex. Doc: 1 value — `Main value` in [-1, 1]: an oscillator of the strength of the trend,
//! here the (Pearson) correlation coefficient between the bar number 1..n and the last n source values
//! (+1: perfectly rising line, -1: perfectly falling line). Undefined (0/0) when all n values are equal.
//! 2 signals:
//!   #0 main value crosses the upper `zone` downwards: full negative; crosses the lower `zone` upwards: full positive;
//!   #1 main value is below the lower `zone` and changes direction upwards: full positive;
//!      main value is above the upper `zone` and changes direction downwards: full negative.
use super::*;
use crate::{win_allow, Ser};

#[derive(Clone)]
pub struct TrendStrengthIndex {
	src: String,
	n: usize,
	zone: f64,
	offset: usize,
	input: Ser,
	/// the values the indicator returned, oldest first (the prehistory has no defined value: NaN)
	hist: Vec<f64>,
	x_low: CrossD,
	x_up: CrossD,
}

pub fn make(cfg: &Cfg, c0: &RC) -> Option<Box<dyn IndRef>> {
	let src = cfg.src("source");
	let s0 = source(c0, &src);
	let n = cfg.int("period");
	Some(Box::new(TrendStrengthIndex {
		n,
		zone: cfg.float("zone"),
		offset: cfg.int("reverse_offset"),
		input: Ser::with_cap(s0, n + 2),
		hist: Vec::new(),
		// the main value of the constant prehistory is 0/0: there is no previous difference to cross from
		x_low: CrossD::new(f64::NAN),
		x_up: CrossD::new(f64::NAN),
		src,
	}))
}

impl TrendStrengthIndex {
	/// the value returned `k` bars ago (k = 0: this bar); NaN in the prehistory
	fn back(&self, k: usize) -> f64 {
		if k < self.hist.len() {
			self.hist[self.hist.len() - 1 - k]
		} else {
			f64::NAN
		}
	}
}

impl IndRef for TrendStrengthIndex {
	fn values(&mut self, c: &RC) -> Vec<Q> {
		let s = source(c, &self.src);
		self.input.push(s);
		let n = self.n;
		let w = self.input.last_n(n);
		if w.iter().any(|q| !q.is_defined()) {
			return vec![Q::undefined()];
		}
		let rin = w.iter().map(|q| q.r).fold(0.0f64, f64::max);
		// exact predicate: a window of n equal values has no variance, the correlation is 0/0
		if w.iter().all(|q| q.v == w[0].v) {
			return vec![Q::undefined()];
		}
		let nf = n as f64;
		let xbar = (nf + 1.0) * 0.5;
		let ybar = w.iter().map(|q| q.v).sum::<f64>() / nf;
		let (mut cov, mut vy, mut vx, mut sadx) = (0.0f64, 0.0f64, 0.0f64, 0.0f64);
		for (i, q) in w.iter().enumerate() {
			let dx = (i + 1) as f64 - xbar;
			let dy = q.v - ybar;
			cov += dx * dy;
			vy += dy * dy;
			vx += dx * dx;
			sadx += dx.abs();
		}
		// the sums over the window are running accumulators in the implementation (sum, sum of squares,
		// weighted sum): allowance over the whole history, linear resp. quadratic in the magnitude
		let t = self.input.t();
		let m = self.input.mag;
		let sx = nf * (nf + 1.0) * 0.5;
		let covq = Q::new(cov, win_allow(t, n, 2.0 * sx, m) + sadx * rin);
		let vyq = Q::new(vy, win_allow(t, n, 2.0 * nf, m * m) + 8.0 * nf * m * rin);
		// near-singular windows (variance not separated from 0) come out undefined
		vec![covq / vyq.scale(vx).sqrt()]
	}
	fn signals(&mut self, _c: &RC, own: &[f64]) -> Vec<Sig> {
		let v = own[0];
		self.hist.push(v);
		let keep = self.offset.max(3) + 1;
		if self.hist.len() > 4 * keep {
			let cut = self.hist.len() - keep;
			self.hist.drain(..cut);
		}
		// #0: crossing the lower zone (-zone) upwards: full positive; crossing the upper zone downwards: full negative
		let pos = sig_sign(self.x_low.above(v, -self.zone) as i32);
		let neg = sig_sign(self.x_up.under(v, self.zone) as i32);
		let s0 = sig_sub(pos, neg);

		// #1: † follows the implementation: "changes direction" = a pivot with 1 bar to the left and 2 bars to
		// the right (known 2 bars later); the value tested against the zone is the one `reverse_offset` bars ago;
		// the zone borders belong to the zones
		let (x3, x2, x1, x0) = (self.back(3), self.back(2), self.back(1), v);
		let s1 = if !(x3.is_finite() && x2.is_finite() && x1.is_finite() && x0.is_finite()) {
			// the main value is not defined on some of these bars: no direction to speak of
			Sig::Any
		} else {
			let upper = x2 > x1 && x2 > x0 && x2 >= x3;
			let lower = x2 < x1 && x2 < x0 && x2 <= x3;
			let z = self.back(self.offset);
			if (upper || lower) && !z.is_finite() {
				Sig::Any
			} else if upper && z >= self.zone {
				Sig::S(-255)
			} else if lower && z <= -self.zone {
				Sig::S(255)
			} else {
				Sig::None
			}
		};
		vec![s0, s1]
	}
	indref!(TrendStrengthIndex);
}
