//! MACD. Doc: 2 values — `MACD` value, `Signal line` value. 2 signals — MACD crosses the signal
//! line (up: full buy, down: full sell); MACD crosses the zero line likewise.
//! Formula (wikipedia): MACD = MA1(src) - MA2(src); signal line = MA3(MACD).
use super::*;

#[derive(Clone)]
pub struct Macd {
	src: String,
	ma1: Box<dyn rm::RefVV>,
	ma2: Box<dyn rm::RefVV>,
	sig: Box<dyn rm::RefVV>,
	x1: CrossD,
	x2: CrossD,
}
impl Macd {
	pub fn new(cfg: &Cfg, c0: &RC) -> Self {
		let src = cfg.src("source");
		let s0 = source(c0, &src);
		Self {
			// averages of the constant prehistory are that constant; MACD of a constant is 0
			ma1: cfg.ma_ref("ma1", s0),
			ma2: cfg.ma_ref("ma2", s0),
			sig: cfg.ma_ref("signal", Q::exact(0.0)),
			// previous differences in the prehistory: macd - signal = 0, macd - 0 = 0
			x1: CrossD::new(0.0),
			x2: CrossD::new(0.0),
			src,
		}
	}
}
impl IndRef for Macd {
	fn values(&mut self, c: &RC) -> Vec<Q> {
		let s = source(c, &self.src);
		let macd = self.ma1.stepq(s) - self.ma2.stepq(s);
		let sig = self.sig.stepq(macd);
		vec![macd, sig]
	}
	fn signals(&mut self, _c: &RC, own: &[f64]) -> Vec<Sig> {
		vec![sig_sign(self.x1.cross(own[0], own[1])), sig_sign(self.x2.cross(own[0], 0.0))]
	}
	indref!(Macd);
}
