//! Know Sure Thing. Doc: 2 values — `KST` value, `Signal line` value; 1 signal — `KST` crosses the
//! `Signal line` upwards: full buy, downwards: full sell.
//! Config: `period1..4` ROC periods, `ma1..4` "ROC1..4 moving average", `signal` signal-line average.
//! Formula (<https://en.wikipedia.org/wiki/KST_oscillator>):
//!   KST = MA1(ROC(p1)) * 1 + MA2(ROC(p2)) * 2 + MA3(ROC(p3)) * 3 + MA4(ROC(p4)) * 4 on the close price,
//!   signal line = SIG(KST).
//! ROC is the crate's rate of change (x - x[-n]) / x[-n] (a fraction; the Wikipedia page multiplies it by 100).
use super::*;

#[derive(Clone)]
pub struct Kst {
	roc: Vec<rm::Win>,
	ma: Vec<Box<dyn rm::RefVV>>,
	sig: Box<dyn rm::RefVV>,
	x: CrossD,
}

pub fn make(cfg: &Cfg, c0: &RC) -> Option<Box<dyn IndRef>> {
	let close0 = Q::exact(c0.c);
	// ROC of the constant prehistory is 0 (for a non-zero price), so is every average of it and KST
	let zero = Q::exact(0.0);
	let roc = (1..=4).map(|i| rm::Win::new_q(rm::WinKind::Roc, cfg.int(&format!("period{i}")), close0)).collect();
	let ma = (1..=4).map(|i| cfg.ma_ref(&format!("ma{i}"), zero)).collect();
	Some(Box::new(Kst { roc, ma, sig: cfg.ma_ref("signal", zero), x: CrossD::new(0.0) }))
}

impl IndRef for Kst {
	fn values(&mut self, c: &RC) -> Vec<Q> {
		let close = Q::exact(c.c);
		let mut kst = Q::exact(0.0);
		for i in 0..4 {
			// 0/0 or x/0 (a zero price n steps ago): the rate of change is undefined
			let r = self.roc[i].step(close);
			let m = self.ma[i].stepq(r);
			kst = kst + m.scale((i + 1) as f64);
		}
		let sl = self.sig.stepq(kst);
		vec![kst, sl]
	}
	fn signals(&mut self, _c: &RC, own: &[f64]) -> Vec<Sig> {
		vec![sig_sign(self.x.cross(own[0], own[1]))]
	}
	indref!(Kst);
}
