//! StochasticOscillator. Doc links wikipedia: %K = (close - L_n) / (H_n - L_n), L_n / H_n = lowest low /
//! highest high of the last `period` candles; the slow version smooths %K, %D smooths that again.
//! Config: `ma` = "Moving average for smoothing `main` value", `signal` = "Moving average type for
//! smoothing `signal line` value", `zone` = "Zone size for #1 and #2 signals" (lower bound = zone,
//! upper bound = 1 - zone).
//! 2 values: `main` = MA(%K), `signal line` = SIGNAL(main); both in [0; 1].
//! 3 signals:
//!   #1 main crosses lower bound upwards -> full buy; main crosses upper bound downwards -> full sell.
//!   #2 the same for the signal line.
//!   #3 main crosses signal line upwards -> full buy, downwards -> full sell.
use super::*;

#[derive(Clone)]
pub struct StochasticOscillator {
	zone: f64,
	hi: Ext,
	lo: Ext,
	ma: Box<dyn rm::RefVV>,
	sig: Box<dyn rm::RefVV>,
	/// (above lower bound, under upper bound) detectors of the main value / of the signal line;
	/// started on the first candle: on the constant prehistory both lines stay where the first candle puts them
	d1: Option<(CrossD, CrossD)>,
	d2: Option<(CrossD, CrossD)>,
	x: CrossD,
}

fn raw_k(close: f64, highest: f64, lowest: f64) -> Q {
	if highest == lowest {
		// † follows the implementation: %K is 0/0 when the whole window has no range (exact predicate
		// highest == lowest); the indicator answers the middle 0.5
		return Q::exact(0.5);
	}
	(Q::exact(close) - Q::exact(lowest)) / (Q::exact(highest) - Q::exact(lowest))
}

impl IndRef for StochasticOscillator {
	fn values(&mut self, c: &RC) -> Vec<Q> {
		self.hi.push(c.h);
		self.lo.push(c.l);
		let k = raw_k(c.c, self.hi.highest(), self.lo.lowest());
		let main = self.ma.stepq(k);
		let signal = self.sig.stepq(main);
		vec![main, signal]
	}
	fn signals(&mut self, _c: &RC, own: &[f64]) -> Vec<Sig> {
		let (main, signal) = (own[0], own[1]);
		let (lower, upper) = (self.zone, 1.0 - self.zone);
		let zone_signal = |d: &mut Option<(CrossD, CrossD)>, v: f64| {
			let (above, under) = d.get_or_insert((CrossD::new(v - lower), CrossD::new(v - upper)));
			let up = above.above(v, lower);
			let down = under.under(v, upper);
			sig_sub(sig_sign(up as i32), sig_sign(down as i32))
		};
		let s1 = zone_signal(&mut self.d1, main);
		let s2 = zone_signal(&mut self.d2, signal);
		let s3 = sig_sign(self.x.cross(main, signal));
		vec![s1, s2, s3]
	}
	indref!(StochasticOscillator);
}

pub fn make(cfg: &Cfg, c0: &RC) -> Option<Box<dyn IndRef>> {
	let n = cfg.int("period");
	// constant prehistory: %K of the first candle alone, and every average of it
	let k0 = raw_k(c0.c, c0.h, c0.l);
	Some(Box::new(StochasticOscillator {
		zone: cfg.float("zone"),
		hi: Ext::new(n, c0.h),
		lo: Ext::new(n, c0.l),
		ma: cfg.ma_ref("ma", k0),
		sig: cfg.ma_ref("signal", k0),
		d1: None,
		d2: None,
		// main - signal line on the constant prehistory
		x: CrossD::new(0.0),
	}))
}
