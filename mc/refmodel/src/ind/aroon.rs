//! Aroon. Doc / linked formula:
//!   AroonUp = (period - periods since the highest high within `period`) / period, AroonDown likewise
//!   with the lowest low. Both in [0, 1].
//! Signals: #0 AroonUp crosses AroonDown upwards: full buy; AroonDown crosses AroonUp upwards: full sell.
//!          #1 AroonUp rises up to 1.0: full buy; AroonDown rises up to 1.0: full sell.
//!          #2 positive while AroonUp stays above (1 - signal_zone) and AroonDown under signal_zone
//!             (negative mirrored); reaches full strength after `over_zone_period` such steps.
use super::*;

#[derive(Clone)]
pub struct Aroon {
	period: usize,
	zone: f64,
	over: usize,
	hi: Ext,
	lo: Ext,
	x: CrossD,
	up_run: i64,
	down_run: i64,
}
impl Aroon {
	pub fn new(cfg: &Cfg, c0: &RC) -> Self {
		let period = cfg.int("period");
		Self { period, zone: cfg.float("signal_zone"), over: cfg.int("over_zone_period"), hi: Ext::new(period, c0.h), lo: Ext::new(period, c0.l), x: CrossD::new(0.0), up_run: 0, down_run: 0 }
	}
}
impl IndRef for Aroon {
	fn values(&mut self, c: &RC) -> Vec<Q> {
		self.hi.push(c.h);
		self.lo.push(c.l);
		let p = self.period as f64;
		// age of the NEWEST highest high / lowest low
		let up = (p - self.hi.highest_age() as f64) / p;
		let down = (p - self.lo.lowest_age() as f64) / p;
		vec![Q::exact(up).widen(4.0 * crate::eps()), Q::exact(down).widen(4.0 * crate::eps())]
	}
	fn signals(&mut self, _c: &RC, own: &[f64]) -> Vec<Sig> {
		let (up, down) = (own[0], own[1]);
		let s0 = sig_sign(self.x.cross(up, down));
		// "rises up to 1.0": the newest candle is the extremum of the window
		let s1 = sig_sign((self.hi.highest_age() == 0) as i32 - (self.lo.lowest_age() == 0) as i32);
		let up_zone = up >= 1.0 - self.zone && down <= self.zone;
		let down_zone = down >= 1.0 - self.zone && up <= self.zone;
		self.up_run = if up_zone { self.up_run + 1 } else { 0 };
		self.down_run = if down_zone { self.down_run + 1 } else { 0 };
		let s2 = sig_ratio((self.up_run - self.down_run) as f64 / self.over as f64);
		vec![s0, s1, s2]
	}
	indref!(Aroon);
}
