//! CoppockCurve. Doc: 2 values — `Main value`, `Signal line`. Linked formula (wikipedia):
//!   Coppock = WMA[10] of (ROC[14] + ROC[11]); generalised by the config: main = ma1(ROC[period2] + ROC[period3]),
//!   ROC[n] = (x - x[-n]) / x[-n]; signal line = s3_ma(main).
//! 3 signals — #0 main crosses the zero line (up: full buy, down: full sell);
//!             #1 reverse points of the main value (s2_left, s2_right);
//!             #2 main crosses the signal line (up: full buy, down: full sell).
use super::*;

#[derive(Clone)]
struct Coppock {
	src: String,
	roc2: rm::Win,
	roc3: rm::Win,
	ma1: SafeMa,
	sig: SafeMa,
	x0: CrossD,
	rev_hi: Rev,
	rev_lo: Rev,
	first: bool,
	x2: CrossD,
	/// length of the pivot window (left + right + 1)
	span: usize,
	/// steps since the indicator last returned a non-finite main value / signal line (saturating)
	main_ok: usize,
	sig_ok: usize,
}

/// `false`: signal 2 as documented (reverse points of the main value over the c0-padded history).
/// `true`: emulate the crate's `ReversalSignal` when its first input differs from its construction value
/// (position 0 is credited with max(construction value, first input) by the upper detector and with the min
/// by the lower detector) — only for diagnosis, see the report; not the documented behaviour.
const EMULATE_FIRST_INPUT_QUIRK: bool = false;

/// a moving average that tolerates undefined inputs for every kind: the median kind sorts its window and
/// cannot hold an undefined element, so it is fed a placeholder and reported undefined while the
/// placeholder is among its last n inputs (which is what "median of a window with an undefined element" is)
#[derive(Clone)]
struct SafeMa {
	ma: Box<dyn rm::RefVV>,
	/// Some((n, number of consecutive defined inputs, saturating at n)) for the median kind
	smm: Option<(usize, usize)>,
}
impl SafeMa {
	fn new(cfg: &Cfg, key: &str, pad: Q) -> Self {
		let (kind, n) = cfg.ma(key);
		if kind == "smm" {
			let clean = if pad.is_defined() { n } else { 0 };
			let p = if pad.is_defined() { pad } else { Q::exact(0.0) };
			Self { ma: cfg.ma_ref(key, p), smm: Some((n, clean)) }
		} else {
			Self { ma: cfg.ma_ref(key, pad), smm: None }
		}
	}
	fn step(&mut self, x: Q) -> Q {
		match &mut self.smm {
			None => self.ma.stepq(x),
			Some((n, clean)) => {
				if x.is_defined() {
					*clean = (*clean + 1).min(*n);
					let y = self.ma.stepq(x);
					if *clean < *n {
						Q::undefined()
					} else {
						y
					}
				} else {
					*clean = 0;
					self.ma.stepq(Q::exact(0.0));
					Q::undefined()
				}
			}
		}
	}
}

pub fn make(cfg: &Cfg, c0: &RC) -> Option<Box<dyn IndRef>> {
	let src = cfg.src("source");
	let s0 = source(c0, &src);
	// rate of change of a constant is 0 (0/0 when the constant itself is 0: undefined)
	let roc0 = (s0 - s0) / s0;
	let pad = if roc0.is_defined() { Q::exact(0.0) } else { Q::undefined() };
	Some(Box::new(Coppock {
		roc2: rm::Win::new_q(rm::WinKind::Roc, cfg.int("period2"), s0),
		roc3: rm::Win::new_q(rm::WinKind::Roc, cfg.int("period3"), s0),
		ma1: SafeMa::new(cfg, "ma1", pad),
		sig: SafeMa::new(cfg, "s3_ma", pad),
		// prehistory: main = 0, signal line = 0
		x0: CrossD::new(0.0),
		rev_hi: Rev::new(cfg.int("s2_left"), cfg.int("s2_right"), 0.0),
		rev_lo: Rev::new(cfg.int("s2_left"), cfg.int("s2_right"), 0.0),
		first: true,
		x2: CrossD::new(0.0),
		span: cfg.int("s2_left") + cfg.int("s2_right") + 1,
		main_ok: usize::MAX,
		sig_ok: usize::MAX,
		src,
	}))
}

impl IndRef for Coppock {
	fn values(&mut self, c: &RC) -> Vec<Q> {
		let s = source(c, &self.src);
		let r = self.roc2.step(s) + self.roc3.step(s);
		let main = self.ma1.step(r);
		let sig = self.sig.step(main);
		vec![main, sig]
	}
	fn signals(&mut self, _c: &RC, own: &[f64]) -> Vec<Sig> {
		let (main, sig) = (own[0], own[1]);
		let s0 = sig_sign(self.x0.cross(main, 0.0));
		// † follows the implementation: the documentation of signal 2 breaks off after "When top reverse point
		// appears,"; the direction is the one of the crate's ReversalSignal (lower pivot: buy, upper pivot: sell)
		let (mut for_hi, mut for_lo) = (main, main);
		if EMULATE_FIRST_INPUT_QUIRK && self.first {
			for_hi = main.max(0.0);
			for_lo = main.min(0.0);
		}
		self.first = false;
		self.rev_hi.0.push(for_hi);
		self.rev_lo.0.push(for_lo);
		let s1 = sig_sign(self.rev_lo.0.lower() as i32 - self.rev_hi.0.upper() as i32);
		let s2 = sig_sign(self.x2.cross(main, sig));
		// the rules speak about numbers: where the indicator's own values are not numbers (division by a zero
		// source value in the rate of change) they determine nothing for as long as such a value is involved
		self.main_ok = if main.is_finite() { self.main_ok.saturating_add(1) } else { 0 };
		self.sig_ok = if sig.is_finite() { self.sig_ok.saturating_add(1) } else { 0 };
		let s0 = if self.main_ok <= 1 { Sig::Any } else { s0 };
		let s1 = if self.main_ok < self.span { Sig::Any } else { s1 };
		let s2 = if self.main_ok <= 1 || self.sig_ok <= 1 { Sig::Any } else { s2 };
		vec![s0, s1, s2]
	}
	indref!(Coppock);
}
