//! ChandeKrollStop. Doc: 3 values — `stop long`, `source` value, `stop short`; linked formula
//! (tradingview), p = period of `ma`:
//!   first high stop = highest(high, p) − x · ATR(p),  first low stop = lowest(low, p) + x · ATR(p),
//!   ATR = MA(true range);
//!   stop short = highest(first high stop, q),  stop long = lowest(first low stop, q).
//! 2 signals:
//!   #0 relative position of the source between `stop long` and `stop short`: source above
//!      `stop short`: full buy; source below `stop long`: full sell.
//!   #1 only when `stop long` crosses `stop short` upwards: cumulative move of both stops upwards:
//!      full buy, downwards: full sell.
use super::*;

#[derive(Clone)]
pub struct ChandeKrollStop {
	src: String,
	x: f64,
	prev_close: f64,
	atr: Box<dyn rm::RefVV>,
	hh: Ext,
	ll: Ext,
	high_stops: rm::Sel,
	low_stops: rm::Sel,
	cross: CrossD,
	prev_short: f64,
	prev_long: f64,
	/// implementation reading (recorded discrepancy): the linear position formula is also applied when the stops are in reverse order
	follow_impl: bool,
}

pub fn make(cfg: &Cfg, c0: &RC) -> Option<Box<dyn IndRef>> {
	build(cfg, c0, false)
}
pub fn make_alt(cfg: &Cfg, c0: &RC) -> Option<Box<dyn IndRef>> {
	build(cfg, c0, true)
}
fn build(cfg: &Cfg, c0: &RC, follow_impl: bool) -> Option<Box<dyn IndRef>> {
	let (_, p) = cfg.ma("ma");
	let q = cfg.int("q");
	let x = cfg.float("x");
	// constant prehistory: true range of the first candle against its own close; both first stops constant
	let tr0 = c0.tr(c0.c);
	let hs0 = Q::exact(c0.h) - tr0.scale(x);
	let ls0 = Q::exact(c0.l) + tr0.scale(x);
	Some(Box::new(ChandeKrollStop {
		src: cfg.src("source"),
		x,
		prev_close: c0.c,
		atr: cfg.ma_ref("ma", tr0),
		hh: Ext::new(p, c0.h),
		ll: Ext::new(p, c0.l),
		high_stops: rm::Sel::new_q(q, hs0),
		low_stops: rm::Sel::new_q(q, ls0),
		// previous difference `stop long` − `stop short` and previous stops of the prehistory
		cross: CrossD::new(ls0.v - hs0.v),
		prev_short: hs0.v,
		prev_long: ls0.v,
		follow_impl,
	}))
}

/// `Action::from(ratio)`; a strength that falls on a rounding boundary (k + 1/2) is not determined
fn ratio_sig(x: f64) -> Sig {
	let y = x.abs().min(1.0) * 255.0;
	if (y - y.floor() - 0.5).abs() < 1e-9 {
		return Sig::Any;
	}
	sig_ratio(x)
}

impl IndRef for ChandeKrollStop {
	fn values(&mut self, c: &RC) -> Vec<Q> {
		let tr = c.tr(self.prev_close);
		self.prev_close = c.c;
		let off = self.atr.stepq(tr).scale(self.x);
		self.hh.push(c.h);
		self.ll.push(c.l);
		self.high_stops.pushq(Q::exact(self.hh.highest()) - off);
		self.low_stops.pushq(Q::exact(self.ll.lowest()) + off);
		let stop_short = Q::new(self.high_stops.highest(), self.high_stops.rad());
		let stop_long = Q::new(self.low_stops.lowest(), self.low_stops.rad());
		vec![stop_long, source(c, &self.src), stop_short]
	}
	fn signals(&mut self, _c: &RC, own: &[f64]) -> Vec<Sig> {
		let (long, src, short) = (own[0], own[1], own[2]);
		let s0 = if short != long && (short - long).abs() <= 16.0 * crate::eps() * short.abs().max(long.abs()) {
			// the stops differ by rounding only: their order (and the position between them) is not determined
			Sig::Any
		} else if short > long || (self.follow_impl && short < long) {
			// position between the stops: `stop long` -> full sell, `stop short` -> full buy (beyond: clamped)
			ratio_sig((src - long) / (short - long) * 2.0 - 1.0)
		} else if short == long {
			// † follows the implementation: both stops coincide -> zero strength
			sig_ratio(0.0)
		} else if src > long {
			// stops in reverse order, source above both: "above `stop short`" holds, "below `stop long`" does not
			Sig::S(255)
		} else if src < short {
			// source below both
			Sig::S(-255)
		} else if src.is_nan() || short.is_nan() || long.is_nan() {
			Sig::None
		} else {
			// stops in reverse order and the source between them: above `stop short` AND below `stop long`
			Sig::Any
		};
		// `stop long` crosses `stop short` upwards
		let crossed = self.cross.above(long, short);
		// † follows the implementation: ending exactly ON `stop short` does not count, `stop long` has to end above it
		let crossed = crossed && long > short;
		let mv = (short - self.prev_short) + (long - self.prev_long);
		self.prev_short = short;
		self.prev_long = long;
		let s1 = if crossed { sig_sign((mv > 0.0) as i32 - (mv < 0.0) as i32) } else { Sig::None };
		vec![s0, s1]
	}
	indref!(ChandeKrollStop);
}
