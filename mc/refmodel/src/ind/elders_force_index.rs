//! Elder's Force Index. Doc: 1 value — `Main value`; linked formula (wikipedia / investopedia):
//!   force = (current close − prior close) · volume, smoothed by a moving average (EMA(13)).
//!   Config: `ma` = the smoothing average, `period2` = "Price change period" k (default 1),
//!   `source` = the price that is differenced. So
//!     value = MA( (src_t − src_{t−k}) · V_t ).
//! 1 signal — `main value` crosses the zero line upwards: full buy; downwards: full sell.
use super::*;

#[derive(Clone)]
pub struct EldersForceIndex {
	src: String,
	k: usize,
	hist: crate::Ser,
	vol: rm::Win,
	ma: Box<dyn rm::RefVV>,
	x: CrossD,
}

pub fn make(cfg: &Cfg, c0: &RC) -> Option<Box<dyn IndRef>> {
	let src = cfg.src("source");
	let k = cfg.int("period2");
	let s0 = source(c0, &src);
	Some(Box::new(EldersForceIndex {
		hist: crate::Ser::with_cap(s0, k + 2),
		// † follows the implementation: for a price change over k > 1 candles the documentation does not
		// say which volume multiplies it; the implementation uses the total volume of the last k candles
		// (the current one included), which for k = 1 is the documented "current volume".
		vol: rm::Win::new(rm::WinKind::Integral, k, c0.v),
		// a price change of the constant prehistory is 0, so the force is 0 and its average starts at 0
		ma: cfg.ma_ref("ma", Q::exact(0.0)),
		// previous difference in the prehistory: value − 0 = 0
		x: CrossD::new(0.0),
		src,
		k,
	}))
}

impl IndRef for EldersForceIndex {
	fn values(&mut self, c: &RC) -> Vec<Q> {
		let s = source(c, &self.src);
		self.hist.push(s);
		let change = self.hist.back(0) - self.hist.back(self.k);
		let volume = self.vol.step(Q::exact(c.v));
		vec![self.ma.stepq(change * volume)]
	}
	fn signals(&mut self, _c: &RC, own: &[f64]) -> Vec<Sig> {
		vec![sig_sign(self.x.cross(own[0], 0.0))]
	}
	indref!(EldersForceIndex);
}
