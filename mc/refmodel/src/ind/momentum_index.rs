//! Momentum Index. Doc: 2 values — `slow momentum` value (`period1`, "Slow momentum period"),
//! `fast momentum` value (`period2`, "Fast momentum period"); momentum(n) = source - source n steps ago.
//! 1 signal — both momentums positive: full buy; both negative: full sell; otherwise no signal.
use super::*;

#[derive(Clone)]
pub struct MomentumIndex {
	src: String,
	slow: rm::Win,
	fast: rm::Win,
}

pub fn make(cfg: &Cfg, c0: &RC) -> Option<Box<dyn IndRef>> {
	let src = cfg.src("source");
	let s0 = source(c0, &src);
	Some(Box::new(MomentumIndex {
		slow: rm::Win::new_q(rm::WinKind::Momentum, cfg.int("period1"), s0),
		fast: rm::Win::new_q(rm::WinKind::Momentum, cfg.int("period2"), s0),
		src,
	}))
}

impl IndRef for MomentumIndex {
	fn values(&mut self, c: &RC) -> Vec<Q> {
		let s = source(c, &self.src);
		vec![self.slow.step(s), self.fast.step(s)]
	}
	fn signals(&mut self, _c: &RC, own: &[f64]) -> Vec<Sig> {
		let (slow, fast) = (own[0], own[1]);
		let buy = slow > 0.0 && fast > 0.0;
		let sell = slow < 0.0 && fast < 0.0;
		vec![sig_sign(buy as i32 - sell as i32)]
	}
	indref!(MomentumIndex);
}
