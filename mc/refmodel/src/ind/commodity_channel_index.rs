//! CommodityChannelIndex. Doc: 1 value — `oscillator`, "most of the time in the range around [-1; +1]".
//! Linked formula (wikipedia): CCI = (1/0.015) * (p - SMA_n(p)) / MD_n(p), MD = mean absolute deviation;
//! the constant 0.015 puts most values between -100 and +100, so the documented range [-1; +1] is that
//! divided by 100:  value = (1/1.5) * (p - SMA_n(p)) / MD_n(p).  Undefined (0/0) on a window without deviation.
//! 1 signal — value goes above `zone`: full sell; value goes below `-zone`: full buy; otherwise none.
use super::*;
use std::collections::VecDeque;

#[derive(Clone)]
struct Cci {
	n: usize,
	zone: f64,
	src: String,
	cci: rm::Win,
	cands: VecDeque<RC>,
	prev: f64,
	flat: bool,
}

/// do two candles have exactly the same source quantity (an exact predicate of the inputs)?
fn same_src(a: &RC, b: &RC, kind: &str) -> bool {
	match kind {
		"close" => a.c == b.c,
		"open" => a.o == b.o,
		"high" => a.h == b.h,
		"low" => a.l == b.l,
		"hl2" => a.h == b.h && a.l == b.l,
		"tp" => a.h == b.h && a.l == b.l && a.c == b.c,
		"volume" => a.v == b.v,
		"volumed_price" => a.h == b.h && a.l == b.l && a.c == b.c && a.v == b.v,
		o => panic!("unknown source {o}"),
	}
}

pub fn make(cfg: &Cfg, c0: &RC) -> Option<Box<dyn IndRef>> {
	let src = cfg.src("source");
	let s0 = source(c0, &src);
	let n = cfg.int("period");
	Some(Box::new(Cci {
		n,
		zone: cfg.float("zone"),
		cands: (0..n).map(|_| *c0).collect(),
		cci: rm::Win::new_q(rm::WinKind::Cci, n, s0),
		// † follows the implementation: the oscillator of the constant prehistory is 0/0; yata starts from 0
		prev: 0.0,
		src,
		flat: false,
	}))
}

impl IndRef for Cci {
	fn values(&mut self, c: &RC) -> Vec<Q> {
		let s = source(c, &self.src);
		let v = self.cci.step(s).scale(1.0 / 1.5);
		self.cands.push_back(*c);
		while self.cands.len() > self.n {
			self.cands.pop_front();
		}
		// † follows the implementation: the formula is 0/0 on a window of n identical values; yata's stated
		// branch ("deviation is not positive") gives 0 there. "All n values are identical" is an exact predicate.
		self.flat = (1..self.n).all(|i| same_src(&self.cands[i - 1], &self.cands[i], &self.src));
		if self.flat {
			return vec![Q::exact(0.0)];
		}
		vec![v]
	}
	fn signals(&mut self, _c: &RC, own: &[f64]) -> Vec<Sig> {
		let v = own[0];
		let z = self.zone;
		// † follows the implementation: "goes above" = is strictly above now and was not strictly above before
		// (ties on the zone border are not settled by the documentation); likewise for "goes below".
		// (yata's additional "not the same signal as one step before" latch can never take effect: the same
		// one-sided condition cannot hold on two consecutive steps.)
		let sell = v > z && self.prev <= z;
		let buy = v < -z && self.prev >= -z;
		self.prev = v;
		vec![sig_sign(buy as i32 - sell as i32)]
	}
	fn class(&self) -> &'static str {
		if self.flat {
			"flat-window"
		} else {
			""
		}
	}
	indref!(Cci);
}
