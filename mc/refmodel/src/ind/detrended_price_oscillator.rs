//! DetrendedPriceOscillator. Doc: 1 value — `DPO`; no signals.
//! Formula as stated in the source file next to the doc comment:
//!   DPO = price from (X/2 + 1) periods ago - X-period moving average (of the current period),
//!   X = period of `ma` (integer division), price = `source`.
use super::*;

#[derive(Clone)]
struct Dpo {
	src: String,
	past: rm::Win,
	ma: Box<dyn rm::RefVV>,
}

pub fn make(cfg: &Cfg, c0: &RC) -> Option<Box<dyn IndRef>> {
	let src = cfg.src("source");
	let s0 = source(c0, &src);
	let (_, x) = cfg.ma("ma");
	Some(Box::new(Dpo {
		past: rm::Win::new_q(rm::WinKind::Past, x / 2 + 1, s0),
		// the average of the constant prehistory is that constant
		ma: cfg.ma_ref("ma", s0),
		src,
	}))
}

impl IndRef for Dpo {
	fn values(&mut self, c: &RC) -> Vec<Q> {
		let s = source(c, &self.src);
		let old = self.past.step(s);
		let avg = self.ma.stepq(s);
		vec![old - avg]
	}
	fn signals(&mut self, _c: &RC, _own: &[f64]) -> Vec<Sig> {
		vec![]
	}
	indref!(Dpo);
}
