//! Klinger Volume Oscillator. Doc: 2 values — `main` value, `signal line` value; 2 signals —
//!   #0 `main` crosses 0.0 upwards: full buy, downwards: full sell;
//!   #1 `main` crosses the `signal line` upwards: full buy, downwards: full sell.
//! Config: `ma1` fast average, `ma2` slow average, `signal` signal-line average.
//! Formula (linked pages): KO = MA1(VF) - MA2(VF), signal line = SIG(KO), where the volume force VF is
//! the volume signed by the trend of high + low + close (accumulation when today's sum exceeds
//! yesterday's, distribution when it is smaller).
use super::*;

#[derive(Clone)]
pub struct Klinger {
	ma1: Box<dyn rm::RefVV>,
	ma2: Box<dyn rm::RefVV>,
	sig: Box<dyn rm::RefVV>,
	last_sum: f64,
	x0: CrossD,
	x1: CrossD,
}

fn hlc_sum(c: &RC) -> f64 {
	c.h + c.l + c.c
}

pub fn make(cfg: &Cfg, c0: &RC) -> Option<Box<dyn IndRef>> {
	Some(Box::new(Klinger {
		// the constant prehistory has no trend: its signed volume is 0, so is every average of it,
		// and so are KO and its signal line
		ma1: cfg.ma_ref("ma1", Q::exact(0.0)),
		ma2: cfg.ma_ref("ma2", Q::exact(0.0)),
		sig: cfg.ma_ref("signal", Q::exact(0.0)),
		last_sum: hlc_sum(c0),
		// previous differences in the prehistory: KO - 0 = 0, KO - signal = 0
		x0: CrossD::new(0.0),
		x1: CrossD::new(0.0),
	}))
}

impl IndRef for Klinger {
	fn values(&mut self, c: &RC) -> Vec<Q> {
		let s = hlc_sum(c);
		let p = self.last_sum;
		self.last_sum = s;
		// trend of the typical price (= trend of high + low + close)
		let tol = 8.0 * crate::eps() * s.abs().max(p.abs());
		let dir = if s == p {
			0.0
		} else if (s - p).abs() <= tol {
			// the two sums differ by rounding only: the direction cannot be decided
			f64::NAN
		} else if s > p {
			1.0
		} else {
			-1.0
		};
		// † follows the implementation: the linked pages scale the volume by |2*(dm/cm) - 1| * 100 (Klinger's
		// "volume force") and keep the previous trend on equal sums; the doc comment itself gives no formula
		// and the implementation uses the plainly signed volume sign(Δtp) * volume (0 on an unchanged tp)
		let v = if dir.is_nan() { Q::undefined() } else { Q::exact(dir * c.v) };
		let ko = self.ma1.stepq(v) - self.ma2.stepq(v);
		let sl = self.sig.stepq(ko);
		vec![ko, sl]
	}
	fn signals(&mut self, _c: &RC, own: &[f64]) -> Vec<Sig> {
		vec![sig_sign(self.x0.cross(own[0], 0.0)), sig_sign(self.x1.cross(own[0], own[1]))]
	}
	indref!(Klinger);
}
