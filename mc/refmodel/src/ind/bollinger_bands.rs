//! BollingerBands. Doc: 3 values — `upper bound`, (middle), `lower bound`; linked formula (wikipedia):
//!   middle = N-period simple moving average of the source, upper / lower = middle ± K · N-period
//!   standard deviation (the crate's `StDev`: sample deviation, n − 1 in the denominator).
//!   NOTE: the doc comment names value #1 "`source` value"; the linked page (and the three-band
//!   structure upper / middle / lower) define the middle band as the moving average. The reference
//!   uses the moving average; the wording of the doc comment is reported as a documentation defect.
//! 1 signal: source above the upper bound: full buy; under the lower bound: full sell; otherwise the
//!   relative position of the source between the bounds (lower -> -1, upper -> +1).
use super::*;

#[derive(Clone)]
pub struct BollingerBands {
	src: String,
	sigma: f64,
	mean: rm::Fir,
	var: rm::Win,
}

/// the source as a plain number (for the exact evaluation of the signal rule)
fn src_f64(c: &RC, kind: &str) -> f64 {
	match kind {
		"close" => c.c,
		"open" => c.o,
		"high" => c.h,
		"low" => c.l,
		"hl2" => (c.h + c.l) * 0.5,
		"tp" => (c.h + c.l + c.c) / 3.0,
		"volume" => c.v,
		"volumed_price" => (c.h + c.l + c.c) / 3.0 * c.v,
		o => panic!("unknown source {o}"),
	}
}

pub fn make(cfg: &Cfg, c0: &RC) -> Option<Box<dyn IndRef>> {
	let src = cfg.src("source");
	let n = cfg.int("avg_size");
	// constant prehistory: the window is filled with the first source value
	let s0 = source(c0, &src);
	Some(Box::new(BollingerBands { sigma: cfg.float("sigma"), mean: rm::Fir::new(rm::w_sma(n), s0), var: rm::Win::new_q(rm::WinKind::Variance, n, s0), src }))
}

/// `Action::from(ratio)`; a strength that falls on a rounding boundary (k + 1/2) is not determined
fn ratio_sig(x: f64) -> Sig {
	let y = x.abs().min(1.0) * 255.0;
	if (y - y.floor() - 0.5).abs() < 1e-9 {
		return Sig::Any;
	}
	sig_ratio(x)
}

impl IndRef for BollingerBands {
	fn values(&mut self, c: &RC) -> Vec<Q> {
		let s = source(c, &self.src);
		let middle = self.mean.step(s);
		// † follows the implementation: which deviation is not said; the crate's `StDev` is the sample one (n − 1)
		let sd = self.var.step(s).sqrt();
		let off = sd.scale(self.sigma);
		vec![middle + off, middle, middle - off]
	}
	fn signals(&mut self, c: &RC, own: &[f64]) -> Vec<Sig> {
		let s = src_f64(c, &self.src);
		let (upper, lower) = (own[0], own[2]);
		let range = upper - lower;
		let s0 = if range == 0.0 {
			// † follows the implementation: on a zero range the relative position counts as the middle (0.5)
			sig_ratio(0.0)
		} else {
			ratio_sig((s - lower) / range * 2.0 - 1.0)
		};
		vec![s0]
	}
	indref!(BollingerBands);
}
