//! EaseOfMovement. Doc: 1 value — `Main value`. Linked formula (wikipedia / investopedia):
//!   distance moved = (H + L)/2 - (H[-k] + L[-k])/2   (k = `period2`, "differencial period size"; classic k = 1)
//!   box ratio      = volume / (H - L)                (volume scale constant = 1)
//!   EMV            = distance moved / box ratio = distance * (H - L) / volume
//!   value          = ma(EMV)
//! Undefined for a candle with zero volume (division by zero; the documentation names no fallback).
//! 1 signal — main value crosses the zero line (up: full buy, down: full sell).
use super::*;
use crate::Ser;

#[derive(Clone)]
struct Eom {
	k: usize,
	hs: Ser,
	ls: Ser,
	ma: SafeMa,
	x: CrossD,
}

/// a moving average that tolerates undefined inputs for every kind: the median kind sorts its window and
/// cannot hold an undefined element, so it is fed a placeholder and reported undefined while the
/// placeholder is among its last n inputs (which is what "median of a window with an undefined element" is)
#[derive(Clone)]
struct SafeMa {
	ma: Box<dyn rm::RefVV>,
	/// Some((n, number of consecutive defined inputs, saturating at n)) for the median kind
	smm: Option<(usize, usize)>,
}
impl SafeMa {
	fn new(cfg: &Cfg, key: &str, pad: Q) -> Self {
		let (kind, n) = cfg.ma(key);
		if kind == "smm" {
			let clean = if pad.is_defined() { n } else { 0 };
			let p = if pad.is_defined() { pad } else { Q::exact(0.0) };
			Self { ma: cfg.ma_ref(key, p), smm: Some((n, clean)) }
		} else {
			Self { ma: cfg.ma_ref(key, pad), smm: None }
		}
	}
	fn step(&mut self, x: Q) -> Q {
		match &mut self.smm {
			None => self.ma.stepq(x),
			Some((n, clean)) => {
				if x.is_defined() {
					*clean = (*clean + 1).min(*n);
					let y = self.ma.stepq(x);
					if *clean < *n {
						Q::undefined()
					} else {
						y
					}
				} else {
					*clean = 0;
					self.ma.stepq(Q::exact(0.0));
					Q::undefined()
				}
			}
		}
	}
}

/// `false`: EMV of a zero-volume candle is undefined (the documentation names no fallback).
/// `true`: † follow the implementation (EMV = 0 for a zero-volume candle) — for diagnosis / wider coverage only.
const ZERO_VOLUME_TERM_IS_ZERO: bool = false;

pub fn make(cfg: &Cfg, c0: &RC) -> Option<Box<dyn IndRef>> {
	let k = cfg.int("period2");
	// on the constant prehistory the distance moved is 0, so EMV = 0 (0/0 when its volume is zero)
	let pad = if c0.v == 0.0 && !ZERO_VOLUME_TERM_IS_ZERO { Q::undefined() } else { Q::exact(0.0) };
	Some(Box::new(Eom {
		k,
		hs: Ser::exact_cap(c0.h, k + 2),
		ls: Ser::exact_cap(c0.l, k + 2),
		ma: SafeMa::new(cfg, "ma", pad),
		// prehistory: value = 0, difference to the zero line = 0
		x: CrossD::new(0.0),
	}))
}

impl IndRef for Eom {
	fn values(&mut self, c: &RC) -> Vec<Q> {
		self.hs.pushv(c.h);
		self.ls.pushv(c.l);
		let k = self.k;
		let mid = (Q::exact(c.h) + Q::exact(c.l)).scale(0.5);
		let mid_k = (self.hs.back(k) + self.ls.back(k)).scale(0.5);
		let dist = mid - mid_k;
		let emv = if c.v == 0.0 {
			// exact predicate of the input: division by zero volume
			if ZERO_VOLUME_TERM_IS_ZERO {
				Q::exact(0.0)
			} else {
				Q::undefined()
			}
		} else {
			dist * (Q::exact(c.h) - Q::exact(c.l)) / Q::exact(c.v)
		};
		vec![self.ma.step(emv)]
	}
	fn signals(&mut self, _c: &RC, own: &[f64]) -> Vec<Sig> {
		vec![sig_sign(self.x.cross(own[0], 0.0))]
	}
	indref!(Eom);
}
