//! PivotReversalStrategy. Doc: "Simply searches for pivot points and returns signal."
//! No values. 1 signal: "When low pivot happens, returns full buy signal. When high pivot happens,
//! returns full sell signal. Otherwise returns no signal."
//! Config: `left` = how many periods should be left before the pivot point, `right` = how many
//! periods should appear after the pivot point. A pivot is therefore known `right` candles after it
//! happened (crate's `ReversalSignal(left, right)` semantics): the low (high) of the candle `right`
//! steps ago is a lower (upper) pivot of the series of lows (highs).
use super::*;

#[derive(Clone)]
pub struct PivotReversalStrategy {
	/// upper pivots of the highs
	hi: rm::Reversal,
	/// lower pivots of the lows
	lo: rm::Reversal,
}

impl IndRef for PivotReversalStrategy {
	fn values(&mut self, c: &RC) -> Vec<Q> {
		self.hi.push(c.h);
		self.lo.push(c.l);
		vec![]
	}
	fn signals(&mut self, _c: &RC, _own: &[f64]) -> Vec<Sig> {
		let low_pivot = self.lo.lower();
		let high_pivot = self.hi.upper();
		// † follows the implementation: a low pivot and a high pivot confirmed on the same candle cancel
		// each other (the documentation does not rank them)
		vec![sig_sign(low_pivot as i32 - high_pivot as i32)]
	}
	indref!(PivotReversalStrategy);
}

pub fn make(cfg: &Cfg, c0: &RC) -> Option<Box<dyn IndRef>> {
	let (left, right) = (cfg.int("left"), cfg.int("right"));
	Some(Box::new(PivotReversalStrategy { hi: rm::Reversal::new(left, right, c0.h), lo: rm::Reversal::new(left, right, c0.l) }))
}
