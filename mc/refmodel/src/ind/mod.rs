//! Reference models of the indicators, written from each indicator's doc comment (the
//! "# N values" / "# N signals" sections and the linked formula). See DESIGN.md Appendix A.
//!
//! Conventions
//! * prehistory: the stream is padded to the left with the first candle `c0` (property C08):
//!   finite windows see `c0`, every recursive filter starts at the fixed point of its padded input;
//! * `values()` returns value ± radius (`Q`); `Q::undefined()` where the formula is undefined;
//! * `signals()` evaluates the documented rule ON THE VALUES THE INDICATOR ITSELF RETURNED (`own`),
//!   replicating the crate's detector semantics bit-exactly, so rounding in the values cannot
//!   produce a signal mismatch.

use crate::methods as rm;
use crate::Q;
pub use rm::RC;
use std::collections::BTreeMap;

#[derive(Clone, Debug, PartialEq)]
pub enum CfgVal {
	Int(u64),
	Float(f64),
	Str(String),
	/// (kind as in MA::from_str: "sma", "linreg", ..., length)
	Ma(String, usize),
	Bool(bool),
}
#[derive(Clone, Debug, Default)]
pub struct Cfg(pub BTreeMap<String, CfgVal>);
impl Cfg {
	pub fn int(&self, k: &str) -> usize {
		match self.0.get(k) {
			Some(CfgVal::Int(i)) => *i as usize,
			o => panic!("config field {k}: expected integer, got {o:?}"),
		}
	}
	pub fn float(&self, k: &str) -> f64 {
		match self.0.get(k) {
			Some(CfgVal::Float(f)) => *f,
			Some(CfgVal::Int(i)) => *i as f64,
			o => panic!("config field {k}: expected float, got {o:?}"),
		}
	}
	pub fn src(&self, k: &str) -> String {
		match self.0.get(k) {
			Some(CfgVal::Str(s)) => s.clone(),
			o => panic!("config field {k}: expected source, got {o:?}"),
		}
	}
	pub fn ma(&self, k: &str) -> (String, usize) {
		match self.0.get(k) {
			Some(CfgVal::Ma(kind, n)) => (kind.clone(), *n),
			o => panic!("config field {k}: expected MA, got {o:?}"),
		}
	}
	pub fn boolean(&self, k: &str) -> bool {
		match self.0.get(k) {
			Some(CfgVal::Bool(b)) => *b,
			o => panic!("config field {k}: expected bool, got {o:?}"),
		}
	}
	/// a moving-average reference of the configured kind and length, started at `pad`
	pub fn ma_ref(&self, k: &str, pad: Q) -> Box<dyn rm::RefVV> {
		let (kind, n) = self.ma(k);
		rm::ma_q(&kind, n, pad)
	}
}

/// expected signal
#[derive(Clone, Copy, Debug, PartialEq)]
pub enum Sig {
	/// `Action::None`
	None,
	/// signed strength in -255..=255 (Buy > 0, Sell < 0; a zero strength has no sign)
	S(i32),
	/// the documented rule is silent here (counted as exempt)
	Any,
}

pub trait IndRef: Send + Sync {
	/// the documented values for this candle (called once per candle, before `signals`)
	fn values(&mut self, c: &RC) -> Vec<Q>;
	/// the documented signals, evaluated on the values the indicator itself returned
	fn signals(&mut self, c: &RC, own: &[f64]) -> Vec<Sig>;
	fn box_clone(&self) -> Box<dyn IndRef>;
	/// input class of the step just evaluated by `values` (part of failure signatures), e.g. "flat-window"
	fn class(&self) -> &'static str {
		""
	}
}
impl Clone for Box<dyn IndRef> {
	fn clone(&self) -> Self {
		self.box_clone()
	}
}

// ------------------------------------------------------------------ helpers

/// `candle.source(kind)` as a quantity
pub fn source(c: &RC, kind: &str) -> Q {
	match kind {
		"close" => Q::exact(c.c),
		"open" => Q::exact(c.o),
		"high" => Q::exact(c.h),
		"low" => Q::exact(c.l),
		"hl2" => c.hl2(),
		"tp" => c.tp(),
		"volume" => Q::exact(c.v),
		"volumed_price" => c.tp() * Q::exact(c.v),
		o => panic!("unknown source {o}"),
	}
}

/// `Action::from(i8)`: 0 -> None, > 0 -> full buy, < 0 -> full sell
pub fn sig_sign(x: i32) -> Sig {
	match x.signum() {
		0 => Sig::None,
		1 => Sig::S(255),
		_ => Sig::S(-255),
	}
}
/// `Action::from(f64)`: NaN -> None; clamp to [-1, 1]; strength = round(|x| * 255) half away from zero
pub fn sig_ratio(v: f64) -> Sig {
	if v.is_nan() {
		return Sig::None;
	}
	let x = v.clamp(-1.0, 1.0);
	let y = x.abs() * 255.0;
	let k = y.floor();
	let k = if y - k >= 0.5 { k + 1.0 } else { k } as i32;
	Sig::S(if x.is_sign_negative() { -k } else { k })
}
/// `a - b` for two signals (strengths subtract, saturating; None counts as zero; None - None = None)
pub fn sig_sub(a: Sig, b: Sig) -> Sig {
	match (a, b) {
		(Sig::Any, _) | (_, Sig::Any) => Sig::Any,
		(Sig::None, Sig::None) => Sig::None,
		(x, y) => {
			let f = |s: Sig| if let Sig::S(k) = s { k } else { 0 };
			Sig::S((f(x) - f(y)).clamp(-255, 255))
		}
	}
}

/// the crate's crossing detectors on a pair of series: state = previous difference
#[derive(Clone, Copy, Debug)]
pub struct CrossD {
	pub prev: f64,
}
impl CrossD {
	/// previous difference of the (constant) prehistory
	pub fn new(prev_delta: f64) -> Self {
		Self { prev: prev_delta }
	}
	fn upd(&mut self, a: f64, b: f64) -> (f64, f64) {
		let cur = a - b;
		let p = self.prev;
		self.prev = cur;
		(p, cur)
	}
	/// Cross: +1 when `a` crossed `b` upwards (previous difference < 0, current >= 0), -1 downwards, else 0
	pub fn cross(&mut self, a: f64, b: f64) -> i32 {
		let (p, c) = self.upd(a, b);
		rm::cross_above(p, c) as i32 - rm::cross_under(p, c) as i32
	}
	pub fn above(&mut self, a: f64, b: f64) -> bool {
		let (p, c) = self.upd(a, b);
		rm::cross_above(p, c)
	}
	pub fn under(&mut self, a: f64, b: f64) -> bool {
		let (p, c) = self.upd(a, b);
		rm::cross_under(p, c)
	}
}

/// ReversalSignal(left, right) on an exactly known series: +1 on a lower pivot, -1 on an upper pivot
#[derive(Clone, Debug)]
pub struct Rev(pub rm::Reversal);
impl Rev {
	pub fn new(left: usize, right: usize, v0: f64) -> Self {
		Self(rm::Reversal::new(left, right, v0))
	}
	pub fn step(&mut self, x: f64) -> i32 {
		self.0.push(x);
		self.0.lower() as i32 - self.0.upper() as i32
	}
}

/// highest / lowest of the last n values of an exactly known series (selection)
#[derive(Clone, Debug)]
pub struct Ext(pub rm::Sel);
impl Ext {
	pub fn new(n: usize, v0: f64) -> Self {
		Self(rm::Sel::new(n, v0))
	}
	pub fn push(&mut self, x: f64) {
		self.0.push(x);
	}
	pub fn highest(&self) -> f64 {
		self.0.highest()
	}
	pub fn lowest(&self) -> f64 {
		self.0.lowest()
	}
	pub fn highest_age(&self) -> usize {
		self.0.highest_index()
	}
	pub fn lowest_age(&self) -> usize {
		self.0.lowest_index()
	}
}

macro_rules! indref {
	($t:ty) => {
		fn box_clone(&self) -> Box<dyn crate::ind::IndRef> {
			Box::new(self.clone())
		}
	};
}
pub(crate) use indref;

pub mod aroon;
pub mod average_directional_index;
pub mod awesome_oscillator;
pub mod bollinger_bands;
pub mod chaikin_money_flow;
pub mod chaikin_oscillator;
pub mod chande_kroll_stop;
pub mod chande_momentum_oscillator;
pub mod commodity_channel_index;
pub mod coppock_curve;
pub mod detrended_price_oscillator;
pub mod donchian_channel;
pub mod ease_of_movement;
pub mod elders_force_index;
pub mod envelopes;
pub mod fisher_transform;
pub mod hull_moving_average;
pub mod ichimoku_cloud;
pub mod kaufman;
pub mod keltner_channel;
pub mod klinger_volume_oscillator;
pub mod know_sure_thing;
pub mod macd;
pub mod momentum_index;
pub mod money_flow_index;
pub mod parabolic_sar;
pub mod pivot_reversal_strategy;
pub mod price_channel_strategy;
pub mod relative_strength_index;
pub mod relative_vigor_index;
pub mod smi_ergodic_indicator;
pub mod stochastic_oscillator;
pub mod trix;
pub mod trend_strength_index;
pub mod true_strength_index;
pub mod woodies_cci;

/// A second reference for the indicators whose implementation contradicts its documentation in a
/// known, recorded way: it follows the IMPLEMENTATION's reading of exactly those points. It is used only
/// to tell the recorded discrepancy ("differs from the documented rule but equals the implementation
/// reading") from any OTHER deviation ("differs from both"), so that a recorded finding does not hide
/// new defects of the same indicator.
pub fn make_alt(name: &str, cfg: &Cfg, c0: &RC) -> Option<Box<dyn IndRef>> {
	let slots = |flip: &[usize], any: &[usize], never: &[usize]| -> Option<Box<dyn IndRef>> {
		Some(Box::new(AltSlots { inner: make(name, cfg, c0)?, flip: flip.to_vec(), any: any.to_vec(), never: never.to_vec() }))
	};
	match name {
		// values: plain volume instead of tp*volume; 0.5 whenever the negative flow is zero
		"MoneyFlowIndex" => money_flow_index::make_alt(cfg, c0),
		// values: close - previous close (started at the first open); signal #1 with the opposite sign
		"RelativeVigorIndex" => relative_vigor_index::make_alt(cfg, c0),
		// signal #0 with the pivot direction inverted
		"AwesomeOscillator" => awesome_oscillator::make_alt(cfg, c0),
		// signal #0: the linear position formula is applied also when the stops are in reverse order
		"ChandeKrollStop" => chande_kroll_stop::make_alt(cfg, c0),
		// signal as a level instead of a crossing event
		"Envelopes" => envelopes::make_alt(cfg, c0),
		// signal with the opposite sign of the documentation
		"KeltnerChannel" => slots(&[0], &[], &[]),
		// signal #0 with the opposite sign; signal #1 compares the SOURCE window with the zone (not modelled: any)
		"TrendStrengthIndex" => slots(&[0], &[1], &[]),
		// a level test against the last pivot prices instead of pivot events (not modelled: any)
		"PivotReversalStrategy" => slots(&[], &[0], &[]),
		// the signal can only fire when s1_lag == 1
		"WoodiesCCI" => {
			if cfg.int("s1_lag") > 1 {
				slots(&[], &[], &[0])
			} else {
				slots(&[], &[0], &[])
			}
		}
		_ => None,
	}
}

/// an implementation-reading variant that differs from the documented reference only in some signal slots
#[derive(Clone)]
struct AltSlots {
	inner: Box<dyn IndRef>,
	/// slots whose sign the implementation inverts
	flip: Vec<usize>,
	/// slots whose implementation logic is not modelled
	any: Vec<usize>,
	/// slots that the implementation never fires
	never: Vec<usize>,
}
impl IndRef for AltSlots {
	fn values(&mut self, c: &RC) -> Vec<Q> {
		self.inner.values(c)
	}
	fn signals(&mut self, c: &RC, own: &[f64]) -> Vec<Sig> {
		let mut s = self.inner.signals(c, own);
		for (i, x) in s.iter_mut().enumerate() {
			if self.any.contains(&i) {
				*x = Sig::Any;
			} else if self.never.contains(&i) {
				*x = Sig::None;
			} else if self.flip.contains(&i) {
				if let Sig::S(k) = *x {
					*x = Sig::S(-k);
				}
			}
		}
		s
	}
	fn box_clone(&self) -> Box<dyn IndRef> {
		Box::new(self.clone())
	}
	fn class(&self) -> &'static str {
		self.inner.class()
	}
}

/// builds the reference of the named indicator for a configuration and the first candle
pub fn make(name: &str, cfg: &Cfg, c0: &RC) -> Option<Box<dyn IndRef>> {
	match name {
		"Aroon" => Some(Box::new(aroon::Aroon::new(cfg, c0))),
		"AverageDirectionalIndex" => average_directional_index::make(cfg, c0),
		"AwesomeOscillator" => awesome_oscillator::make(cfg, c0),
		"BollingerBands" => bollinger_bands::make(cfg, c0),
		"ChaikinMoneyFlow" => chaikin_money_flow::make(cfg, c0),
		"ChaikinOscillator" => chaikin_oscillator::make(cfg, c0),
		"ChandeKrollStop" => chande_kroll_stop::make(cfg, c0),
		"ChandeMomentumOscillator" => chande_momentum_oscillator::make(cfg, c0),
		"CommodityChannelIndex" => commodity_channel_index::make(cfg, c0),
		"CoppockCurve" => coppock_curve::make(cfg, c0),
		"DetrendedPriceOscillator" => detrended_price_oscillator::make(cfg, c0),
		"DonchianChannel" => donchian_channel::make(cfg, c0),
		"EaseOfMovement" => ease_of_movement::make(cfg, c0),
		"EldersForceIndex" => elders_force_index::make(cfg, c0),
		"Envelopes" => envelopes::make(cfg, c0),
		"FisherTransform" => fisher_transform::make(cfg, c0),
		"HullMovingAverage" => hull_moving_average::make(cfg, c0),
		"IchimokuCloud" => ichimoku_cloud::make(cfg, c0),
		"Kaufman" => kaufman::make(cfg, c0),
		"KeltnerChannel" => keltner_channel::make(cfg, c0),
		"KlingerVolumeOscillator" => klinger_volume_oscillator::make(cfg, c0),
		"KnowSureThing" => know_sure_thing::make(cfg, c0),
		"MACD" => Some(Box::new(macd::Macd::new(cfg, c0))),
		"MomentumIndex" => momentum_index::make(cfg, c0),
		"MoneyFlowIndex" => money_flow_index::make(cfg, c0),
		"ParabolicSAR" => parabolic_sar::make(cfg, c0),
		"PivotReversalStrategy" => pivot_reversal_strategy::make(cfg, c0),
		"PriceChannelStrategy" => price_channel_strategy::make(cfg, c0),
		"RelativeStrengthIndex" => relative_strength_index::make(cfg, c0),
		"RelativeVigorIndex" => relative_vigor_index::make(cfg, c0),
		"SMIErgodicIndicator" => smi_ergodic_indicator::make(cfg, c0),
		"StochasticOscillator" => stochastic_oscillator::make(cfg, c0),
		"Trix" => trix::make(cfg, c0),
		"TrendStrengthIndex" => trend_strength_index::make(cfg, c0),
		"TrueStrengthIndex" => true_strength_index::make(cfg, c0),
		"WoodiesCCI" => woodies_cci::make(cfg, c0),
		_ => None,
	}
}
