//! DonchianChannel. Doc: 3 values — lower bound, middle value ("always middle value between upper bound and
//! lower bound"), upper bound. Linked formula (wikipedia): upper = highest high of the last `period` candles,
//! lower = lowest low of the last `period` candles, middle = their average.
//! 1 signal — `high` hits the upper bound: full buy; `low` hits the lower bound: full sell; both or neither: none.
use super::*;

#[derive(Clone)]
struct Donchian {
	hi: Ext,
	lo: Ext,
}

pub fn make(cfg: &Cfg, c0: &RC) -> Option<Box<dyn IndRef>> {
	let n = cfg.int("period");
	Some(Box::new(Donchian { hi: Ext::new(n, c0.h), lo: Ext::new(n, c0.l) }))
}

impl IndRef for Donchian {
	fn values(&mut self, c: &RC) -> Vec<Q> {
		self.hi.push(c.h);
		self.lo.push(c.l);
		let upper = Q::exact(self.hi.highest());
		let lower = Q::exact(self.lo.lowest());
		vec![lower, (upper + lower).scale(0.5), upper]
	}
	fn signals(&mut self, c: &RC, own: &[f64]) -> Vec<Sig> {
		let (lower, upper) = (own[0], own[2]);
		let buy = c.h >= upper;
		let sell = c.l <= lower;
		vec![sig_sign(buy as i32 - sell as i32)]
	}
	indref!(Donchian);
}
