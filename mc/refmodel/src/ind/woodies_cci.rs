//! WoodiesCCI. Doc: 2 values — `Turbo CCI` (period1), `Trend CCI` (period2), both unbounded.
//! CCI = (x - SMA(x, n)) / (0.015 * mean absolute deviation of the last n values of x).
//! 1 signal: when the `Trend CCI` stays above the zero line for `s1_lag` bars: full buy; when it stays
//! below the zero line for `s1_lag` bars: full sell; otherwise no signal.
use super::*;

#[derive(Clone)]
pub struct WoodiesCci {
	src: String,
	lag: usize,
	turbo: rm::Win,
	trend: rm::Win,
	up_run: usize,
	down_run: usize,
}

// † follows the implementation: the doc comment does not state the scale of the two values; yata returns
// (x - mean) / (1.5 * mean abs dev), i.e. the classic CCI (constant 0.015) divided by 100
const SCALE: f64 = 1.0 / 1.5;

pub fn make(cfg: &Cfg, c0: &RC) -> Option<Box<dyn IndRef>> {
	let src = cfg.src("source");
	let s0 = source(c0, &src);
	Some(Box::new(WoodiesCci {
		turbo: rm::Win::new_q(rm::WinKind::Cci, cfg.int("period1"), s0),
		trend: rm::Win::new_q(rm::WinKind::Cci, cfg.int("period2"), s0),
		lag: cfg.int("s1_lag"),
		// the CCI of the constant prehistory is 0: neither above nor below the zero line
		up_run: 0,
		down_run: 0,
		src,
	}))
}

impl IndRef for WoodiesCci {
	fn values(&mut self, c: &RC) -> Vec<Q> {
		let s = source(c, &self.src);
		let turbo = self.turbo.step(s).scale(SCALE);
		let trend = self.trend.step(s).scale(SCALE);
		vec![turbo, trend]
	}
	fn signals(&mut self, _c: &RC, own: &[f64]) -> Vec<Sig> {
		let trend = own[1];
		// number of consecutive bars (including this one) with the Trend CCI above / below the zero line;
		// a bar exactly on the zero line is on neither side
		self.up_run = if trend > 0.0 { self.up_run + 1 } else { 0 };
		self.down_run = if trend < 0.0 { self.down_run + 1 } else { 0 };
		// † follows the implementation (its evident intent, `|count| == s1_lag`): the signal is given once,
		// on the bar that completes `s1_lag` bars on the same side, not repeated on the following bars
		let s = (self.up_run == self.lag) as i32 - (self.down_run == self.lag) as i32;
		vec![sig_sign(s)]
	}
	indref!(WoodiesCci);
}
