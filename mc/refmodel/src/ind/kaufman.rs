//! Kaufman Adaptive Moving Average. Doc: 1 value — `KAMA`; linked formula (corporatefinanceinstitute /
//! marketvolume / wikipedia-ru):
//!     ER  = |src_t − src_{t−n}| / Σ_{last n changes} |src_i − src_{i−1}|      (n = `period1`)
//!     SC  = ER · (fast − slow) + slow,  fast = 2/(`period2` + 1), slow = 2/(`period3` + 1),
//!           squared ("double smoothing", `square_smooth`)
//!     KAMA_t = KAMA_{t−1} + SC · (src_t − KAMA_{t−1})
//! 1 signal: `filter_period` ≤ 1: `source` crosses `KAMA` upwards: full buy, downwards: full sell,
//!   otherwise none; `filter_period` > 1: "the same cross, but with additional filtering using standard
//!   deviation" (multiplier `k`).
use super::*;

#[derive(Clone)]
pub struct Kaufman {
	src: String,
	fast: f64,
	slow: f64,
	square: bool,
	filter_period: usize,
	k: f64,
	n: usize,
	candles: std::collections::VecDeque<RC>,
	change: rm::Win,
	vol: rm::Win,
	kama: Q,
	// signal (on the indicator's own values)
	x: CrossD,
	var: rm::Win,
	latch: i32,
	latch_value: f64,
	/// the filter comparison fell inside the rounding of the deviation: the latch may or may not be set
	unsure: bool,
}

/// the source as a plain number (for the exact evaluation of the signal rule)
fn src_f64(c: &RC, kind: &str) -> f64 {
	match kind {
		"close" => c.c,
		"open" => c.o,
		"high" => c.h,
		"low" => c.l,
		"hl2" => (c.h + c.l) * 0.5,
		"tp" => (c.h + c.l + c.c) / 3.0,
		"volume" => c.v,
		"volumed_price" => (c.h + c.l + c.c) / 3.0 * c.v,
		o => panic!("unknown source {o}"),
	}
}

pub fn make(cfg: &Cfg, c0: &RC) -> Option<Box<dyn IndRef>> {
	let src = cfg.src("source");
	let n = cfg.int("period1");
	let fp = cfg.int("filter_period");
	let s0 = source(c0, &src);
	Some(Box::new(Kaufman {
		fast: 2.0 / (cfg.int("period2") as f64 + 1.0),
		slow: 2.0 / (cfg.int("period3") as f64 + 1.0),
		square: cfg.boolean("square_smooth"),
		filter_period: fp,
		k: cfg.float("k"),
		n,
		candles: std::iter::repeat(*c0).take(n + 1).collect(),
		change: rm::Win::new_q(rm::WinKind::Momentum, n, s0),
		vol: rm::Win::new_q(rm::WinKind::LinVol, n, s0),
		// constant prehistory: KAMA − source = 0 is the fixed point of the recursion
		kama: s0,
		// previous difference in the prehistory: source − KAMA = 0
		x: CrossD::new(0.0),
		// deviation of the KAMA line; its prehistory is the constant source
		var: rm::Win::new(rm::WinKind::Variance, fp.max(2), src_f64(c0, &src)),
		latch: 0,
		latch_value: src_f64(c0, &src),
		unsure: false,
		src,
	}))
}

impl IndRef for Kaufman {
	fn values(&mut self, c: &RC) -> Vec<Q> {
		let s = source(c, &self.src);
		let direction = self.change.step(s).abs();
		let volatility = self.vol.step(s);
		self.candles.push_back(*c);
		while self.candles.len() > self.n + 1 {
			self.candles.pop_front();
		}
		// exact predicate of the inputs: no change at all within the window (exactly known source values
		// that are all equal — hl2 is a single rounded sum, halving is exact — or one and the same candle
		// throughout)
		let flat = volatility.v == 0.0 && (self.src == "hl2" || self.vol.input.last_n(self.n + 1).iter().all(|q| q.r == 0.0) || self.candles.iter().all(|x| x == c));
		let er = if flat {
			// † follows the implementation: without any change in the window (ER = 0/0) the ratio counts as 0
			Q::exact(0.0)
		} else if volatility.v == 0.0 {
			// equal up to the rounding of the source only: the guard cannot be decided, but a ratio it is
			Q::new(0.5, 0.5)
		} else {
			let q = direction / volatility;
			// |net change| <= Σ|changes|: the ratio always lies in [0, 1]
			if q.is_defined() { q.clamp(0.0, 1.0) } else { Q::new(0.5, 0.5) }
		};
		let mut sc = er.scale(self.fast - self.slow) + Q::exact(self.slow);
		if self.square {
			sc = sc * sc;
		}
		// KAMA + SC·(src − KAMA): the previous KAMA enters twice, so the radius is propagated by hand:
		// (1 − SC)·R_kama + SC·R_src + |src − KAMA|·R_sc + rounding
		let k = self.kama;
		if !k.is_defined() || !s.is_defined() || !sc.is_defined() {
			self.kama = Q::undefined();
			return vec![self.kama];
		}
		let v = k.v + sc.v * (s.v - k.v);
		let r = (1.0 - sc.v).abs() * k.r + sc.v.abs() * s.r + (s.v - k.v).abs() * sc.r + sc.r * (k.r + s.r) + 8.0 * crate::eps() * v.abs().max(s.v.abs()).max(k.v.abs());
		self.kama = Q::new(v, r);
		vec![self.kama]
	}
	fn signals(&mut self, c: &RC, own: &[f64]) -> Vec<Sig> {
		let s = src_f64(c, &self.src);
		let kama = own[0];
		let cross = self.x.cross(s, kama);
		if self.filter_period <= 1 {
			return vec![sig_sign(cross)];
		}
		// † follows the implementation (the documentation only says "additional filtering using standard
		// deviation"): a cross is not reported on its own step; it is remembered together with the KAMA
		// value of that step and reported on the first later step without a new cross on which KAMA has
		// moved away from the remembered value by more than k · StDev(KAMA, filter_period); a new cross
		// replaces the remembered one.
		let filter = self.var.step(Q::exact(kama)).sqrt().scale(self.k);
		if cross != 0 {
			self.latch = cross;
			self.latch_value = kama;
			self.unsure = false;
			return vec![Sig::None];
		}
		if self.unsure {
			return vec![Sig::Any];
		}
		if self.latch == 0 {
			return vec![Sig::None];
		}
		let moved = (kama - self.latch_value).abs();
		if !filter.is_defined() || (moved >= filter.lo() && moved <= filter.hi()) {
			// the comparison is decided by the rounding of the deviation
			self.unsure = true;
			return vec![Sig::Any];
		}
		if moved > filter.hi() {
			let out = sig_sign(self.latch);
			self.latch = 0;
			vec![out]
		} else {
			vec![Sig::None]
		}
	}
	indref!(Kaufman);
}
