//! RelativeStrengthIndex. Doc links wikipedia: U = max(src - src_prev, 0), D = max(src_prev - src, 0),
//! RS = MA(U) / MA(D), RSI = 100 - 100 / (1 + RS) = 100 * MA(U) / (MA(U) + MA(D)).
//! 1 value: `main`, documented range [0; 1], i.e. MA(U) / (MA(U) + MA(D)).
//! 2 signals (upper zone = 1 - zone, lower zone = zone):
//!   #1 "enters over-zone": main crosses upper zone upwards -> full sell; crosses lower zone downwards -> full buy.
//!   #2 "leaves over-zone": main crosses upper zone downwards -> full sell; crosses lower zone upwards -> full buy.
use super::*;

#[derive(Clone)]
pub struct RelativeStrengthIndex {
	src: String,
	zone: f64,
	prev: Q,
	up: Box<dyn rm::RefVV>,
	down: Box<dyn rm::RefVV>,
	/// has the source ever changed (the constant prehistory has no change)
	moved: bool,
	lower: CrossD,
	upper: CrossD,
}

impl IndRef for RelativeStrengthIndex {
	fn values(&mut self, c: &RC) -> Vec<Q> {
		let s = source(c, &self.src);
		let p = std::mem::replace(&mut self.prev, s);
		let d = if s.v == p.v {
			// the same source value: no change at all
			Q::exact(0.0)
		} else if s.r == 0.0 && p.r == 0.0 {
			// one rounded subtraction of two exactly known prices, the same in any evaluation
			Q::exact(s.v - p.v)
		} else {
			s - p
		};
		self.moved |= !(d.v == 0.0 && d.r == 0.0);
		let zero = Q::exact(0.0);
		let u = if d.v > 0.0 { d.max(zero) } else { zero };
		let dn = if d.v < 0.0 { (-d).max(zero) } else { zero };
		let g = self.up.stepq(u);
		let l = self.down.stepq(dn);
		if !self.moved {
			// † follows the implementation: RS = 0/0 is not defined by the linked formula; with no upward and no
			// downward movement at all (every averaged change exactly zero) the indicator answers the middle 0.5.
			// Exact predicate only while no change has ever entered the averages: afterwards the implementation
			// decides this on rounded running sums, and the quotient below is undefined whenever the
			// denominator's interval contains 0.
			return vec![Q::exact(0.5)];
		}
		// averages that can overshoot (linreg, hma, dema, tema) may make the denominator vanish: `/` answers undefined then
		vec![g / (g + l)]
	}
	fn signals(&mut self, _c: &RC, own: &[f64]) -> Vec<Sig> {
		let rsi = own[0];
		let l = self.lower.cross(rsi, self.zone);
		let u = self.upper.cross(rsi, 1.0 - self.zone);
		let enters = (l < 0) as i32 - (u > 0) as i32;
		let leaves = (l > 0) as i32 - (u < 0) as i32;
		vec![sig_sign(enters), sig_sign(leaves)]
	}
	indref!(RelativeStrengthIndex);
}

pub fn make(cfg: &Cfg, c0: &RC) -> Option<Box<dyn IndRef>> {
	let src = cfg.src("source");
	let zone = cfg.float("zone");
	Some(Box::new(RelativeStrengthIndex {
		prev: source(c0, &src),
		src,
		zone,
		// constant prehistory: no change, both averages start at 0
		up: cfg.ma_ref("ma", Q::exact(0.0)),
		down: cfg.ma_ref("ma", Q::exact(0.0)),
		moved: false,
		// the value on the constant prehistory is the middle 0.5 (†, see above)
		lower: CrossD::new(0.5 - zone),
		upper: CrossD::new(0.5 - (1.0 - zone)),
	}))
}
