//! Trix ("TRIX (extended)"). Doc: 2 values — `main` value, `signal line` value. 3 signals —
//!   #0 main value changes direction upwards: full buy; downwards: full sell;
//!   #1 main value crosses the signal line upwards: full buy; downwards: full sell;
//!   #2 main value crosses the zero line upwards: full buy; downwards: full sell.
//! Linked page (wikipedia): smooth the source three times with an N-period EMA, then take the
//! change between today's and yesterday's value of that triple-smoothed series.
use super::*;

#[derive(Clone)]
pub struct Trix {
	src: String,
	tma: Box<dyn rm::RefVV>,
	prev_tma: Q,
	sig: Box<dyn rm::RefVV>,
	rev: Rev,
	x1: CrossD,
	x2: CrossD,
}

pub fn make(cfg: &Cfg, c0: &RC) -> Option<Box<dyn IndRef>> {
	let src = cfg.src("source");
	let s0 = source(c0, &src);
	Some(Box::new(Trix {
		// EMA of EMA of EMA, each of length `period1`; on the constant prehistory all of them sit at the source
		tma: rm::ma_q("tma", cfg.int("period1"), s0),
		prev_tma: s0,
		// the main value is a change: 0 on the constant prehistory, and so is its average
		sig: cfg.ma_ref("signal", Q::exact(0.0)),
		// † follows the implementation: "changes direction" = a pivot with one bar on either side
		rev: Rev::new(1, 1, 0.0),
		// previous differences in the prehistory: main - signal = 0, main - 0 = 0
		x1: CrossD::new(0.0),
		x2: CrossD::new(0.0),
		src,
	}))
}

impl IndRef for Trix {
	fn values(&mut self, c: &RC) -> Vec<Q> {
		let s = source(c, &self.src);
		let tma = self.tma.stepq(s);
		// † follows the implementation: the doc comment gives no formula; the main value is the plain
		// one-step difference of the triple-smoothed series (the linked page describes a *percentage* difference)
		let v = tma - self.prev_tma;
		self.prev_tma = tma;
		let sig = self.sig.stepq(v);
		vec![v, sig]
	}
	fn signals(&mut self, _c: &RC, own: &[f64]) -> Vec<Sig> {
		let s0 = sig_sign(self.rev.step(own[0]));
		let s1 = sig_sign(self.x1.cross(own[0], own[1]));
		let s2 = sig_sign(self.x2.cross(own[0], 0.0));
		vec![s0, s1, s2]
	}
	indref!(Trix);
}
