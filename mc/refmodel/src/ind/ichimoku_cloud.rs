//! Ichimoku Cloud. Doc: 4 values — `Tenkan Sen`, `Kijun Sen`, `Senkou Span A`, `Senkou Span B`;
//! linked formula (wikipedia):
//!     Tenkan Sen    = (highest high + lowest low)/2 over the last l1 candles,
//!     Kijun Sen     = (highest high + lowest low)/2 over the last l2 candles,
//!     Senkou Span A = (Tenkan Sen + Kijun Sen)/2, plotted m candles ahead,
//!     Senkou Span B = (highest high + lowest low)/2 over the last l3 candles, plotted m candles ahead
//!   ("plotted m ahead": the span values seen at candle t are the ones computed at candle t − m).
//! 2 signals:
//!   #0 Tenkan crosses Kijun upwards ∧ source > both spans ∧ span A > span B: full buy;
//!      Tenkan crosses Kijun downwards ∧ source < both spans ∧ span A < span B: full sell.
//!   #1 the same with "source crosses Kijun" as the crossing.
use super::*;

#[derive(Clone)]
pub struct IchimokuCloud {
	src: String,
	m: usize,
	hi: [Ext; 3],
	lo: [Ext; 3],
	span_a: crate::Ser,
	span_b: crate::Ser,
	x_tk: CrossD,
	x_sk: CrossD,
}

/// the source as a plain number (for the exact evaluation of the signal rule)
fn src_f64(c: &RC, kind: &str) -> f64 {
	match kind {
		"close" => c.c,
		"open" => c.o,
		"high" => c.h,
		"low" => c.l,
		"hl2" => (c.h + c.l) * 0.5,
		"tp" => (c.h + c.l + c.c) / 3.0,
		"volume" => c.v,
		"volumed_price" => (c.h + c.l + c.c) / 3.0 * c.v,
		o => panic!("unknown source {o}"),
	}
}

fn mid(h: f64, l: f64) -> Q {
	(Q::exact(h) + Q::exact(l)).scale(0.5)
}

pub fn make(cfg: &Cfg, c0: &RC) -> Option<Box<dyn IndRef>> {
	let src = cfg.src("source");
	let m = cfg.int("m");
	let ls = [cfg.int("l1"), cfg.int("l2"), cfg.int("l3")];
	// constant prehistory: every highest high is c0.high, every lowest low c0.low, all four lines equal
	// (high + low)/2
	let m0 = mid(c0.h, c0.l);
	Some(Box::new(IchimokuCloud {
		hi: [Ext::new(ls[0], c0.h), Ext::new(ls[1], c0.h), Ext::new(ls[2], c0.h)],
		lo: [Ext::new(ls[0], c0.l), Ext::new(ls[1], c0.l), Ext::new(ls[2], c0.l)],
		span_a: crate::Ser::with_cap(m0, m + 2),
		span_b: crate::Ser::with_cap(m0, m + 2),
		// previous differences in the prehistory: Tenkan − Kijun = 0, source − Kijun = source − (high + low)/2
		x_tk: CrossD::new(0.0),
		x_sk: CrossD::new(src_f64(c0, &src) - m0.v),
		src,
		m,
	}))
}

impl IndRef for IchimokuCloud {
	fn values(&mut self, c: &RC) -> Vec<Q> {
		let mut line = [Q::exact(0.0); 3];
		for i in 0..3 {
			self.hi[i].push(c.h);
			self.lo[i].push(c.l);
			line[i] = mid(self.hi[i].highest(), self.lo[i].lowest());
		}
		let (tenkan, kijun) = (line[0], line[1]);
		self.span_a.push((tenkan + kijun).scale(0.5));
		self.span_b.push(line[2]);
		vec![tenkan, kijun, self.span_a.back(self.m), self.span_b.back(self.m)]
	}
	fn signals(&mut self, c: &RC, own: &[f64]) -> Vec<Sig> {
		let s = src_f64(c, &self.src);
		let (tenkan, kijun, a, b) = (own[0], own[1], own[2], own[3]);
		let bullish = s > a && s > b && a > b;
		let bearish = s < a && s < b && a < b;
		let x0 = self.x_tk.cross(tenkan, kijun);
		let x1 = self.x_sk.cross(s, kijun);
		let rule = |x: i32| sig_sign((bullish && x > 0) as i32 - (bearish && x < 0) as i32);
		vec![rule(x0), rule(x1)]
	}
	indref!(IchimokuCloud);
}
