//! PriceChannelStrategy. Doc: "Calculates price channel by highest high and lowest low for last
//! `period` candles." 2 values: `Upper bound`, `Lower bound`. Config `sigma`: "Relative channel size"
//! in (0; 1].
//! 1 signal: "When current `high` price touches `upper bound`, returns full buy signal. When current
//! `low` price touches `lower bound`, returns full sell signal. When both touches occure, or no
//! toucher, then returns no signal."
use super::*;

#[derive(Clone)]
pub struct PriceChannelStrategy {
	sigma: f64,
	hi: Ext,
	lo: Ext,
}

impl IndRef for PriceChannelStrategy {
	fn values(&mut self, c: &RC) -> Vec<Q> {
		self.hi.push(c.h);
		self.lo.push(c.l);
		let hh = Q::exact(self.hi.highest());
		let ll = Q::exact(self.lo.lowest());
		// † follows the implementation: the documentation only calls sigma the "relative channel size";
		// the channel [LL, HH] is shrunk by that factor around its middle
		let mid = (hh + ll).scale(0.5);
		let half = (hh - mid).scale(self.sigma);
		vec![mid + half, mid - half]
	}
	fn signals(&mut self, c: &RC, own: &[f64]) -> Vec<Sig> {
		// "touches": the bound lies inside the channel, so the price reaches it as soon as it is at or beyond it
		let up = c.h >= own[0];
		let down = c.l <= own[1];
		vec![sig_sign(up as i32 - down as i32)]
	}
	indref!(PriceChannelStrategy);
}

pub fn make(cfg: &Cfg, c0: &RC) -> Option<Box<dyn IndRef>> {
	let n = cfg.int("period");
	Some(Box::new(PriceChannelStrategy { sigma: cfg.float("sigma"), hi: Ext::new(n, c0.h), lo: Ext::new(n, c0.l) }))
}
