//! ChaikinMoneyFlow. Doc: 1 value — `main` value in [-1, 1]; linked formula (Chaikin Analytics):
//!   CMF = Σ_n (CLV · volume) / Σ_n volume over the last `size` candles,
//!   CLV = ((close − low) − (high − close)) / (high − low).
//! 1 signal: value goes above zero: full buy; goes below zero: full sell; otherwise none.
use super::*;

#[derive(Clone)]
pub struct ChaikinMoneyFlow {
	mfv: rm::Win,
	vol: rm::Win,
	vols: Ext,
	x: CrossD,
}

pub fn make(cfg: &Cfg, c0: &RC) -> Option<Box<dyn IndRef>> {
	let n = cfg.int("size");
	// constant prehistory: every window slot holds the first candle's money flow volume / volume
	let mfv0 = c0.clv() * Q::exact(c0.v);
	// value of the prehistory: CLV of the first candle (undefined without volume); previous difference to zero
	let prev = if c0.v == 0.0 { f64::NAN } else { c0.clv().v };
	Some(Box::new(ChaikinMoneyFlow {
		mfv: rm::Win::new_q(rm::WinKind::Integral, n, mfv0),
		vol: rm::Win::new_q(rm::WinKind::Integral, n, Q::exact(c0.v)),
		vols: Ext::new(n, c0.v),
		x: CrossD::new(prev),
	}))
}

impl IndRef for ChaikinMoneyFlow {
	fn values(&mut self, c: &RC) -> Vec<Q> {
		let num = self.mfv.step(c.clv() * Q::exact(c.v));
		let den = self.vol.step(Q::exact(c.v));
		self.vols.push(c.v);
		// no volume at all in the window: 0 / 0
		if self.vols.highest() == 0.0 && self.vols.lowest() == 0.0 {
			return vec![Q::undefined()];
		}
		vec![num / den]
	}
	fn signals(&mut self, _c: &RC, own: &[f64]) -> Vec<Sig> {
		vec![sig_sign(self.x.cross(own[0], 0.0))]
	}
	indref!(ChaikinMoneyFlow);
}
