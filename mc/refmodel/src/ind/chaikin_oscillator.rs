//! ChaikinOscillator. Doc: 1 value — `oscillator` value; linked formula (Chaikin Analytics):
//!   oscillator = MA1(ADI) − MA2(ADI) (short smoothing minus long smoothing of the
//!   accumulation/distribution index), ADI = Σ CLV · volume over the last `window` candles
//!   (`window` = 0: over the whole stream).
//! 1 signal: value goes above zero: full buy; goes below zero: full sell; otherwise none.
use super::*;

#[derive(Clone)]
pub struct ChaikinOscillator {
	adi: rm::Adi,
	ma1: Box<dyn rm::RefVV>,
	ma2: Box<dyn rm::RefVV>,
	x: CrossD,
}

pub fn make(cfg: &Cfg, c0: &RC) -> Option<Box<dyn IndRef>> {
	let w = cfg.int("window");
	let adi0 = if w == 0 {
		// † follows the implementation: a cumulative index has no constant prehistory; it (and both
		// averages) start from 0 before the first candle
		Q::exact(0.0)
	} else {
		// windowed index of the constant prehistory: window × (CLV · volume) of the first candle
		(c0.clv() * Q::exact(c0.v)).scale(w as f64)
	};
	Some(Box::new(ChaikinOscillator {
		adi: rm::Adi::new(w, c0),
		ma1: cfg.ma_ref("ma1", adi0),
		ma2: cfg.ma_ref("ma2", adi0),
		// both averages of a constant coincide: previous difference 0
		x: CrossD::new(0.0),
	}))
}

impl IndRef for ChaikinOscillator {
	fn values(&mut self, c: &RC) -> Vec<Q> {
		let adi = self.adi.step(c);
		vec![self.ma1.stepq(adi) - self.ma2.stepq(adi)]
	}
	fn signals(&mut self, _c: &RC, own: &[f64]) -> Vec<Sig> {
		vec![sig_sign(self.x.cross(own[0], 0.0))]
	}
	indref!(ChaikinOscillator);
}
