//! TrueStrengthIndex. Doc: 2 values — `main` value in [-1, 1], `signal line` value in [-1, 1].
//! Linked page (wikipedia): TSI = EMA(EMA(m, long), short) / EMA(EMA(|m|, long), short), m = one-step
//! change of the source (the documented range [-1, 1] fixes the scale: no factor 100);
//! the signal line is an EMA (of length `period3`) of the TSI.
//! 3 signals:
//!   #0 main value crosses the upper `zone` upwards: full sell; crosses the lower `-zone` downwards: full buy;
//!   #1 main value crosses the zero line upwards: full buy; downwards: full sell;
//!   #2 main value crosses the signal line upwards: full buy; downwards: full sell.
use super::*;

#[derive(Clone)]
pub struct TrueStrengthIndex {
	src: String,
	zone: f64,
	tsi: rm::Tsi,
	sig: rm::Ema,
	x_low: CrossD,
	x_up: CrossD,
	x_zero: CrossD,
	x_sig: CrossD,
}

pub fn make(cfg: &Cfg, c0: &RC) -> Option<Box<dyn IndRef>> {
	let src = cfg.src("source");
	let s0 = source(c0, &src);
	let zone = cfg.float("zone");
	Some(Box::new(TrueStrengthIndex {
		// period1 = long period, period2 = short period
		tsi: rm::Tsi::new(cfg.int("period2"), cfg.int("period1"), s0.v),
		// no movement in the prehistory: the main value is 0 there, and so is its average
		sig: rm::Ema::new(cfg.int("period3"), 0.0),
		// previous differences implied by the prehistory (main value 0)
		x_low: CrossD::new(0.0 - (-zone)),
		x_up: CrossD::new(0.0 - zone),
		x_zero: CrossD::new(0.0),
		x_sig: CrossD::new(0.0),
		zone,
		src,
	}))
}

impl IndRef for TrueStrengthIndex {
	fn values(&mut self, c: &RC) -> Vec<Q> {
		let s = source(c, &self.src);
		let tsi = self.tsi.step(s);
		let sig = self.sig.step(tsi);
		vec![tsi, sig]
	}
	fn signals(&mut self, _c: &RC, own: &[f64]) -> Vec<Sig> {
		let (tsi, sig) = (own[0], own[1]);
		let buy = sig_sign(self.x_low.under(tsi, -self.zone) as i32);
		let sell = sig_sign(self.x_up.above(tsi, self.zone) as i32);
		let s0 = sig_sub(buy, sell);
		let s1 = sig_sign(self.x_zero.cross(tsi, 0.0));
		let s2 = sig_sign(self.x_sig.cross(tsi, sig));
		vec![s0, s1, s2]
	}
	indref!(TrueStrengthIndex);
}
