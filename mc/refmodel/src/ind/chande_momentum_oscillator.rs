//! ChandeMomentumOscillator. Doc: 1 value — `oscillator`, range [-1; 1]; linked formula (investopedia):
//!   CMO = (sH - sL) / (sH + sL), sH = sum of the up-moves, sL = sum of the down-moves (as positive
//!   numbers) over the last `period` one-step changes of the source (the doc's range [-1; 1] fixes the
//!   scale: no factor 100).
//! 1 signal — value goes above `zone`: full sell; value goes below `-zone`: full buy; otherwise none.
use super::*;
use crate::win_allow;
use crate::Ser;
use std::collections::VecDeque;

#[derive(Clone)]
struct Cmo {
	n: usize,
	zone: f64,
	src: String,
	input: Ser,
	cands: VecDeque<RC>,
	under: CrossD,
	above: CrossD,
	flat: bool,
}

/// do two candles have exactly the same source quantity (an exact predicate of the inputs)?
fn same_src(a: &RC, b: &RC, kind: &str) -> bool {
	match kind {
		"close" => a.c == b.c,
		"open" => a.o == b.o,
		"high" => a.h == b.h,
		"low" => a.l == b.l,
		"hl2" => a.h == b.h && a.l == b.l,
		"tp" => a.h == b.h && a.l == b.l && a.c == b.c,
		"volume" => a.v == b.v,
		"volumed_price" => a.h == b.h && a.l == b.l && a.c == b.c && a.v == b.v,
		o => panic!("unknown source {o}"),
	}
}

pub fn make(cfg: &Cfg, c0: &RC) -> Option<Box<dyn IndRef>> {
	let n = cfg.int("period");
	let zone = cfg.float("zone");
	let src = cfg.src("source");
	let s0 = source(c0, &src);
	let mut cands = VecDeque::new();
	for _ in 0..=n {
		cands.push_back(*c0);
	}
	Some(Box::new(Cmo {
		n,
		zone,
		input: Ser::with_cap(s0, n + 2),
		cands,
		// the oscillator of the constant prehistory is 0: previous differences 0 - (-zone) and 0 - zone
		under: CrossD::new(zone),
		above: CrossD::new(-zone),
		src,
		flat: false,
	}))
}

impl IndRef for Cmo {
	fn values(&mut self, c: &RC) -> Vec<Q> {
		let n = self.n;
		self.input.push(source(c, &self.src));
		self.cands.push_back(*c);
		while self.cands.len() > n + 1 {
			self.cands.pop_front();
		}
		// † follows the implementation: the formula is 0/0 on a window without any change; yata's stated
		// branch gives 0 there. "Every one of the last n changes is exactly zero" is an exact predicate.
		let flat = (1..=n).all(|i| same_src(&self.cands[i - 1], &self.cands[i], &self.src));
		self.flat = flat;
		if flat {
			return vec![Q::exact(0.0)];
		}
		let w = self.input.last_n(n + 1);
		let rin: f64 = w.iter().map(|q| q.r).sum();
		if !rin.is_finite() {
			return vec![Q::undefined()];
		}
		let (mut up, mut dn) = (0.0f64, 0.0f64);
		for i in 1..w.len() {
			let d = w[i].v - w[i - 1].v;
			if d > 0.0 {
				up += d;
			} else if d < 0.0 {
				dn -= d;
			}
		}
		if up == 0.0 && dn == 0.0 {
			// different candles whose (rounded) source quantities coincide: the predicate cannot be decided here
			return vec![Q::undefined()];
		}
		// sums maintained over the whole history of changes (magnitude of a change <= 2 * magnitude of the values)
		let allow = win_allow(self.input.t(), n, 1.0, 2.0 * self.input.mag) + 2.0 * rin;
		let p = Q::new(up, allow);
		let m = Q::new(dn, allow);
		vec![(p - m) / (p + m)]
	}
	fn signals(&mut self, _c: &RC, own: &[f64]) -> Vec<Sig> {
		let v = own[0];
		let buy = self.under.under(v, -self.zone);
		let sell = self.above.above(v, self.zone);
		vec![sig_sign(buy as i32 - sell as i32)]
	}
	fn class(&self) -> &'static str {
		if self.flat {
			"flat-window"
		} else {
			""
		}
	}
	indref!(Cmo);
}
