//! Parabolic SAR. Doc: 2 values — `SAR` value, `trend` value in {-1.0, 0.0, 1.0}; 1 signal — `trend` changes
//! its value to positive: full buy; to negative: full sell; otherwise no signal.
//! Formula (<https://en.wikipedia.org/wiki/Parabolic_SAR>):
//!   SAR[n+1] = SAR[n] + AF * (EP - SAR[n]);
//!   EP = highest high of the current up-trend (lowest low of the current down-trend);
//!   AF starts at `af_step`, grows by `af_step` each time a new EP is recorded, never exceeds `af_max`;
//!   the next SAR of an up-trend is never above this period's or the previous period's low (down-trend: never
//!   below the two highs);
//!   when the period's price range reaches through the SAR the trend switches sides: the first SAR of the new
//!   trend is the last EP of the old trend, EP restarts at this period's extreme, AF restarts at `af_step`.
//!   Invariant: in an up-trend the SAR is not above the price range, in a down-trend not below it.
use super::*;

#[derive(Clone)]
pub struct Psar {
	af_step: f64,
	af_max: f64,
	trend: i32,
	/// SAR valid for the coming period
	sar: Q,
	/// extreme point of the current trend
	ep: f64,
	/// 1 + number of new extreme points recorded in the current trend
	steps: u32,
	prev_high: f64,
	prev_low: f64,
	/// a comparison of the SAR with a price could not be decided within the radius: undefined from then on
	lost: bool,
	prev_trend_out: f64,
}

pub fn make(cfg: &Cfg, c0: &RC) -> Option<Box<dyn IndRef>> {
	Some(Box::new(Psar {
		af_step: cfg.float("af_step"),
		af_max: cfg.float("af_max"),
		// † follows the implementation: the documentation does not say in which direction the recursion starts;
		// the implementation starts long. On the constant prehistory a long recursion sits at its fixed point
		// SAR = low (the SAR may not rise above the lows), EP = high, no new extremes.
		trend: 1,
		sar: Q::exact(c0.l),
		ep: c0.h,
		steps: 1,
		prev_high: c0.h,
		prev_low: c0.l,
		lost: false,
		// † follows the implementation: the documented value 0.0 of `trend` is never returned; it is the state
		// "before the first candle", so the very first step reports a change of trend (0 -> 1)
		prev_trend_out: 0.0,
	}))
}

impl Psar {
	/// is `price` strictly beyond the SAR (`below` = on the lower side)? None when the radius cannot tell
	fn beyond(&self, price: f64, below: bool) -> Option<bool> {
		if self.sar.r == 0.0 || !self.sar.straddles(price) {
			Some(if below { price < self.sar.v } else { price > self.sar.v })
		} else {
			None
		}
	}
}

impl IndRef for Psar {
	fn values(&mut self, c: &RC) -> Vec<Q> {
		if self.lost || !self.sar.is_defined() {
			self.lost = true;
			return vec![Q::undefined(), Q::undefined()];
		}
		if self.trend > 0 {
			// † follows the implementation: a new high of the reversing period still counts for the old trend's EP
			if c.h > self.ep {
				self.ep = c.h;
				self.steps += 1;
			}
			// † follows the implementation: a low that only touches the SAR does not reverse the trend
			match self.beyond(c.l, true) {
				None => {
					self.lost = true;
					return vec![Q::undefined(), Q::undefined()];
				}
				Some(true) => {
					self.trend = -1;
					self.sar = Q::exact(self.ep);
					self.ep = c.l;
					self.steps = 1;
				}
				Some(false) => {}
			}
		} else {
			if c.l < self.ep {
				self.ep = c.l;
				self.steps += 1;
			}
			match self.beyond(c.h, false) {
				None => {
					self.lost = true;
					return vec![Q::undefined(), Q::undefined()];
				}
				Some(true) => {
					self.trend = 1;
					self.sar = Q::exact(self.ep);
					self.ep = c.h;
					self.steps = 1;
				}
				Some(false) => {}
			}
		}
		let out = vec![self.sar, Q::exact(self.trend as f64)];

		// SAR of the next period
		let af = self.af_max.min(self.af_step * self.steps as f64);
		let next = self.sar + (Q::exact(self.ep) - self.sar).scale(af);
		self.sar = if self.trend > 0 {
			next.min(Q::exact(c.l)).min(Q::exact(self.prev_low))
		} else {
			next.max(Q::exact(c.h)).max(Q::exact(self.prev_high))
		};
		self.prev_high = c.h;
		self.prev_low = c.l;
		out
	}
	fn signals(&mut self, _c: &RC, own: &[f64]) -> Vec<Sig> {
		let trend = own[1];
		let changed = trend != self.prev_trend_out;
		self.prev_trend_out = trend;
		let s = if changed && trend > 0.0 {
			1
		} else if changed && trend < 0.0 {
			-1
		} else {
			0
		};
		vec![sig_sign(s)]
	}
	indref!(Psar);
}
