//! RelativeVigorIndex. The doc comment gives no formula of its own, it links
//! <https://www.investopedia.com/terms/r/relative_vigor_index.asp>:
//!   NUMERATOR   = (a + 2b + 2c + d) / 6, a = close - open of the current bar, b, c, d = the same one, two, three bars before
//!   DENOMINATOR = (e + 2f + 2g + h) / 6, e = high - low of the current bar, f, g, h likewise
//!   RVI = SMA(NUMERATOR, N) / SMA(DENOMINATOR, N);  signal line = (RVI + 2i + 2j + k) / 6
//! Config: `period1` = "Summarize period" N, `period2` = "SWMA period" (4 above), `signal` = signal line MA (SWMA(4) above).
//! 2 values: `main`, `signal line`.
//! 2 signals:
//!   #1 main crosses signal line upwards -> full buy, downwards -> full sell.
//!   #2 "When main value is below -zone and crosses signal line upwards, returns full buy signal. When main
//!      value is above +zone and crosses signal line downwards, returns full sell signal."
use super::*;


#[derive(Clone)]
pub struct RelativeVigorIndex {
	zone: f64,
	prev_close: f64,
	num_swma: rm::Fir,
	num_sma: rm::Fir,
	den_swma: rm::Fir,
	den_sma: rm::Fir,
	sig: Box<dyn rm::RefVV>,
	/// has any candle (incl. the prehistory) had a range high > low
	ranged: bool,
	x: CrossD,
	/// implementation reading (recorded discrepancies): numerator close - PREVIOUS close (started at the first
	/// open, averages started at 0); signal #2 with the opposite sign
	follow_impl: bool,
}

impl IndRef for RelativeVigorIndex {
	fn values(&mut self, c: &RC) -> Vec<Q> {
		let co = if !self.follow_impl { c.c - c.o } else { c.c - self.prev_close };
		self.prev_close = c.c;
		let hl = c.h - c.l;
		self.ranged |= hl != 0.0;
		let a = self.num_swma.step(Q::exact(co));
		let num = self.num_sma.step(a);
		let b = self.den_swma.step(Q::exact(hl));
		let den = self.den_sma.step(b);
		let rvi = if !self.ranged {
			// † follows the implementation: the linked formula is 0/0 when no candle has any range; the indicator
			// answers 0. Exact predicate only while every high == low since ever: once a range has entered the
			// averages the implementation decides this on rounded running sums, and the quotient is undefined
			// whenever the denominator's interval contains 0.
			Q::exact(0.0)
		} else {
			num / den
		};
		// an undefined main value makes the signal line undefined for as long as the average remembers it
		// (finite centre: the median average sorts its window)
		let s = self.sig.stepq(if rvi.is_defined() { rvi } else { Q::new(0.0, f64::INFINITY) });
		vec![rvi, s]
	}
	fn signals(&mut self, _c: &RC, own: &[f64]) -> Vec<Sig> {
		let (rvi, sig) = (own[0], own[1]);
		let x = self.x.cross(rvi, sig);
		let s2 = (x > 0 && rvi < -self.zone) as i32 - (x < 0 && rvi > self.zone) as i32;
		let s2 = if self.follow_impl { (x < 0 && rvi > self.zone && sig > self.zone) as i32 - (x > 0 && rvi < -self.zone && sig < -self.zone) as i32 } else { s2 };
		vec![sig_sign(x), sig_sign(s2)]
	}
	indref!(RelativeVigorIndex);
}

pub fn make(cfg: &Cfg, c0: &RC) -> Option<Box<dyn IndRef>> {
	build(cfg, c0, false)
}
pub fn make_alt(cfg: &Cfg, c0: &RC) -> Option<Box<dyn IndRef>> {
	build(cfg, c0, true)
}
fn build(cfg: &Cfg, c0: &RC, follow_impl: bool) -> Option<Box<dyn IndRef>> {
	let n = cfg.int("period1");
	let k = cfg.int("period2");
	// constant prehistory: every bar is c0, so close - open and high - low are those of c0
	let co0 = if !follow_impl { c0.c - c0.o } else { 0.0 };
	let hl0 = c0.h - c0.l;
	let rvi0 = if hl0 == 0.0 {
		Q::exact(0.0) // † as above
	} else if !follow_impl {
		Q::exact(co0) / Q::exact(hl0)
	} else {
		Q::exact(0.0)
	};
	Some(Box::new(RelativeVigorIndex {
		zone: cfg.float("zone"),
		prev_close: c0.o,
		num_swma: rm::Fir::new(rm::w_swma(k), Q::exact(co0)),
		num_sma: rm::Fir::new(rm::w_sma(n), Q::exact(co0)),
		den_swma: rm::Fir::new(rm::w_swma(k), Q::exact(hl0)),
		den_sma: rm::Fir::new(rm::w_sma(n), Q::exact(hl0)),
		sig: cfg.ma_ref("signal", rvi0),
		ranged: hl0 != 0.0,
		// main - signal on the constant prehistory
		x: CrossD::new(0.0),
		follow_impl,
	}))
}
