//! Envelopes — reference model (TODO).
use super::*;

/// returns None until the reference is written
pub fn make(_cfg: &Cfg, _c0: &RC) -> Option<Box<dyn IndRef>> {
	None
}
