//! Envelopes. Doc (and <https://www.investopedia.com/terms/e/envelope.asp>):
//!   a moving average of `source` (`ma`) shifted up and down by the relative size `k`:
//!     upper bound = MA(source) · (1 + k),  lower bound = MA(source) · (1 − k).
//! 3 values (documented order): `Upper bound`, `Lower bound`, raw `Source2` value.
//! 1 signal: "appears when `Source2` value crosses bounds": `Source2` crosses the `upper bound` upwards:
//!   full sell; `Source2` crosses the `lower bound` downwards: full buy.
use super::*;

/// How "crosses" is read.
/// `true`  — literally, as an event: the signal appears on the step on which `Source2` gets beyond a bound
///           it was not beyond on the previous step (this is what the doc comment says);
/// `false` — as a level: the signal is present on every step on which `Source2` lies beyond a bound
///           (this is what the implementation does; DESIGN.md Appendix A reading).

#[derive(Clone)]
pub struct Envelopes {
	src: String,
	src2: String,
	k: f64,
	ma: Box<dyn rm::RefVV>,
	was_above: bool,
	was_below: bool,
	/// implementation reading (recorded discrepancy): the signal is a LEVEL, present on every step beyond a bound
	follow_impl: bool,
}

/// the source as a plain number (for the state of the prehistory)
fn src_f64(c: &RC, kind: &str) -> f64 {
	match kind {
		"close" => c.c,
		"open" => c.o,
		"high" => c.h,
		"low" => c.l,
		"hl2" => (c.h + c.l) * 0.5,
		"tp" => (c.h + c.l + c.c) / 3.0,
		"volume" => c.v,
		"volumed_price" => (c.h + c.l + c.c) / 3.0 * c.v,
		o => panic!("unknown source {o}"),
	}
}

pub fn make(cfg: &Cfg, c0: &RC) -> Option<Box<dyn IndRef>> {
	build(cfg, c0, false)
}
pub fn make_alt(cfg: &Cfg, c0: &RC) -> Option<Box<dyn IndRef>> {
	build(cfg, c0, true)
}
fn build(cfg: &Cfg, c0: &RC, follow_impl: bool) -> Option<Box<dyn IndRef>> {
	let src = cfg.src("source");
	let src2 = cfg.src("source2");
	let k = cfg.float("k");
	// constant prehistory: the average of the source is the source, the bounds are source · (1 ± k)
	let v0 = src_f64(c0, &src);
	let p0 = src_f64(c0, &src2);
	Some(Box::new(Envelopes {
		ma: cfg.ma_ref("ma", source(c0, &src)),
		was_above: p0 > v0 * (1.0 + k),
		was_below: p0 < v0 * (1.0 - k),
		src,
		src2,
		k,
		follow_impl,
	}))
}

impl IndRef for Envelopes {
	fn values(&mut self, c: &RC) -> Vec<Q> {
		let v = self.ma.stepq(source(c, &self.src));
		vec![v.scale(1.0 + self.k), v.scale(1.0 - self.k), source(c, &self.src2)]
	}
	fn signals(&mut self, _c: &RC, own: &[f64]) -> Vec<Sig> {
		let (upper, lower, price) = (own[0], own[1], own[2]);
		// † follows the implementation: the documentation does not say on which side a touch counts;
		// "beyond a bound" is a strict comparison
		let above = price > upper;
		let below = price < lower;
		let (sell, buy) = if !self.follow_impl { (above && !self.was_above, below && !self.was_below) } else { (above, below) };
		self.was_above = above;
		self.was_below = below;
		vec![sig_sign(buy as i32 - sell as i32)]
	}
	indref!(Envelopes);
}
