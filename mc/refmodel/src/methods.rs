//! Reference definitions of yata's methods, from the doc comments / published formulas.
//! Each reference keeps the *history* (a `Ser`) and recomputes its output from the
//! last `n` elements at every step; nothing is maintained incrementally except the
//! documented recurrences of the recursive kinds.

use crate::{ema_step, fir, win_allow, Q, Ser};
use std::sync::Arc;

/// a (ValueType -> ValueType) reference
pub trait RefVV: Send + Sync {
	fn next(&mut self, x: f64) -> Q;
	/// the same with an input that carries a radius (compositions inside indicators)
	fn stepq(&mut self, x: Q) -> Q;
	fn box_clone(&self) -> Box<dyn RefVV>;
}
impl Clone for Box<dyn RefVV> {
	fn clone(&self) -> Self {
		self.box_clone()
	}
}
macro_rules! refvv {
	($t:ty) => {
		impl RefVV for $t {
			fn next(&mut self, x: f64) -> Q {
				self.step(Q::exact(x))
			}
			fn stepq(&mut self, x: Q) -> Q {
				self.step(x)
			}
			fn box_clone(&self) -> Box<dyn RefVV> {
				Box::new(self.clone())
			}
		}
	};
}

// ------------------------------------------------------------------ weight profiles

pub fn w_sma(n: usize) -> Vec<f64> {
	vec![1.0; n]
}
/// oldest -> newest: 1, 2, ..., n
pub fn w_wma(n: usize) -> Vec<f64> {
	(1..=n).map(|i| i as f64).collect()
}
/// symmetric triangle: [1,2,2,1] for 4, [1,2,3,2,1] for 5
pub fn w_swma(n: usize) -> Vec<f64> {
	(0..n).map(|i| (i + 1).min(n - i) as f64).collect()
}
/// least-squares line through the last n points evaluated at the newest abscissa:
/// weight of the point of age k (k = 0 newest) is (2(2n-1) - 6k) / (n(n+1))
pub fn w_linreg(n: usize) -> Vec<f64> {
	let nf = n as f64;
	(0..n).rev().map(|k| (2.0 * (2.0 * nf - 1.0) - 6.0 * k as f64) / (nf * (nf + 1.0))).collect()
}

// ------------------------------------------------------------------ generic FIR over a Ser

/// a window functional with fixed weights (oldest first) over an input series
#[derive(Clone, Debug)]
pub struct Fir {
	pub w: Arc<Vec<f64>>,
	pub input: Ser,
}
impl Fir {
	pub fn new(w: Vec<f64>, pad: Q) -> Self {
		let n = w.len();
		Self { w: Arc::new(w), input: Ser::with_cap(pad, n + 1) }
	}
	pub fn step(&mut self, x: Q) -> Q {
		self.input.push(x);
		self.peek()
	}
	pub fn peek(&self) -> Q {
		let n = self.w.len();
		fir(&self.input.last_n(n), self.w.as_slice(), self.input.t(), self.input.mag)
	}
}
refvv!(Fir);

pub fn sma(n: usize, v0: f64) -> Fir {
	Fir::new(w_sma(n), Q::exact(v0))
}
pub fn wma(n: usize, v0: f64) -> Fir {
	Fir::new(w_wma(n), Q::exact(v0))
}
pub fn swma(n: usize, v0: f64) -> Fir {
	Fir::new(w_swma(n), Q::exact(v0))
}
pub fn lin_reg(n: usize, v0: f64) -> Fir {
	Fir::new(w_linreg(n), Q::exact(v0))
}
/// Conv: weights listed oldest -> newest (the last weight applies to the newest value)
pub fn conv(w: Vec<f64>, v0: f64) -> Fir {
	Fir::new(w, Q::exact(v0))
}

/// TRIMA = SMA(SMA(x, n), n)
#[derive(Clone, Debug)]
pub struct Trima {
	a: Fir,
	b: Fir,
}
impl Trima {
	pub fn new(n: usize, v0: f64) -> Self {
		Self::new_q(n, Q::exact(v0))
	}
	pub fn new_q(n: usize, pad: Q) -> Self {
		Self { a: Fir::new(w_sma(n), pad), b: Fir::new(w_sma(n), pad) }
	}
	pub fn step(&mut self, x: Q) -> Q {
		let y = self.a.step(x);
		self.b.step(y)
	}
}
refvv!(Trima);

/// HMA = WMA( 2*WMA(x, n/2) - WMA(x, n), floor(sqrt(n)) )
#[derive(Clone, Debug)]
pub struct Hma {
	a: Fir,
	b: Fir,
	c: Fir,
}
impl Hma {
	pub fn new(n: usize, v0: f64) -> Self {
		Self::new_q(n, Q::exact(v0))
	}
	pub fn new_q(n: usize, pad: Q) -> Self {
		let s = (n as f64).sqrt().floor() as usize;
		Self { a: Fir::new(w_wma(n / 2), pad), b: Fir::new(w_wma(n), pad), c: Fir::new(w_wma(s), pad) }
	}
	pub fn step(&mut self, x: Q) -> Q {
		let w1 = self.a.step(x);
		let w2 = self.b.step(x);
		self.c.step(w1.scale(2.0) - w2)
	}
}
refvv!(Hma);

// ------------------------------------------------------------------ plain window quantities

#[derive(Clone, Debug)]
pub struct Win {
	pub n: usize,
	pub input: Ser,
	pub kind: WinKind,
}
#[derive(Clone, Copy, Debug, PartialEq)]
pub enum WinKind {
	/// Σ of the last n (n = 0: Σ of the whole stream, starting from 0)
	Integral,
	/// (x - x[-n]) / n
	Derivative,
	/// x - x[-n]
	Momentum,
	/// (x - x[-n]) / x[-n]
	Roc,
	/// x[-n]
	Past,
	/// sample variance of the last n (n-1 in the denominator); compared with the square of the output
	Variance,
	/// Σ|x - mean| / n
	MeanAbsDev,
	/// Σ|x - median| / n
	MedianAbsDev,
	/// (x - mean) / mean_abs_dev, 0 when the deviation is 0
	Cci,
	/// Σ |x_i - x_{i-1}| over the last n changes
	LinVol,
}
impl Win {
	pub fn new(kind: WinKind, n: usize, v0: f64) -> Self {
		Self::new_q(kind, n, Q::exact(v0))
	}
	pub fn new_q(kind: WinKind, n: usize, pad: Q) -> Self {
		let input = if n == 0 { Ser::new(pad) } else { Ser::with_cap(pad, n + 2) };
		Self { n, input, kind }
	}
	pub fn step(&mut self, x: Q) -> Q {
		self.input.push(x);
		self.peek()
	}
	pub fn peek(&self) -> Q {
		let n = self.n;
		let s = &self.input;
		let t = s.t();
		let m = s.mag;
		match self.kind {
			WinKind::Integral => {
				if n == 0 {
					// cumulative: no window, sum of the whole stream from 0
					let mut v = 0.0;
					let mut mm: f64 = 0.0;
					for q in &s.xs {
						v += q.v;
						mm = mm.max(q.v.abs());
					}
					Q::new(v, win_allow(t, 0, 1.0, mm.max(v.abs())))
				} else {
					let w = s.last_n(n);
					let v: f64 = w.iter().map(|q| q.v).sum();
					let rin: f64 = w.iter().map(|q| q.r).sum();
					if s.exactly_summable(n) {
						return Q::exact(v);
					}
					Q::new(v, win_allow(t, n, n as f64, m) + rin)
				}
			}
			WinKind::Derivative => (s.back(0) - s.back(n)).scale(1.0 / n as f64),
			WinKind::Momentum => s.back(0) - s.back(n),
			// dimensionless quotient: radius at least a few roundings at unit scale (x/past - 1 is as good a formulation)
			WinKind::Roc => ((s.back(0) - s.back(n)) / s.back(n)).widen(16.0 * crate::eps()),
			WinKind::Past => s.back(n),
			WinKind::Variance => {
				let w = s.last_n(n);
				let mean: f64 = w.iter().map(|q| q.v).sum::<f64>() / n as f64;
				let var: f64 = w.iter().map(|q| (q.v - mean) * (q.v - mean)).sum::<f64>() / (n as f64 - 1.0);
				// running sum and sum of squares: quadratic in the magnitude
				let rin = w.iter().map(|q| q.r).fold(0.0f64, f64::max);
				Q::new(var, win_allow(t, n, 2.0 * n as f64 / (n as f64 - 1.0), m * m) + 8.0 * m * rin)
			}
			WinKind::MeanAbsDev => mean_abs_dev(s, n),
			WinKind::MedianAbsDev => {
				let w = s.last_n(n);
				let med = median(&w.iter().map(|q| q.v).collect::<Vec<_>>());
				let v: f64 = w.iter().map(|q| (q.v - med).abs()).sum::<f64>() / n as f64;
				let rin = w.iter().map(|q| q.r).fold(0.0f64, f64::max);
				Q::new(v, 16.0 * crate::eps() * (n + 8) as f64 * m + 2.0 * rin)
			}
			WinKind::Cci => {
				let mean = fir(&s.last_n(n), &vec![1.0; n], t, m);
				let mad = mean_abs_dev(s, n);
				if mad.straddles(0.0) {
					// the guard is decided by a quantity that is rounded in every evaluation
					return Q::undefined();
				}
				((s.back(0) - mean) / mad).widen(16.0 * crate::eps())
			}
			WinKind::LinVol => {
				// changes between consecutive elements; the change into the first stream element is x0 - v0
				let w = s.last_n(n + 1);
				let mut v = 0.0;
				let mut mm: f64 = 0.0;
				for i in 1..w.len() {
					let d = (w[i].v - w[i - 1].v).abs();
					v += d;
					mm = mm.max(d);
				}
				// history magnitude of the changes is at most 2 * magnitude of the values
				let rin: f64 = w.iter().map(|q| q.r).sum();
				if s.exactly_summable(n + 1) {
					return Q::exact(v);
				}
				Q::new(v, win_allow(t, n, n as f64, 2.0 * m) + 2.0 * rin)
			}
		}
	}
}
refvv!(Win);

fn mean_abs_dev(s: &Ser, n: usize) -> Q {
	let t = s.t();
	let mean = fir(&s.last_n(n), &vec![1.0; n], t, s.mag);
	let w = s.last_n(n);
	let mut acc = Q::exact(0.0);
	for q in &w {
		acc = acc + (*q - mean).abs();
	}
	acc.scale(1.0 / n as f64)
}

pub fn median(v: &[f64]) -> f64 {
	let mut s = v.to_vec();
	if s.iter().any(|x| x.is_nan()) {
		return f64::NAN;
	}
	s.sort_by(|a, b| a.partial_cmp(b).unwrap());
	let n = s.len();
	if n % 2 == 1 {
		s[n / 2]
	} else {
		(s[n / 2 - 1] + s[n / 2]) * 0.5
	}
}

// ------------------------------------------------------------------ recursive kinds

#[derive(Clone, Debug)]
pub struct Ema {
	pub a: f64,
	pub y: Q,
}
impl Ema {
	pub fn with_alpha(a: f64, v0: Q) -> Self {
		Self { a, y: v0 }
	}
	/// alpha = 2/(n+1)
	pub fn new(n: usize, v0: f64) -> Self {
		Self::with_alpha(2.0 / (n as f64 + 1.0), Q::exact(v0))
	}
	/// alpha = 1/n
	pub fn rma(n: usize, v0: f64) -> Self {
		Self::with_alpha(1.0 / n as f64, Q::exact(v0))
	}
	/// WSMA = EMA(2n - 1), i.e. alpha = 1/n
	pub fn wsma(n: usize, v0: f64) -> Self {
		Self::with_alpha(2.0 / (2.0 * n as f64 - 1.0 + 1.0), Q::exact(v0))
	}
	pub fn step(&mut self, x: Q) -> Q {
		self.y = ema_step(self.y, x, self.a);
		self.y
	}
}
refvv!(Ema);

/// cascades and combinations of EMAs
#[derive(Clone, Debug)]
pub struct EmaCascade {
	pub kind: CascadeKind,
	e: [Ema; 3],
}
#[derive(Clone, Copy, Debug, PartialEq)]
pub enum CascadeKind {
	Dma,
	Tma,
	Dema,
	Tema,
}
impl EmaCascade {
	pub fn new(kind: CascadeKind, n: usize, v0: f64) -> Self {
		Self::new_q(kind, n, Q::exact(v0))
	}
	pub fn new_q(kind: CascadeKind, n: usize, pad: Q) -> Self {
		let a = 2.0 / (n as f64 + 1.0);
		Self { kind, e: [Ema::with_alpha(a, pad), Ema::with_alpha(a, pad), Ema::with_alpha(a, pad)] }
	}
	pub fn step(&mut self, x: Q) -> Q {
		let e1 = self.e[0].step(x);
		let e2 = self.e[1].step(e1);
		match self.kind {
			CascadeKind::Dma => e2,
			CascadeKind::Dema => e1.scale(2.0) - e2,
			CascadeKind::Tma => self.e[2].step(e2),
			CascadeKind::Tema => {
				let e3 = self.e[2].step(e2);
				(e1 - e2).scale(3.0) + e3
			}
		}
	}
}
refvv!(EmaCascade);

/// TSI = EMA(EMA(m, long), short) / EMA(EMA(|m|, long), short), m = one-step momentum;
/// 0 while the denominator is exactly 0 (no movement so far)
#[derive(Clone, Debug)]
pub struct Tsi {
	last: f64,
	n1: Ema,
	n2: Ema,
	d1: Ema,
	d2: Ema,
}
impl Tsi {
	pub fn new(short: usize, long: usize, v0: f64) -> Self {
		Self { last: v0, n1: Ema::new(long, 0.0), n2: Ema::new(short, 0.0), d1: Ema::new(long, 0.0), d2: Ema::new(short, 0.0) }
	}
	pub fn step(&mut self, x: Q) -> Q {
		let m = x - Q::exact(self.last);
		// the one-step difference of two exact inputs is a single rounded subtraction, identical in any evaluation
		let m = Q::exact(m.v);
		self.last = x.v;
		let a = self.n1.step(m);
		let num = self.n2.step(a);
		let b = self.d1.step(m.abs());
		let den = self.d2.step(b);
		if den.v == 0.0 && den.r == 0.0 {
			return Q::exact(0.0);
		}
		(num / den).widen(16.0 * crate::eps())
	}
}
refvv!(Tsi);

/// VIDYA_t = f*|CMO|*x + (1 - f*|CMO|)*VIDYA_{t-1}, f = 2/(n+1),
/// CMO = (up - dn)/(up + dn) over the last n one-step changes.
/// On a window without any change (CMO = 0/0) the value follows the input (yata's stated branch).
#[derive(Clone, Debug)]
pub struct Vidya {
	n: usize,
	input: Ser,
	y: Q,
}
impl Vidya {
	pub fn new(n: usize, v0: f64) -> Self {
		Self::new_q(n, Q::exact(v0))
	}
	pub fn new_q(n: usize, pad: Q) -> Self {
		Self { n, input: Ser::with_cap(pad, n + 2), y: pad }
	}
	pub fn step(&mut self, x: Q) -> Q {
		self.input.push(x);
		let n = self.n;
		let w = self.input.last_n(n + 1);
		let (mut up, mut dn) = (0.0f64, 0.0f64);
		let mut mm: f64 = 0.0;
		let mut any = false;
		let rin: f64 = w.iter().map(|q| if q.r.is_finite() { q.r } else { f64::INFINITY }).sum();
		if !rin.is_finite() {
			self.y = Q::undefined();
			return self.y;
		}
		for i in 1..w.len() {
			let d = w[i].v - w[i - 1].v;
			if d > 0.0 {
				up += d;
				any = true;
			} else if d < 0.0 {
				dn -= d;
				any = true;
			}
			mm = mm.max(d.abs());
		}
		if !any {
			if rin > 0.0 {
				// inputs known only up to a radius: the flat-window predicate cannot be decided
				self.y = Q::undefined();
				return self.y;
			}
			// exact predicate: every one of the last n changes is exactly zero
			self.y = x;
			return self.y;
		}
		let f = 2.0 / (n as f64 + 1.0);
		// running sums of the implementation: allowance over the whole history of changes
		let allow = win_allow(self.input.t(), n, 1.0, 2.0 * self.input.mag) + 2.0 * rin;
		let upq = Q::new(up, allow);
		let dnq = Q::new(dn, allow);
		let cmo = ((upq - dnq) / (upq + dnq)).abs();
		if !cmo.is_defined() {
			self.y = Q::undefined();
			return self.y;
		}
		let fc = cmo.scale(f);
		let y = x * fc + (Q::exact(1.0) - fc) * self.y;
		self.y = y;
		y
	}
	pub fn factor_range_ok(&self) -> bool {
		true
	}
}
refvv!(Vidya);

// ------------------------------------------------------------------ selections (exact)

#[derive(Clone, Debug)]
pub struct Sel {
	pub n: usize,
	pub input: Ser,
}
impl Sel {
	pub fn new(n: usize, v0: f64) -> Self {
		Self { n, input: Ser::exact_cap(v0, n + 2) }
	}
	pub fn new_q(n: usize, pad: Q) -> Self {
		Self { n, input: Ser::with_cap(pad, n + 2) }
	}
	pub fn push(&mut self, x: f64) {
		self.input.pushv(x);
	}
	pub fn pushq(&mut self, x: Q) {
		self.input.push(x);
	}
	/// largest radius among the window elements (a selection is as uncertain as its inputs)
	pub fn rad(&self) -> f64 {
		self.input.last_n(self.n).iter().map(|q| q.r).fold(0.0, f64::max)
	}
	fn vals(&self) -> Vec<f64> {
		self.input.last_n(self.n).iter().map(|q| q.v).collect()
	}
	pub fn highest(&self) -> f64 {
		self.vals().into_iter().fold(f64::NEG_INFINITY, f64::max)
	}
	pub fn lowest(&self) -> f64 {
		self.vals().into_iter().fold(f64::INFINITY, f64::min)
	}
	/// age of the newest maximal element
	pub fn highest_index(&self) -> usize {
		let v = self.vals();
		let mx = self.highest();
		(0..v.len()).find(|&k| v[v.len() - 1 - k] == mx).unwrap()
	}
	pub fn lowest_index(&self) -> usize {
		let v = self.vals();
		let mn = self.lowest();
		(0..v.len()).find(|&k| v[v.len() - 1 - k] == mn).unwrap()
	}
	pub fn median(&self) -> f64 {
		median(&self.vals())
	}
	pub fn window_oldest_first(&self) -> Vec<f64> {
		self.vals()
	}
}

// ------------------------------------------------------------------ detectors (exact)

/// previous difference < 0 and current >= 0
pub fn cross_above(prev: f64, cur: f64) -> bool {
	prev < 0.0 && cur >= 0.0
}
pub fn cross_under(prev: f64, cur: f64) -> bool {
	prev > 0.0 && cur <= 0.0
}

/// Upper (lower) reversal: fires at step t (0-based) iff t >= right and x[t-right] is
/// >= (<=) every one of the `left` elements before it and > (<) every one of the `right`
/// elements after it. Prehistory = construction value.
#[derive(Clone, Debug)]
pub struct Reversal {
	pub left: usize,
	pub right: usize,
	pub input: Ser,
}
impl Reversal {
	pub fn new(left: usize, right: usize, v0: f64) -> Self {
		Self { left, right, input: Ser::exact_cap(v0, left + right + 3) }
	}
	pub fn push(&mut self, x: f64) {
		self.input.pushv(x);
	}
	fn fires(&self, upper: bool) -> bool {
		let t = self.input.t() - 1; // index of the newest element
		if t < self.right {
			return false;
		}
		let sgn = if upper { 1.0 } else { -1.0 };
		let c = self.input.back(self.right).v * sgn;
		for k in 0..self.right {
			if !(c > self.input.back(k).v * sgn) {
				return false;
			}
		}
		for k in 1..=self.left {
			if !(c >= self.input.back(self.right + k).v * sgn) {
				return false;
			}
		}
		true
	}
	pub fn upper(&self) -> bool {
		self.fires(true)
	}
	pub fn lower(&self) -> bool {
		self.fires(false)
	}
}

// ------------------------------------------------------------------ candle-based

#[derive(Clone, Copy, Debug, PartialEq)]
pub struct RC {
	pub o: f64,
	pub h: f64,
	pub l: f64,
	pub c: f64,
	pub v: f64,
}
impl RC {
	pub fn tp(&self) -> Q {
		(Q::exact(self.h) + Q::exact(self.l) + Q::exact(self.c)).scale(1.0 / 3.0)
	}
	pub fn hl2(&self) -> Q {
		(Q::exact(self.h) + Q::exact(self.l)).scale(0.5)
	}
	pub fn ohlc4(&self) -> Q {
		(Q::exact(self.h) + Q::exact(self.l) + Q::exact(self.c) + Q::exact(self.o)).scale(0.25)
	}
	pub fn clv(&self) -> Q {
		if self.h == self.l {
			return Q::exact(0.0);
		}
		((Q::exact(self.c) - Q::exact(self.l)) - (Q::exact(self.h) - Q::exact(self.c))) / (Q::exact(self.h) - Q::exact(self.l))
	}
	/// max(h - l, |h - pc|, |l - pc|)
	pub fn tr(&self, pc: f64) -> Q {
		Q::exact((self.h - self.l).max((self.h - pc).abs()).max((self.l - pc).abs()))
	}
}

/// VWMA = Σ p*v / Σ v over the last n (value, volume) pairs; undefined while Σ v = 0
#[derive(Clone, Debug)]
pub struct Vwma {
	n: usize,
	p: Ser,
	v: Ser,
	pv_mag: f64,
}
impl Vwma {
	pub fn new(n: usize, p0: f64, v0: f64) -> Self {
		Self { n, p: Ser::exact_cap(p0, n + 2), v: Ser::exact_cap(v0, n + 2), pv_mag: (p0 * v0).abs() }
	}
	pub fn step(&mut self, p: f64, v: f64) -> Q {
		self.p.pushv(p);
		self.v.pushv(v);
		self.pv_mag = self.pv_mag.max((p * v).abs());
		let ps = self.p.last_n(self.n);
		let vs = self.v.last_n(self.n);
		let num: f64 = ps.iter().zip(&vs).map(|(a, b)| a.v * b.v).sum();
		let den: f64 = vs.iter().map(|b| b.v).sum();
		let t = self.p.t();
		let nq = Q::new(num, win_allow(t, self.n, self.n as f64, self.pv_mag));
		let dq = Q::new(den, win_allow(t, self.n, self.n as f64, self.v.mag));
		if vs.iter().all(|b| b.v == 0.0) {
			return Q::undefined();
		}
		nq / dq
	}
}

/// ADI: Σ clv*volume over the last n candles (n = 0: over the whole stream from 0)
#[derive(Clone, Debug)]
pub struct Adi {
	n: usize,
	x: Ser,
}
impl Adi {
	pub fn new(n: usize, c0: &RC) -> Self {
		let q = c0.clv() * Q::exact(c0.v);
		Self { n, x: if n == 0 { Ser::new(q) } else { Ser::with_cap(q, n + 2) } }
	}
	pub fn step(&mut self, c: &RC) -> Q {
		self.x.push(c.clv() * Q::exact(c.v));
		let t = self.x.t();
		if self.n == 0 {
			let mut acc = 0.0;
			let mut r = 0.0;
			let mut mm: f64 = 0.0;
			for q in &self.x.xs {
				acc += q.v;
				r += q.r;
				mm = mm.max(q.v.abs());
			}
			Q::new(acc, r + win_allow(t, 0, 1.0, mm.max(acc.abs())))
		} else {
			let w = self.x.last_n(self.n);
			fir(&w, &vec![1.0; self.n], t, self.x.mag).scale(self.n as f64)
		}
	}
}

/// Heikin-Ashi: close = ohlc4; open_t = (open_{t-1} + close_{t-1})/2, open_0 = ohlc4 of the first candle;
/// high = max(high, open), low = min(low, open)
#[derive(Clone, Debug)]
pub struct HeikinAshi {
	next_open: Q,
}
impl HeikinAshi {
	pub fn new(c0: &RC) -> Self {
		Self { next_open: c0.ohlc4() }
	}
	/// returns (open, high, low, close)
	pub fn step(&mut self, c: &RC) -> (Q, Q, Q, Q) {
		let open = self.next_open;
		let close = c.ohlc4();
		self.next_open = (open + close).scale(0.5);
		(open, Q::exact(c.h).max(open), Q::exact(c.l).min(open), close)
	}
}


/// median of the last n values as a moving average (exact selection; inputs may carry a radius)
#[derive(Clone, Debug)]
pub struct Smm(pub Sel);
impl Smm {
	pub fn step(&mut self, x: Q) -> Q {
		self.0.pushq(x);
		let m = self.0.median();
		let r = self.0.rad();
		if !m.is_finite() || !r.is_finite() {
			return Q::undefined();
		}
		Q::new(m, r)
	}
}
refvv!(Smm);

pub const MA_KINDS: [&str; 15] = ["sma", "wma", "hma", "rma", "ema", "dma", "dema", "tma", "tema", "wsma", "smm", "swma", "trima", "linreg", "vidya"];

/// reference of a moving-average kind of the `MA` constructor, started at `pad`
pub fn ma_q(kind: &str, n: usize, pad: Q) -> Box<dyn RefVV> {
	match kind {
		"sma" => Box::new(Fir::new(w_sma(n), pad)),
		"wma" => Box::new(Fir::new(w_wma(n), pad)),
		"swma" => Box::new(Fir::new(w_swma(n), pad)),
		"linreg" | "lin_reg" => Box::new(Fir::new(w_linreg(n), pad)),
		"trima" => Box::new(Trima::new_q(n, pad)),
		"hma" => Box::new(Hma::new_q(n, pad)),
		"ema" => Box::new(Ema::with_alpha(2.0 / (n as f64 + 1.0), pad)),
		"rma" | "wsma" => Box::new(Ema::with_alpha(1.0 / n as f64, pad)),
		"dma" => Box::new(EmaCascade::new_q(CascadeKind::Dma, n, pad)),
		"tma" => Box::new(EmaCascade::new_q(CascadeKind::Tma, n, pad)),
		"dema" => Box::new(EmaCascade::new_q(CascadeKind::Dema, n, pad)),
		"tema" => Box::new(EmaCascade::new_q(CascadeKind::Tema, n, pad)),
		"smm" => Box::new(Smm(Sel::new_q(n, pad))),
		"vidya" => Box::new(Vidya::new_q(n, pad)),
		_ => panic!("unknown MA kind {kind}"),
	}
}
