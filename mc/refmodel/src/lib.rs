pub fn placeholder() {}
