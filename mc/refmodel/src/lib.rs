//! Reference models — written from the documentation / published formulas, no
//! dependency on yata. Every quantity is a value with an error radius (`Q`); checks
//! are containment checks `|observed - value| <= radius` (DESIGN.md §4).

use std::sync::atomic::{AtomicU64, Ordering};

pub mod methods;
pub mod ind;

static EPS_BITS: AtomicU64 = AtomicU64::new(0x3CB0_0000_0000_0000); // 2^-52

/// machine epsilon of the implementation's value type (2^-52 or 2^-23)
pub fn set_eps(e: f64) {
	EPS_BITS.store(e.to_bits(), Ordering::Relaxed);
}
pub fn eps() -> f64 {
	f64::from_bits(EPS_BITS.load(Ordering::Relaxed))
}

static FLOOR_BITS: AtomicU64 = AtomicU64::new(0x0010_0000_0000_0000); // f64::MIN_POSITIVE

/// smallest positive NORMAL number of the implementation's value type: below it a quantity has lost
/// precision (or has underflowed to zero), so it cannot be told from 0
pub fn set_floor(f: f64) {
	FLOOR_BITS.store(f.to_bits(), Ordering::Relaxed);
}
pub fn floor() -> f64 {
	f64::from_bits(FLOOR_BITS.load(Ordering::Relaxed))
}

/// value ± radius. `r = INFINITY` means "formula undefined here" (exempt).
#[derive(Clone, Copy, Debug, PartialEq)]
pub struct Q {
	pub v: f64,
	pub r: f64,
}

impl Q {
	pub const fn exact(v: f64) -> Self {
		Self { v, r: 0.0 }
	}
	pub const fn new(v: f64, r: f64) -> Self {
		Self { v, r }
	}
	pub const fn undefined() -> Self {
		Self { v: f64::NAN, r: f64::INFINITY }
	}
	pub fn is_defined(&self) -> bool {
		self.r.is_finite() && self.v.is_finite()
	}
	pub fn lo(&self) -> f64 {
		self.v - self.r
	}
	pub fn hi(&self) -> f64 {
		self.v + self.r
	}
	/// containment with outward rounding
	pub fn contains(&self, x: f64) -> bool {
		if !self.is_defined() {
			return true;
		}
		if !x.is_finite() {
			return false;
		}
		(x - self.v).abs() <= self.r * (1.0 + 4.0 * eps()) + f64::MIN_POSITIVE
	}
	pub fn widen(self, extra: f64) -> Self {
		Self { v: self.v, r: self.r + extra }
	}
	fn op(v: f64, r: f64) -> Self {
		if !v.is_finite() || !r.is_finite() {
			return Self::undefined();
		}
		Self { v, r: r + 4.0 * eps() * v.abs() }
	}
	pub fn abs(self) -> Self {
		if !self.is_defined() {
			return Self::undefined();
		}
		Self { v: self.v.abs(), r: self.r }
	}
	pub fn sqrt(self) -> Self {
		if !self.is_defined() {
			return Self::undefined();
		}
		let lo = self.lo().max(0.0).sqrt();
		let hi = self.hi().max(0.0).sqrt();
		let v = self.v.max(0.0).sqrt();
		Self::op(v, (hi - v).max(v - lo))
	}
	pub fn max(self, o: Self) -> Self {
		if !self.is_defined() || !o.is_defined() {
			return Self::undefined();
		}
		let v = self.v.max(o.v);
		let hi = self.hi().max(o.hi());
		let lo = self.lo().max(o.lo());
		Self { v, r: (hi - v).max(v - lo) }
	}
	pub fn min(self, o: Self) -> Self {
		-((-self).max(-o))
	}
	/// multiplication by an exactly known constant
	pub fn scale(self, k: f64) -> Self {
		if !self.is_defined() {
			return Self::undefined();
		}
		Self::op(self.v * k, self.r * k.abs())
	}
	pub fn recip(self) -> Self {
		Q::exact(1.0) / self
	}
	/// does the interval contain `x` (used for singular denominators / thresholds)
	pub fn straddles(&self, x: f64) -> bool {
		!self.is_defined() || (self.lo() <= x && x <= self.hi())
	}
	pub fn atanh(self) -> Self {
		if !self.is_defined() || self.lo() <= -1.0 || self.hi() >= 1.0 {
			return Self::undefined();
		}
		let v = self.v.atanh();
		let lo = self.lo().atanh();
		let hi = self.hi().atanh();
		Self::op(v, (hi - v).max(v - lo)).widen(8.0 * eps() * v.abs().max(1.0))
	}
	pub fn clamp(self, lo: f64, hi: f64) -> Self {
		self.max(Q::exact(lo)).min(Q::exact(hi))
	}
}

impl std::ops::Neg for Q {
	type Output = Q;
	fn neg(self) -> Q {
		Q { v: -self.v, r: self.r }
	}
}
impl std::ops::Add for Q {
	type Output = Q;
	fn add(self, o: Q) -> Q {
		if !self.is_defined() || !o.is_defined() {
			return Q::undefined();
		}
		// rounding of a sum is relative to the operands, not the (possibly cancelled) result
		let v = self.v + o.v;
		Q::op(v, self.r + o.r).widen(2.0 * eps() * (self.v.abs().max(o.v.abs())))
	}
}
impl std::ops::Sub for Q {
	type Output = Q;
	fn sub(self, o: Q) -> Q {
		self + (-o)
	}
}
impl std::ops::Mul for Q {
	type Output = Q;
	fn mul(self, o: Q) -> Q {
		if !self.is_defined() || !o.is_defined() {
			return Q::undefined();
		}
		Q::op(self.v * o.v, self.v.abs() * o.r + o.v.abs() * self.r + self.r * o.r)
	}
}
impl std::ops::Div for Q {
	type Output = Q;
	fn div(self, o: Q) -> Q {
		if !self.is_defined() || !o.is_defined() || o.straddles(0.0) {
			return Q::undefined();
		}
		// interval image of a/b with b bounded away from 0
		let cands = [self.lo() / o.lo(), self.lo() / o.hi(), self.hi() / o.lo(), self.hi() / o.hi()];
		let v = self.v / o.v;
		let mut r: f64 = 0.0;
		for c in cands {
			r = r.max((c - v).abs());
		}
		Q::op(v, r)
	}
}
impl From<f64> for Q {
	fn from(v: f64) -> Q {
		Q::exact(v)
	}
}

/// A series with an infinite constant prehistory (`pad`). Only the last `cap` elements
/// are retained (a reference never looks further back than its window); `t` counts all.
#[derive(Clone, Debug)]
pub struct Ser {
	pub pad: Q,
	pub xs: Vec<Q>,
	/// magnitude of the whole history incl. the pad
	pub mag: f64,
	/// every element of the whole history (incl. the pad) is an exactly given integer
	pub all_int: bool,
	cap: usize,
	count: usize,
}

impl Ser {
	pub fn new(pad: Q) -> Self {
		Self { pad, xs: Vec::new(), mag: pad.v.abs() + if pad.r.is_finite() { pad.r } else { 0.0 }, all_int: pad.r == 0.0 && pad.v.fract() == 0.0, cap: usize::MAX, count: 0 }
	}
	/// retains only what a lookback of `cap` elements needs
	pub fn with_cap(pad: Q, cap: usize) -> Self {
		let mut s = Self::new(pad);
		s.cap = cap.max(1);
		s
	}
	pub fn exact(pad: f64) -> Self {
		Self::new(Q::exact(pad))
	}
	pub fn exact_cap(pad: f64, cap: usize) -> Self {
		Self::with_cap(Q::exact(pad), cap)
	}
	pub fn push(&mut self, q: Q) {
		if q.v.is_finite() {
			self.mag = self.mag.max(q.v.abs() + if q.r.is_finite() { q.r } else { 0.0 });
		}
		self.all_int &= q.r == 0.0 && q.v.is_finite() && q.v.fract() == 0.0;
		self.xs.push(q);
		self.count += 1;
		if self.cap != usize::MAX && self.xs.len() >= 2 * self.cap + 8 {
			let cut = self.xs.len() - self.cap;
			self.xs.drain(..cut);
		}
	}
	pub fn pushv(&mut self, v: f64) {
		self.push(Q::exact(v));
	}
	/// "exactly summable history" (DESIGN §4.2): every element so far is an integer and any sum of
	/// `terms` of them (or of their pairwise differences) stays far below 1/eps, so every from-scratch
	/// evaluation of a division-free definition is exact in any order - and so is a windowed running sum
	pub fn exactly_summable(&self, terms: usize) -> bool {
		self.all_int && (terms as f64 + 2.0) * 2.0 * self.mag * eps() < 0.125
	}
	/// number of stream elements so far
	pub fn t(&self) -> usize {
		self.count
	}
	/// k = 0 newest, k = 1 the one before, ...; beyond the stream: the pad
	pub fn back(&self, k: usize) -> Q {
		if k < self.xs.len() {
			self.xs[self.xs.len() - 1 - k]
		} else {
			assert!(k >= self.count, "Ser: lookback {k} beyond the retained suffix (cap {})", self.cap);
			self.pad
		}
	}
	/// last n elements, oldest first
	pub fn last_n(&self, n: usize) -> Vec<Q> {
		(0..n).rev().map(|k| self.back(k)).collect()
	}
	pub fn last(&self) -> Q {
		self.back(0)
	}
}

/// allowance of a window functional maintained as a running accumulator (DESIGN §4.2):
/// 16 * eps * (t + n + 8) * sum|w| * M
pub fn win_allow(t: usize, n: usize, sum_abs_w: f64, m: f64) -> f64 {
	16.0 * eps() * (t + n + 8) as f64 * sum_abs_w * m
}

/// Σ w_i x_i / Σ w_i over a window (oldest first, `w` aligned with it), with the
/// running-accumulator allowance for `t` steps of history of magnitude `m`.
pub fn fir(win: &[Q], w: &[f64], t: usize, m: f64) -> Q {
	assert_eq!(win.len(), w.len());
	let sw: f64 = w.iter().sum();
	let saw: f64 = w.iter().map(|x| x.abs()).sum();
	if sw == 0.0 || !sw.is_finite() {
		return Q::undefined();
	}
	let mut v = 0.0;
	let mut r = 0.0;
	for (q, wi) in win.iter().zip(w) {
		if !q.is_defined() {
			return Q::undefined();
		}
		v += wi * q.v;
		r += wi.abs() * q.r;
	}
	let v = v / sw;
	let r = r / sw.abs() + win_allow(t, win.len(), saw / sw.abs(), m);
	if !v.is_finite() {
		return Q::undefined();
	}
	Q { v, r }
}

/// recursive filter y <- y + a (x - y); radius rule R <- (1-a) R + a R_in + 8 eps max(|y|,|x|,|y_prev|)
pub fn ema_step(y: Q, x: Q, a: f64) -> Q {
	if !y.is_defined() || !x.is_defined() {
		return Q::undefined();
	}
	let v = y.v + a * (x.v - y.v);
	let mut r = (1.0 - a).abs() * y.r + a.abs() * x.r + 8.0 * eps() * v.abs().max(x.v.abs()).max(y.v.abs());
	// a decaying filter eventually reaches the subnormal range of the value type (and then exactly 0)
	if v != 0.0 && v.abs() < 4.0 * floor() / eps().sqrt() {
		r += floor() / eps();
	}
	Q { v, r }
}
