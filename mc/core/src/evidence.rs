//! Run bookkeeping: collects explorer reports and total-enumeration blocks of one
//! check run, separates listed known findings from new violations, writes the
//! evidence file and replay files, and maps the outcome to the exit status
//! (0 held / 1 violation / 2 machinery error).

use crate::findings::KnownFindings;
use crate::{explore, explore_dfs, replay_path, Failure, Limits, Report, System, Violation};
use serde_json::{json, Map, Value};
use std::collections::BTreeMap;
use std::path::PathBuf;
use std::time::Instant;

pub struct Run {
	pub property: String,
	pub tier: String,
	pub seed: i64,
	t0: Instant,
	verif: PathBuf,
	known: KnownFindings,
	reports: Vec<Report>,
	enum_blocks: Vec<Value>,
	enum_evals: u64,
	enum_distinct: u64,
	unlisted: Vec<Violation>,
	listed: BTreeMap<String, (String, u64, Option<Violation>)>, // finding id -> (what, count, first)
	notes: Map<String, Value>,
	assumptions: Vec<String>,
	samples: Vec<Value>,
	outcomes: std::collections::BTreeSet<String>,
	machinery_errors: Vec<String>,
	replayed_twice: u64,
}

pub fn verif_dir() -> PathBuf {
	std::env::var("VERIF_DIR").map(PathBuf::from).unwrap_or_else(|_| PathBuf::from("/verif"))
}

impl Run {
	/// `tier` comes from argv (quick|thorough); VERIF_TIER overrides nothing, it is informational.
	pub fn new(property: &str, tier: &str) -> Self {
		crate::panics::install_hook();
		let verif = verif_dir();
		let seed = std::env::var("VERIF_SEED").ok().and_then(|s| s.parse().ok()).unwrap_or(0);
		let mut me = Self {
			property: property.to_string(),
			tier: tier.to_string(),
			seed,
			t0: Instant::now(),
			known: KnownFindings::default(),
			verif: verif.clone(),
			reports: vec![],
			enum_blocks: vec![],
			enum_evals: 0,
			enum_distinct: 0,
			unlisted: vec![],
			listed: BTreeMap::new(),
			notes: Map::new(),
			assumptions: vec![
				"128-bit hash compaction of product-state keys (collision probability < 1e-22 at 1e8 states)".into(),
				"yata is deterministic: no threads, clocks, RNG, globals (checked by replaying recorded paths twice)".into(),
				"VERIF_SEED is recorded but unused: the exploration makes no random choices".into(),
			],
			samples: vec![],
			outcomes: Default::default(),
			machinery_errors: vec![],
			replayed_twice: 0,
		};
		match KnownFindings::load(verif.join("known_findings.json").to_str().unwrap()) {
			Ok(k) => me.known = k,
			Err(e) => me.machinery_errors.push(format!("known_findings.json: {e}")),
		}
		if let Err(e) = crate::canaries() {
			me.machinery_errors.push(format!("canary: {e}"));
		}
		me
	}

	pub fn thorough(&self) -> bool {
		self.tier == "thorough"
	}

	pub fn assume(&mut self, s: &str) {
		if !self.assumptions.iter().any(|a| a == s) {
			self.assumptions.push(s.to_string());
		}
	}

	pub fn note(&mut self, k: &str, v: Value) {
		self.notes.insert(k.to_string(), v);
	}

	pub fn machinery_error(&mut self, e: impl Into<String>) {
		self.machinery_errors.push(e.into());
	}

	pub fn outcome(&mut self, s: impl Into<String>) {
		if self.outcomes.len() < 100_000 {
			self.outcomes.insert(s.into());
		}
	}

	fn classify(&mut self, v: Violation) {
		if let Some(f) = self.known.matches(&self.property, &v.system, &v.failure.sig) {
			let e = self.listed.entry(f.id.clone()).or_insert((f.what.clone(), 0, None));
			e.1 += 1;
			if e.2.is_none() {
				e.2 = Some(v);
			}
		} else {
			self.unlisted.push(v);
		}
	}

	/// Explore `sys` and fold the report into the run. Paths of new violations and of
	/// the samples are replayed twice; differing observations are a machinery error.
	pub fn explore<S: System>(&mut self, sys: &S, lim: &Limits, dfs: bool) -> Report {
		let rep = if dfs { explore_dfs(sys, lim) } else { explore(sys, lim) };
		// determinism: replay up to 8 violation paths twice
		let mut checked = 0;
		for v in &rep.violations {
			if checked >= 8 {
				break;
			}
			checked += 1;
			let a = replay_path(sys, &v.init, &v.path);
			let b = replay_path(sys, &v.init, &v.path);
			match (a, b) {
				(Ok(Some(fa)), Ok(Some(fb))) if fa.sig == v.failure.sig && fb.sig == v.failure.sig && fa.detail == fb.detail => {
					self.replayed_twice += 1;
				}
				(a, b) => self.machinery_errors.push(format!(
					"nondeterministic replay in {} init {} path {:?}: first {:?}, second {:?}, recorded {:?}",
					v.system, v.init, v.path, a, b, v.failure
				)),
			}
		}
		self.fold(rep.clone());
		rep
	}

	pub fn fold(&mut self, rep: Report) {
		for v in rep.violations.clone() {
			self.classify(v);
		}
		// violations beyond the kept ones per signature still count
		for s in rep.samples.iter().take(2) {
			if self.samples.len() < 40 {
				self.samples.push(s.clone());
			}
		}
		let mut r = rep;
		r.samples.clear();
		// keep reports compact in evidence
		r.violations.truncate(0);
		self.reports.push(r);
	}

	/// A block of total enumeration (finite domain covered completely, no state graph):
	/// `evaluations` cases run, `distinct` distinct non-trivial ones.
	pub fn enum_block(&mut self, name: &str, evaluations: u64, distinct: u64, exhaustive: bool, sample: Value, violations: Vec<Violation>) {
		self.enum_evals += evaluations;
		self.enum_distinct += distinct;
		self.enum_blocks.push(json!({"block": name, "evaluations": evaluations, "distinct_nontrivial": distinct, "exhaustive": exhaustive, "violations": violations.len()}));
		if self.samples.len() < 60 {
			self.samples.push(json!({"block": name, "case": sample}));
		}
		let mut bysig: BTreeMap<String, u32> = BTreeMap::new();
		for v in violations {
			let c = bysig.entry(v.failure.sig.clone()).or_insert(0);
			*c += 1;
			if *c <= 3 {
				self.classify(v);
			}
		}
	}

	pub fn violation(&mut self, system: &str, init: &str, path: Vec<String>, f: Failure) {
		self.classify(Violation {
			system: system.to_string(),
			init: init.to_string(),
			path,
			failure: f,
			deviations: 0,
		});
	}

	fn write_replay(&self, v: &Violation) -> PathBuf {
		let dir = self.verif.join("replays").join(&self.property);
		let _ = std::fs::create_dir_all(&dir);
		let h = crate::hash128_str(&format!("{}{}{:?}{}", v.system, v.init, v.path, v.failure.sig));
		let sysname: String = v
			.system
			.chars()
			.map(|c| if c.is_ascii_alphanumeric() { c } else { '_' })
			.collect();
		let p = dir.join(format!("{}-{:08x}.json", sysname, (h >> 96) as u32));
		let body = json!({
			"property": self.property,
			"tier": self.tier,
			"system": v.system,
			"init": v.init,
			"path": v.path,
			"deviations": v.deviations,
			"failure": {"sig": v.failure.sig, "detail": v.failure.detail},
			"replay": format!("./bin/replay {}", p.display()),
		});
		let _ = std::fs::write(&p, serde_json::to_string_pretty(&body).unwrap());
		p
	}

	/// Writes evidence, prints the verdict lines and exits.
	pub fn finish(mut self) -> ! {
		let wall = self.t0.elapsed().as_secs_f64();
		let states: u64 = self.reports.iter().map(|r| r.states).sum();
		let transitions: u64 = self.reports.iter().map(|r| r.transitions).sum();
		let leaves: u64 = self.reports.iter().map(|r| r.leaves).sum();
		let exempt: u64 = self.reports.iter().map(|r| r.exempt).sum();
		let total_vios: u64 = self.reports.iter().map(|r| r.violations_total).sum::<u64>();
		let caps: Vec<Value> = self
			.reports
			.iter()
			.filter_map(|r| r.cap_hit.as_ref().map(|c| json!({"system": r.system, "cap": c})))
			.collect();
		let closed = self.reports.iter().filter(|r| r.closed).count();
		// least unlisted violation
		self.unlisted.sort_by(|a, b| {
			(a.deviations, a.path.len(), &a.system, &a.path).cmp(&(b.deviations, b.path.len(), &b.system, &b.path))
		});
		let mut known_hit = vec![];
		for (id, (what, n, first)) in &self.listed {
			println!("KNOWN-FINDING: property={} {} [{}; {} recorded transitions]", self.property, what, id, n);
			known_hit.push(json!({"id": id, "what": what, "recorded": n, "first": first.as_ref().map(|v| json!({"system": v.system, "init": v.init, "path": v.path, "detail": v.failure.detail}))}));
		}
		if std::env::var("VERIF_DUMP_SIGS").is_ok() {
			let mut m: BTreeMap<(String, String), (u64, String)> = BTreeMap::new();
			for v in &self.unlisted {
				let e = m.entry((v.system.clone(), v.failure.sig.clone())).or_insert((0, format!("{:?} :: {}", v.path.last(), v.failure.detail)));
				e.0 += 1;
			}
			for ((sys, sig), (n, d)) in m {
				eprintln!("SIG\t{sys}\t{sig}\t{n}\t{}", d.chars().take(300).collect::<String>());
			}
		}
		let mut replay_paths = vec![];
		let mut seen_sig = std::collections::BTreeSet::new();
		for v in &self.unlisted {
			if seen_sig.insert((v.system.clone(), v.failure.sig.clone())) && replay_paths.len() < 20 {
				let p = self.write_replay(v);
				replay_paths.push((p, v.clone()));
			}
		}
		let mut per_system: Vec<Value> = Vec::new();
		// compact per-system breakdown (merge same names)
		let mut agg: BTreeMap<String, (u64, u64, u32, bool, u64, String)> = BTreeMap::new();
		for r in &self.reports {
			let e = agg.entry(r.system.clone()).or_insert((0, 0, 0, true, 0, r.mode.clone()));
			e.0 += r.states;
			e.1 += r.transitions;
			e.2 = e.2.max(r.max_depth);
			e.3 &= r.closed;
			e.4 += r.violations_total;
		}
		for (k, v) in agg.iter().take(400) {
			per_system.push(json!({"system": k, "mode": v.5, "states": v.0, "transitions": v.1, "max_depth": v.2, "closed": v.3, "violating_transitions": v.4}));
		}
		let n_systems = agg.len();
		let exhaustive = caps.is_empty();
		let mut coverage = Map::new();
		coverage.insert("states".into(), json!(states.max(if self.enum_evals > 0 { 1 } else { 0 })));
		coverage.insert("transitions".into(), json!(transitions.max(if self.enum_evals > 0 { 1 } else { 0 })));
		coverage.insert("traces_validated_against_impl".into(), json!(leaves + self.enum_evals));
		coverage.insert("evaluations".into(), json!(transitions + self.enum_evals));
		coverage.insert(
			"distinct_nontrivial".into(),
			json!(states + self.enum_distinct),
		);
		coverage.insert("rule".into(), json!("states = distinct product states (real yata instance x reference model) after key deduplication, or tree nodes where states never repeat; transitions = calls executed on the real code and compared with the reference; total-enumeration blocks list their own case counts"));
		if self.samples.is_empty() {
			self.samples.push(json!({"note": "no sample recorded"}));
		}
		coverage.insert("samples".into(), Value::Array(self.samples.clone()));
		coverage.insert("exhaustive".into(), json!(exhaustive));
		coverage.insert("systems".into(), json!(n_systems));
		coverage.insert("systems_closed".into(), json!(closed));
		coverage.insert("exempt_steps".into(), json!(exempt));
		coverage.insert("caps_hit".into(), Value::Array(caps));
		coverage.insert("distinct_outcomes".into(), json!(self.outcomes.len()));
		coverage.insert("violating_transitions_total".into(), json!(total_vios));
		coverage.insert("known_findings_hit".into(), Value::Array(known_hit));
		coverage.insert("paths_replayed_twice".into(), json!(self.replayed_twice));
		coverage.insert("enumeration_blocks".into(), Value::Array(self.enum_blocks.clone()));
		coverage.insert("per_system".into(), Value::Array(per_system));
		for (k, v) in self.notes.iter() {
			coverage.insert(k.clone(), v.clone());
		}
		let ev = json!({
			"property_id": self.property,
			"tier": self.tier,
			"seed": self.seed,
			"level": "model_checking",
			"coverage": Value::Object(coverage),
			"assumptions": self.assumptions,
			"wall_s": wall,
			"violations": self.unlisted.len(),
			"machinery_errors": self.machinery_errors,
		});
		let evdir = self.verif.join("evidence");
		let _ = std::fs::create_dir_all(&evdir);
		let evpath = evdir.join(format!("{}.json", self.property));
		if let Err(e) = std::fs::write(&evpath, serde_json::to_string_pretty(&ev).unwrap()) {
			eprintln!("cannot write evidence {}: {e}", evpath.display());
			std::process::exit(2);
		}
		println!(
			"{} {}: systems={} states={} transitions={} enum_cases={} exempt={} known_findings={} new_violations={} wall={:.1}s",
			self.property,
			self.tier,
			n_systems,
			states,
			transitions,
			self.enum_evals,
			exempt,
			self.listed.len(),
			self.unlisted.len(),
			wall
		);
		if !self.machinery_errors.is_empty() {
			for e in &self.machinery_errors {
				eprintln!("MACHINERY-ERROR: {e}");
			}
			std::process::exit(2);
		}
		if !replay_paths.is_empty() {
			for (p, v) in &replay_paths {
				println!("  {} :: {} :: {}", v.system, v.failure.sig, v.failure.detail);
				println!("VIOLATION property={} replay={}", self.property, p.display());
			}
			std::process::exit(1);
		}
		std::process::exit(0);
	}
}
