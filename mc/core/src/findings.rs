//! Known findings: committed file `/verif/known_findings.json`, never written at run time.
//!
//! An entry lists a property, a system pattern and a failure-signature pattern
//! (`*` wildcards). A recorded violation is *listed* iff all three match. Signatures
//! are built by the checks from the observer / call site / input class of the failing
//! transition, so a different violation of the same property (other observer, other
//! input class, other subject) has a different signature and is still reported.

use serde::{Deserialize, Serialize};

#[derive(Clone, Debug, Serialize, Deserialize)]
pub struct Finding {
	pub id: String,
	pub property: String,
	pub system: String,
	pub sig: String,
	pub what: String,
	#[serde(default)]
	pub witness: serde_json::Value,
}

#[derive(Clone, Debug, Serialize, Deserialize)]
pub struct Fixed {
	pub property: String,
	pub commit: String,
	pub what: String,
}

#[derive(Clone, Debug, Default, Serialize, Deserialize)]
pub struct KnownFindings {
	#[serde(default)]
	pub findings: Vec<Finding>,
	#[serde(default)]
	pub fixed: Vec<Fixed>,
}

pub fn glob(pat: &str, s: &str) -> bool {
	// '*' matches any (possibly empty) substring
	let parts: Vec<&str> = pat.split('*').collect();
	if parts.len() == 1 {
		return pat == s;
	}
	let mut pos = 0usize;
	for (i, p) in parts.iter().enumerate() {
		if i == 0 {
			if !s.starts_with(p) {
				return false;
			}
			pos = p.len();
		} else if i + 1 == parts.len() {
			return s.len() >= pos + p.len() && s[pos..].ends_with(p);
		} else {
			match s[pos..].find(p) {
				Some(j) => pos += j + p.len(),
				None => return false,
			}
		}
	}
	true
}

impl KnownFindings {
	pub fn load(path: &str) -> Result<Self, String> {
		match std::fs::read_to_string(path) {
			Ok(t) => serde_json::from_str(&t).map_err(|e| format!("{path}: {e}")),
			Err(e) if e.kind() == std::io::ErrorKind::NotFound => Ok(Self::default()),
			Err(e) => Err(format!("{path}: {e}")),
		}
	}
	pub fn matches(&self, property: &str, system: &str, sig: &str) -> Option<&Finding> {
		self.findings
			.iter()
			.find(|f| f.property == property && glob(&f.system, system) && glob(&f.sig, sig))
	}
}

#[cfg(test)]
mod tests {
	use super::glob;
	#[test]
	fn globs() {
		assert!(glob("a*c", "abc"));
		assert!(glob("a*", "a"));
		assert!(glob("*", ""));
		assert!(!glob("a*c", "ab"));
		assert!(glob("a*b*c", "axxbyyc"));
		assert!(!glob("abc", "abcd"));
		assert!(glob("*last*", "iter/last/consumed"));
	}
}
