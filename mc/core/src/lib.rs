//! mccore — a small explicit-state explorer for sequential libraries.
//!
//! The state is always a *product*: (real implementation instance(s)) x (reference
//! model state). `System::step` executes ONE call on the real code, advances the
//! reference and compares. The explorer enumerates every action sequence within the
//! stated bounds (depth, deviation budget, or until the state space closes),
//! deduplicating on a 128-bit key where the system provides one.
//!
//! It does not stop at the first violation: violating transitions are recorded and
//! not expanded, everything else is still explored (needed to separate listed known
//! findings from new ones).

pub mod evidence;
pub mod findings;
pub mod panics;

use rayon::prelude::*;
use serde::{Deserialize, Serialize};
use std::collections::HashSet;
use std::fmt::Debug;
use std::hash::{Hash, Hasher};
use std::time::{Duration, Instant};

pub use panics::{catch, PanicInfo};

/// 128-bit key: two SipHash passes with different salts.
pub fn hash128(bytes: &[u8]) -> u128 {
	#[allow(deprecated)]
	let mut h1 = std::hash::SipHasher::new_with_keys(0x6d63_636f_7265_0001, 0x9e37_79b9_7f4a_7c15);
	#[allow(deprecated)]
	let mut h2 = std::hash::SipHasher::new_with_keys(0xc2b2_ae3d_27d4_eb4f, 0x1656_67b1_9e37_79f9);
	bytes.hash(&mut h1);
	bytes.hash(&mut h2);
	((h1.finish() as u128) << 64) | h2.finish() as u128
}

pub fn hash128_str(s: &str) -> u128 {
	hash128(s.as_bytes())
}

/// What went wrong on one transition.
#[derive(Clone, Debug, Serialize, Deserialize)]
pub struct Failure {
	/// Stable signature "<observer>/<failure class>[/<input class>]" — the unit
	/// known findings are matched on. Must not contain run-specific numbers.
	pub sig: String,
	/// Human-readable expected vs. observed.
	pub detail: String,
}

impl Failure {
	pub fn new(sig: impl Into<String>, detail: impl Into<String>) -> Self {
		Self {
			sig: sig.into(),
			detail: detail.into(),
		}
	}
}

pub enum Step<S> {
	/// Transition executed on the real code, oracle agreed.
	Next(S),
	/// Transition executed; oracle is declared silent on it (counted), successor explored.
	Exempt(S, &'static str),
	/// Oracle disagreed (or the real code panicked where it must not). Not expanded.
	Violation(Failure),
	/// Like Violation, but the successor state is still well defined and is explored.
	ViolationContinue(S, Failure),
	/// Action not applicable here; not counted.
	Prune,
}

pub trait System: Sync {
	type State: Clone + Send + Sync;
	type Act: Clone + Send + Sync + Debug;
	fn name(&self) -> String;
	/// every (initial product state, label)
	fn inits(&self) -> Vec<(Self::State, String)>;
	/// enabled actions with their deviation cost (0 = default continuation)
	fn actions(&self, s: &Self::State, depth: u32) -> Vec<(Self::Act, u8)>;
	fn step(&self, s: &Self::State, a: &Self::Act) -> Step<Self::State>;
	/// canonical key of a product state, None = never merge
	fn key(&self, _s: &Self::State) -> Option<u128> {
		None
	}
	/// textual rendering of an action for replay files
	fn show_act(&self, a: &Self::Act) -> String {
		format!("{a:?}")
	}
}

#[derive(Clone, Debug)]
pub struct Limits {
	pub max_depth: u32,
	pub max_dev: u32,
	pub max_states: u64,
	pub wall: Duration,
}

impl Limits {
	pub fn depth(d: u32) -> Self {
		Self {
			max_depth: d,
			max_dev: u32::MAX,
			max_states: 20_000_000,
			wall: Duration::from_secs(3600),
		}
	}
	pub fn closure() -> Self {
		Self::depth(u32::MAX)
	}
	pub fn deviation(k: u32, horizon: u32) -> Self {
		Self {
			max_depth: horizon,
			max_dev: k,
			max_states: 20_000_000,
			wall: Duration::from_secs(3600),
		}
	}
	pub fn states(mut self, n: u64) -> Self {
		self.max_states = n;
		self
	}
	pub fn wall_secs(mut self, s: u64) -> Self {
		self.wall = Duration::from_secs(s);
		self
	}
}

#[derive(Clone, Debug, Serialize, Deserialize)]
pub struct Violation {
	pub system: String,
	pub init: String,
	pub path: Vec<String>,
	pub failure: Failure,
	pub deviations: u32,
}

#[derive(Clone, Debug, Default, Serialize, Deserialize)]
pub struct Report {
	pub system: String,
	pub mode: String,
	pub states: u64,
	pub transitions: u64,
	pub leaves: u64,
	pub exempt: u64,
	pub max_depth: u32,
	pub closed: bool,
	pub cap_hit: Option<String>,
	pub violations_total: u64,
	/// at most `KEEP` violations per distinct signature, least (dev, len) first
	pub violations: Vec<Violation>,
	pub samples: Vec<serde_json::Value>,
	pub wall_s: f64,
}

const KEEP_PER_SIG: usize = 3;

struct VioBag {
	total: u64,
	by_sig: std::collections::BTreeMap<String, Vec<Violation>>,
}

impl VioBag {
	fn new() -> Self {
		Self {
			total: 0,
			by_sig: Default::default(),
		}
	}
	fn push(&mut self, v: Violation) {
		self.total += 1;
		let e = self.by_sig.entry(v.failure.sig.clone()).or_default();
		e.push(v);
		e.sort_by(|a, b| {
			(a.deviations, a.path.len(), &a.path).cmp(&(b.deviations, b.path.len(), &b.path))
		});
		e.truncate(KEEP_PER_SIG);
	}
	/// would a violation with this signature, deviation count and path length be kept? (cheap test
	/// before the path is rendered: with millions of violations of a recorded finding the rendering
	/// of every path dominated the run time)
	fn wants(&self, sig: &str, dev: u32, len: usize) -> bool {
		match self.by_sig.get(sig) {
			None => true,
			Some(e) if e.len() < KEEP_PER_SIG => true,
			Some(e) => {
				let w = &e[e.len() - 1];
				(dev, len) <= (w.deviations, w.path.len())
			}
		}
	}
	fn count_only(&mut self) {
		self.total += 1;
	}
	fn merge(&mut self, other: VioBag) {
		let t = self.total + other.total;
		for (_, vs) in other.by_sig {
			for v in vs {
				self.push(v);
			}
		}
		self.total = t;
	}
	fn into_vec(self) -> (u64, Vec<Violation>) {
		(self.total, self.by_sig.into_values().flatten().collect())
	}
}

struct Node {
	parent: u32,
}

/// Breadth-first exploration with deduplication (where `key` is Some), layer-parallel.
/// Used for closure mode and for bounded depth / deviation mode alike.
pub fn explore<Sys: System>(sys: &Sys, lim: &Limits) -> Report {
	let t0 = Instant::now();
	let mut rep = Report {
		system: sys.name(),
		mode: mode_name(lim),
		closed: false,
		..Default::default()
	};
	let mut bag = VioBag::new();
	let mut seen: HashSet<u128> = HashSet::new();
	// arena of nodes for path reconstruction
	let mut nodes: Vec<Node> = Vec::new();
	let mut labels: Vec<String> = Vec::new(); // per root: init label
	let mut acts: Vec<Option<Sys::Act>> = Vec::new(); // per node: action that led to it
	let mut frontier: Vec<(Sys::State, u32, u32)> = Vec::new(); // state, node id, dev used

	let dev_in_key = lim.max_dev != u32::MAX;
	let depth_in_key = lim.max_depth != u32::MAX;
	let mk_key = |k: Option<u128>, dev: u32, depth: u32| -> Option<u128> {
		k.map(|k| {
			let mut k = k;
			if dev_in_key {
				k ^= (dev as u128 + 1).wrapping_mul(0x9e37_79b9_7f4a_7c15_f39c_c060_5ced_c835);
			}
			if depth_in_key {
				k ^= (depth as u128 + 1).wrapping_mul(0xc2b2_ae3d_27d4_eb4f_1656_67b1_9e37_79f9);
			}
			k
		})
	};

	for (s, label) in sys.inits() {
		if let Some(k) = mk_key(sys.key(&s), 0, 0) {
			if !seen.insert(k) {
				continue;
			}
		}
		let id = nodes.len() as u32;
		nodes.push(Node { parent: u32::MAX });
		acts.push(None);
		labels.push(label);
		frontier.push((s, id, 0));
		rep.states += 1;
	}

	// roots are the first `labels.len()` nodes
	let path_of = |nodes: &Vec<Node>, acts: &Vec<Option<Sys::Act>>, labels: &Vec<String>, mut id: u32| -> (String, Vec<String>) {
		let mut p = Vec::new();
		while nodes[id as usize].parent != u32::MAX {
			p.push(sys.show_act(acts[id as usize].as_ref().unwrap()));
			id = nodes[id as usize].parent;
		}
		p.reverse();
		(labels[id as usize].clone(), p)
	};

	let mut depth = 0u32;
	let mut last_frontier_ids: Vec<u32> = Vec::new();
	while !frontier.is_empty() {
		if depth >= lim.max_depth {
			rep.leaves += frontier.len() as u64;
			last_frontier_ids = frontier.iter().map(|f| f.1).collect();
			break;
		}
		if t0.elapsed() > lim.wall {
			rep.cap_hit = Some(format!("wall {}s at depth {}", lim.wall.as_secs(), depth));
			rep.leaves += frontier.len() as u64;
			last_frontier_ids = frontier.iter().map(|f| f.1).collect();
			break;
		}
		if rep.states > lim.max_states {
			rep.cap_hit = Some(format!("states {} at depth {}", lim.max_states, depth));
			rep.leaves += frontier.len() as u64;
			last_frontier_ids = frontier.iter().map(|f| f.1).collect();
			break;
		}
		// (state, action, deviations, failure, exempt, key of the state - computed in the parallel phase;
		// a state whose key is already in `seen` is dropped there and then)
		type Child<S, A> = (Option<S>, A, u32, Option<Failure>, bool, Option<u128>);
		let mut next_frontier: Vec<(Sys::State, u32, u32)> = Vec::new();
		last_frontier_ids = frontier.iter().map(|f| f.1).collect();
		for chunk in frontier.chunks(1 << 16) {
			let seen_ro = &seen;
			let expanded: Vec<(u32, u32, Vec<Child<Sys::State, Sys::Act>>)> = chunk
				.par_iter()
				.map(|(s, id, dev)| {
					let mut out: Vec<Child<Sys::State, Sys::Act>> = Vec::new();
					for (a, cost) in sys.actions(s, depth) {
						let nd = dev + cost as u32;
						if nd > lim.max_dev {
							continue;
						}
						let (n, f, ex) = match sys.step(s, &a) {
							Step::Next(n) => (Some(n), None, false),
							Step::Exempt(n, _) => (Some(n), None, true),
							Step::Violation(f) => (None, Some(f), false),
							Step::ViolationContinue(n, f) => (Some(n), Some(f), false),
							Step::Prune => continue,
						};
						let k = n.as_ref().and_then(|n| mk_key(sys.key(n), nd, depth + 1));
						// already known from an earlier layer / chunk: no need to carry the state
						let n = if k.map(|k| seen_ro.contains(&k)).unwrap_or(false) { None } else { n };
						out.push((n, a, nd, f, ex, k));
					}
					(*id, *dev, out)
				})
				.collect();
			for (pid, _pdev, children) in expanded {
				let mut fresh = 0;
				for (ns, a, nd, fail, exempt, k) in children.into_iter() {
					rep.transitions += 1;
					if exempt {
						rep.exempt += 1;
					}
					if let Some(f) = fail {
						// length of the path = depth of the parent + 1
						if !bag.wants(&f.sig, nd, depth as usize + 1) {
							bag.count_only();
						} else {
						let (init, mut path) = path_of(&nodes, &acts, &labels, pid);
						path.push(sys.show_act(&a));
						bag.push(Violation {
							system: sys.name(),
							init,
							path,
							failure: f,
							deviations: nd,
						});
						}
					}
					if let Some(ns) = ns {
						if let Some(k) = k {
							if !seen.insert(k) {
								continue;
							}
						}
						let id = nodes.len() as u32;
						nodes.push(Node { parent: pid });
						acts.push(Some(a));
						next_frontier.push((ns, id, nd));
						rep.states += 1;
						fresh += 1;
					}
				}
				if fresh == 0 {
					rep.leaves += 1;
				}
			}
		}
		frontier = next_frontier;
		depth += 1;
		rep.max_depth = depth;
		if frontier.is_empty() {
			rep.closed = rep.cap_hit.is_none();
		}
	}
	if lim.max_depth != u32::MAX && rep.cap_hit.is_none() {
		// a depth-bounded search that ran to its bound is complete for that bound
		rep.closed = false;
	}
	// samples: first, middle and last (deepest) explored paths
	let mut ids: Vec<u32> = Vec::new();
	if let Some(&l) = last_frontier_ids.last() {
		ids.push(l);
	}
	if let Some(&m) = last_frontier_ids.get(last_frontier_ids.len() / 2) {
		ids.push(m);
	}
	if !nodes.is_empty() {
		ids.push((nodes.len() - 1) as u32);
	}
	ids.dedup();
	for id in ids {
		let (init, path) = path_of(&nodes, &acts, &labels, id);
		rep.samples
			.push(serde_json::json!({"system": sys.name(), "init": init, "path": truncate_path(&path)}));
	}
	let (total, vios) = bag.into_vec();
	rep.violations_total = total;
	rep.violations = vios;
	rep.wall_s = t0.elapsed().as_secs_f64();
	rep
}

fn truncate_path(p: &[String]) -> Vec<String> {
	if p.len() <= 24 {
		p.to_vec()
	} else {
		let mut v = p[..10].to_vec();
		v.push(format!("... {} more ...", p.len() - 20));
		v.extend_from_slice(&p[p.len() - 10..]);
		v
	}
}

fn mode_name(l: &Limits) -> String {
	if l.max_dev != u32::MAX {
		format!("deviation(k<={}, H={})", l.max_dev, l.max_depth)
	} else if l.max_depth == u32::MAX {
		"closure".to_string()
	} else {
		format!("depth({})", l.max_depth)
	}
}

/// Depth-first enumeration of every action sequence up to the bounds, without
/// deduplication (real-valued states never repeat). Parallel over the subtrees below
/// a breadth-first prefix. Memory is O(depth) per worker.
pub fn explore_dfs<Sys: System>(sys: &Sys, lim: &Limits) -> Report {
	let t0 = Instant::now();
	let mut rep = Report {
		system: sys.name(),
		mode: format!("{} [dfs]", mode_name(lim)),
		..Default::default()
	};
	// prefix expansion
	struct Item<S, A> {
		s: S,
		init: String,
		path: Vec<A>,
		dev: u32,
		depth: u32,
	}
	let mut bag = VioBag::new();
	let mut work: Vec<Item<Sys::State, Sys::Act>> = sys
		.inits()
		.into_iter()
		.map(|(s, l)| Item {
			s,
			init: l,
			path: vec![],
			dev: 0,
			depth: 0,
		})
		.collect();
	rep.states += work.len() as u64;
	let mut split_depth = 0;
	// (chain-like systems never reach 512 items: after 6 layers the subtree phase takes over, whose
	// recursion is itself parallel for deviation-bounded systems)
	while work.len() < 512 && split_depth < lim.max_depth.min(6) && !work.is_empty() {
		// the expansion of one layer is done in parallel too: a single step may be a macro-step of
		// millions of calls (C07), and every (item, action) pair is an independent task
		type Out<S, A> = (u64, u64, Vec<Violation>, Vec<Item<S, A>>, bool);
		let pairs: Vec<(usize, Sys::Act, u8)> = work
			.iter()
			.enumerate()
			.flat_map(|(i, it)| sys.actions(&it.s, it.depth).into_iter().map(move |(a, c)| (i, a, c)))
			.collect();
		let outs: Vec<(usize, Out<Sys::State, Sys::Act>)> = pairs
			.par_iter()
			.map(|(i, a, cost)| {
				let it = &work[*i];
				let mut o: Out<Sys::State, Sys::Act> = (0, 0, vec![], vec![], false);
				let nd = it.dev + *cost as u32;
				if nd > lim.max_dev {
					return (*i, o);
				}
				let (ns, fail, ex) = match sys.step(&it.s, a) {
					Step::Next(n) => (Some(n), None, false),
					Step::Exempt(n, _) => (Some(n), None, true),
					Step::Violation(f) => (None, Some(f), false),
					Step::ViolationContinue(n, f) => (Some(n), Some(f), false),
					Step::Prune => return (*i, o),
				};
				o.0 = 1;
				o.1 = ex as u64;
				let mut path = it.path.clone();
				path.push(a.clone());
				if let Some(f) = fail {
					o.2.push(Violation { system: sys.name(), init: it.init.clone(), path: path.iter().map(|a| sys.show_act(a)).collect(), failure: f, deviations: nd });
				}
				if let Some(ns) = ns {
					o.4 = true;
					o.3.push(Item { s: ns, init: it.init.clone(), path, dev: nd, depth: it.depth + 1 });
				}
				(*i, o)
			})
			.collect();
		let mut fresh = vec![false; work.len()];
		let mut next = Vec::new();
		for (i, (tr, ex, vios, items, any)) in outs {
			rep.transitions += tr;
			rep.exempt += ex;
			for v in vios {
				bag.push(v);
			}
			rep.states += items.len() as u64;
			next.extend(items);
			fresh[i] |= any;
		}
		rep.leaves += fresh.iter().filter(|f| !**f).count() as u64;
		work = next;
		split_depth += 1;
	}
	rep.max_depth = split_depth;

	struct Acc {
		states: u64,
		transitions: u64,
		leaves: u64,
		exempt: u64,
		max_depth: u32,
		bag: VioBag,
		capped: bool,
		sample: Option<(String, Vec<String>)>,
	}
	impl Acc {
		fn new() -> Self {
			Acc { states: 0, transitions: 0, leaves: 0, exempt: 0, max_depth: 0, bag: VioBag::new(), capped: false, sample: None }
		}
		fn absorb(&mut self, o: Acc) {
			self.states += o.states;
			self.transitions += o.transitions;
			self.leaves += o.leaves;
			self.exempt += o.exempt;
			self.max_depth = self.max_depth.max(o.max_depth);
			self.capped |= o.capped;
			let t = self.bag.total + o.bag.total;
			self.bag.merge(o.bag);
			self.bag.total = t;
			if self.sample.is_none() {
				self.sample = o.sample;
			}
		}
	}
	fn acc_capped_hint(t0: &Instant, lim: &Limits) -> bool {
		t0.elapsed() > lim.wall
	}
	fn rec<Sys: System>(
		sys: &Sys,
		lim: &Limits,
		t0: &Instant,
		s: &Sys::State,
		depth: u32,
		dev: u32,
		init: &str,
		path: &mut Vec<Sys::Act>,
		acc: &mut Acc,
	) {
		acc.max_depth = acc.max_depth.max(depth);
		if depth >= lim.max_depth {
			acc.leaves += 1;
			if acc.sample.is_none() {
				acc.sample = Some((init.to_string(), path.iter().map(|a| sys.show_act(a)).collect()));
			}
			return;
		}
		if acc.capped || (acc.states & 0xfff == 0 && t0.elapsed() > lim.wall) {
			acc.capped = true;
			acc.leaves += 1;
			return;
		}
		// deviation-bounded systems are long chains with side branches: a prefix split alone leaves
		// almost all of the work in the one item that continues the chain. While deviation budget is
		// left, the children of a node are explored as parallel tasks (work stealing), each with its
		// own accumulator, merged in child order.
		let acts = sys.actions(s, depth);
		if lim.max_dev != u32::MAX && dev < lim.max_dev && acts.iter().filter(|(_, c)| dev + *c as u32 <= lim.max_dev).count() > 1 {
			let base_path: &Vec<Sys::Act> = path;
			let parts: Vec<(Acc, bool)> = acts
				.par_iter()
				.filter(|(_, cost)| dev + *cost as u32 <= lim.max_dev)
				.map(|(a, cost)| {
					let mut a2 = Acc::new();
					a2.capped = acc_capped_hint(t0, lim);
					let nd = dev + *cost as u32;
					let (ns, fail, ex) = match sys.step(s, a) {
						Step::Next(n) => (Some(n), None, false),
						Step::Exempt(n, _) => (Some(n), None, true),
						Step::Violation(f) => (None, Some(f), false),
						Step::ViolationContinue(n, f) => (Some(n), Some(f), false),
						Step::Prune => return (a2, false),
					};
					a2.transitions += 1;
					a2.exempt += ex as u64;
					let mut p2 = base_path.clone();
					p2.push(a.clone());
					if let Some(f) = fail {
						a2.bag.push(Violation { system: sys.name(), init: init.to_string(), path: p2.iter().map(|a| sys.show_act(a)).collect(), failure: f, deviations: nd });
					}
					let mut fresh = false;
					if let Some(ns) = ns {
						a2.states += 1;
						fresh = true;
						rec(sys, lim, t0, &ns, depth + 1, nd, init, &mut p2, &mut a2);
					}
					(a2, fresh)
				})
				.collect();
			let mut any = false;
			for (a2, fresh) in parts {
				any |= fresh;
				acc.absorb(a2);
			}
			if !any {
				acc.leaves += 1;
			}
			return;
		}
		let mut fresh = 0;
		for (a, cost) in acts {
			let nd = dev + cost as u32;
			if nd > lim.max_dev {
				continue;
			}
			let (ns, fail, ex) = match sys.step(s, &a) {
				Step::Next(n) => (Some(n), None, false),
				Step::Exempt(n, _) => (Some(n), None, true),
				Step::Violation(f) => (None, Some(f), false),
				Step::ViolationContinue(n, f) => (Some(n), Some(f), false),
				Step::Prune => continue,
			};
			acc.transitions += 1;
			acc.exempt += ex as u64;
			path.push(a.clone());
			if let Some(f) = fail {
				if !acc.bag.wants(&f.sig, nd, path.len()) {
					acc.bag.count_only();
				} else {
					acc.bag.push(Violation {
						system: sys.name(),
						init: init.to_string(),
						path: path.iter().map(|a| sys.show_act(a)).collect(),
						failure: f,
						deviations: nd,
					});
				}
			}
			if let Some(ns) = ns {
				acc.states += 1;
				fresh += 1;
				rec(sys, lim, t0, &ns, depth + 1, nd, init, path, acc);
			}
			path.pop();
		}
		if fresh == 0 {
			acc.leaves += 1;
		}
	}
	let accs: Vec<Acc> = work
		.par_iter()
		.map(|it| {
			let mut acc = Acc::new();
			let mut path = it.path.clone();
			rec(sys, lim, &t0, &it.s, it.depth, it.dev, &it.init, &mut path, &mut acc);
			acc
		})
		.collect();
	let n = accs.len();
	for (i, a) in accs.into_iter().enumerate() {
		rep.states += a.states;
		rep.transitions += a.transitions;
		rep.leaves += a.leaves;
		rep.exempt += a.exempt;
		rep.max_depth = rep.max_depth.max(a.max_depth);
		if a.capped {
			rep.cap_hit = Some(format!("wall {}s", lim.wall.as_secs()));
		}
		bag.merge(a.bag);
		if i == 0 || i == n / 2 || i + 1 == n {
			if let Some((init, path)) = a.sample {
				rep.samples.push(
					serde_json::json!({"system": sys.name(), "init": init, "path": truncate_path(&path)}),
				);
			}
		}
	}
	let (total, vios) = bag.into_vec();
	rep.violations_total = total;
	rep.violations = vios;
	rep.wall_s = t0.elapsed().as_secs_f64();
	rep
}

/// Re-execute a recorded path (by shown action text) and return the failure of its
/// last step, if any. Used for replay determinism checks and `bin/replay`.
pub fn replay_path<Sys: System>(sys: &Sys, init: &str, path: &[String]) -> Result<Option<Failure>, String> {
	let mut cur = None;
	for (s, l) in sys.inits() {
		if l == init {
			cur = Some(s);
			break;
		}
	}
	let mut s = cur.ok_or_else(|| format!("init {init:?} not found in system {}", sys.name()))?;
	for (i, want) in path.iter().enumerate() {
		let acts = sys.actions(&s, i as u32);
		let a = acts
			.iter()
			.map(|(a, _)| a)
			.find(|a| &sys.show_act(a) == want)
			.ok_or_else(|| format!("step {i}: action {want:?} not enabled (divergence while replaying)"))?;
		match sys.step(&s, a) {
			Step::Next(n) | Step::Exempt(n, _) => s = n,
			Step::ViolationContinue(n, f) => {
				if i + 1 == path.len() {
					return Ok(Some(f));
				}
				s = n;
			}
			Step::Violation(f) => {
				if i + 1 == path.len() {
					return Ok(Some(f));
				}
				return Err(format!("step {i}: violation before the end of the path: {f:?}"));
			}
			Step::Prune => return Err(format!("step {i}: action pruned")),
		}
	}
	Ok(None)
}

// ---------------------------------------------------------------------------
// canaries: a deliberately broken ring buffer and running mean, explored against
// correct references with the same engine. The explorer must find both seeded bugs
// at their known minimal depth; otherwise the run is a machinery error.

#[derive(Clone)]
struct CanRing {
	buf: Vec<u8>,
	idx: usize,
	model: std::collections::VecDeque<u8>,
}
struct CanaryRing;
impl System for CanaryRing {
	type State = CanRing;
	type Act = u8;
	fn name(&self) -> String {
		"canary/ring".into()
	}
	fn inits(&self) -> Vec<(CanRing, String)> {
		vec![(
			CanRing {
				buf: vec![0; 3],
				idx: 0,
				model: vec![0, 0, 0].into(),
			},
			"cap3".into(),
		)]
	}
	fn actions(&self, _: &CanRing, _: u32) -> Vec<(u8, u8)> {
		vec![(1, 0), (2, 0)]
	}
	fn step(&self, s: &CanRing, a: &u8) -> Step<CanRing> {
		let mut n = s.clone();
		let old = std::mem::replace(&mut n.buf[n.idx], *a);
		// seeded bug: wraps one slot early on the second lap only when pushing `2` at slot 1
		n.idx = if n.idx == 2 || (n.idx == 1 && *a == 2 && s.model[0] == 2) { 0 } else { n.idx + 1 };
		let want = n.model.pop_front().unwrap();
		n.model.push_back(*a);
		if old != want {
			return Step::Violation(Failure::new("canary/ring/push", format!("want {want} got {old}")));
		}
		Step::Next(n)
	}
	fn key(&self, s: &CanRing) -> Option<u128> {
		Some(hash128_str(&format!("{:?}{}{:?}", s.buf, s.idx, s.model)))
	}
}

#[derive(Clone)]
struct CanMean {
	sum: i64,
	win: std::collections::VecDeque<i64>,
}
struct CanaryMean;
impl System for CanaryMean {
	type State = CanMean;
	type Act = i64;
	fn name(&self) -> String {
		"canary/mean".into()
	}
	fn inits(&self) -> Vec<(CanMean, String)> {
		vec![(
			CanMean {
				sum: 0,
				win: vec![0, 0].into(),
			},
			"n2".into(),
		)]
	}
	fn actions(&self, _: &CanMean, _: u32) -> Vec<(i64, u8)> {
		vec![(0, 0), (1, 1), (-3, 1)]
	}
	fn step(&self, s: &CanMean, a: &i64) -> Step<CanMean> {
		let mut n = s.clone();
		let old = n.win.pop_front().unwrap();
		n.win.push_back(*a);
		// seeded bug: forgets to subtract a leaving negative element
		n.sum += *a - if old < 0 { 0 } else { old };
		let want: i64 = n.win.iter().sum();
		if n.sum != want {
			return Step::Violation(Failure::new("canary/mean/sum", format!("want {want} got {}", n.sum)));
		}
		Step::Next(n)
	}
	fn key(&self, s: &CanMean) -> Option<u128> {
		Some(hash128_str(&format!("{}{:?}", s.sum, s.win)))
	}
}

/// Err = machinery error.
pub fn canaries() -> Result<(), String> {
	let r = explore(&CanaryRing, &Limits::closure());
	let v = r
		.violations
		.iter()
		.map(|v| v.path.len())
		.min()
		.ok_or("canary/ring: seeded bug not found")?;
	if v != 6 {
		return Err(format!("canary/ring: minimal counterexample depth {v}, expected 6"));
	}
	if !r.closed {
		return Err("canary/ring: search did not close".into());
	}
	let r2 = explore(&CanaryMean, &Limits::deviation(1, 6));
	let v2 = r2
		.violations
		.iter()
		.map(|v| v.path.len())
		.min()
		.ok_or("canary/mean: seeded bug not found")?;
	if v2 != 3 {
		return Err(format!("canary/mean: minimal counterexample depth {v2}, expected 3"));
	}
	let r3 = explore_dfs(&CanaryMean, &Limits::depth(5));
	if r3.violations.iter().map(|v| v.path.len()).min() != Some(3) {
		return Err("canary/mean[dfs]: seeded bug not found at depth 3".into());
	}
	// determinism of the engine itself
	let r4 = explore(&CanaryRing, &Limits::closure());
	if (r4.states, r4.transitions) != (r.states, r.transitions) {
		return Err("canary/ring: state counts differ between two runs".into());
	}
	Ok(())
}

#[cfg(test)]
mod tests {
	#[test]
	fn canaries_fire() {
		super::canaries().unwrap();
	}
}
