//! Panic capture: run a closure under `catch_unwind` with a quiet hook that records
//! message and source location in a thread-local.

use std::cell::RefCell;
use std::panic::{self, AssertUnwindSafe};
use std::sync::Once;

#[derive(Clone, Debug)]
pub struct PanicInfo {
	pub msg: String,
	pub file: String,
	pub line: u32,
}

impl PanicInfo {
	/// "file:line" relative to the crate root (`src/...`) where possible
	pub fn at(&self) -> String {
		let f = match self.file.find("src/") {
			Some(i) => &self.file[i..],
			None => &self.file,
		};
		format!("{f}:{}", self.line)
	}
	/// location without the line number (stable signature part)
	pub fn file_short(&self) -> String {
		match self.file.find("src/") {
			Some(i) => self.file[i..].to_string(),
			None => self.file.clone(),
		}
	}
}

thread_local! {
	static LAST: RefCell<Option<PanicInfo>> = const { RefCell::new(None) };
	static DEPTH: RefCell<u32> = const { RefCell::new(0) };
}

static HOOK: Once = Once::new();

pub fn install_hook() {
	HOOK.call_once(|| {
		let default = panic::take_hook();
		panic::set_hook(Box::new(move |info| {
			let inside = DEPTH.with(|d| *d.borrow() > 0);
			if inside {
				let msg = if let Some(s) = info.payload().downcast_ref::<&str>() {
					s.to_string()
				} else if let Some(s) = info.payload().downcast_ref::<String>() {
					s.clone()
				} else {
					"<non-string panic>".to_string()
				};
				let (file, line) = info
					.location()
					.map(|l| (l.file().to_string(), l.line()))
					.unwrap_or_default();
				LAST.with(|l| *l.borrow_mut() = Some(PanicInfo { msg, file, line }));
			} else {
				default(info);
			}
		}));
	});
}

/// Runs `f`; a panic inside becomes `Err(PanicInfo)`.
pub fn catch<T>(f: impl FnOnce() -> T) -> Result<T, PanicInfo> {
	install_hook();
	DEPTH.with(|d| *d.borrow_mut() += 1);
	let r = panic::catch_unwind(AssertUnwindSafe(f));
	DEPTH.with(|d| *d.borrow_mut() -= 1);
	match r {
		Ok(v) => Ok(v),
		Err(_) => Err(LAST.with(|l| l.borrow_mut().take()).unwrap_or(PanicInfo {
			msg: "<unknown>".into(),
			file: String::new(),
			line: 0,
		})),
	}
}
